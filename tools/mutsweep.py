#!/usr/bin/env python3
"""Automated mutation sweep (sensitivity aid, not a registered check).
For every property: sample K single-token mutants from the property's anchor files, drop those that do not compile
or that the repository's own tests of the mutated package already reject, and run the property's rapid tests
(a fraction of the quick budget) against the rest. Survivors are listed for manual analysis (equivalent mutant,
behaviour the statement does not constrain, or a gap in the check).
  mutsweep.py <K> <seed> [PROP ...]        results: /verif/out/mutsweep/results.jsonl
Scratch copies live under /tmp/verif-ms-<pid>-<n> and are removed after each mutant."""
import sys, os, re, json, random, shutil, subprocess, glob, concurrent.futures as cf
sys.path.insert(0, "/verif")
from props import PROPS
ENV = dict(os.environ, GOFLAGS="-mod=mod -trimpath", GOPROXY="off", GOSUMDB="off", GOTOOLCHAIN="local", VERIF_KNOWN="/verif/known_findings.json")
K, SEED = int(sys.argv[1]), int(sys.argv[2])
ONLY = sys.argv[3:]
RULES = [(r"<=", "<"), (r">=", ">"), (r"(?<![<>=!-])<(?![=<-])", "<="), (r"(?<![<>=!-])>(?![=>])", ">="), (r"==", "!="), (r"!=", "=="),
         (r"\.Add\(", ".Sub("), (r"\.Sub\(", ".Add("), (r"\.GT\(", ".GTE("), (r"\.GTE\(", ".GT("), (r"\.LT\(", ".LTE("), (r"\.LTE\(", ".LT("),
         (r"\.IsZero\(\)", ".IsPositive()"), (r"\.After\(", ".Before("), (r"\.Before\(", ".After("), (r"&&", "||"), (r"\|\|", "&&"),
         (r"\btrue\b", "false"), (r"\bfalse\b", "true"), (r"\+ 1\b", "+ 2"), (r"- 1\b", "- 0"), (r"\.Mul\(", ".Quo("), (r"\.Quo\(", ".Mul("),
         (r"\.TruncateInt\(\)", ".RoundInt()"), (r"\.IsBonded\(\)", ".IsUnbonded()"), (r"\bcontinue\b", "break")]
def candidates(path):
    out = []
    try:
        lines = open(os.path.join("/repo", path)).read().split("\n")
    except Exception:
        return out
    infunc = False
    for i, ln in enumerate(lines):
        s = ln.strip()
        if s.startswith("func "):
            infunc = True
        if not infunc or s.startswith("//") or s.startswith("import") or "Logger(" in s or "fmt.Errorf" in s or "errors.New" in s or "Wrap" in s or "NewAttribute" in s or "telemetry" in s:
            continue
        code = ln.split("//")[0]
        for pat, rep in RULES:
            for m in re.finditer(pat, code):
                if pat == "err != nil" and "if err != nil" in code and i + 1 < len(lines) and "return" in lines[i + 1]:
                    continue  # inverting an error check just breaks everything; not informative
                out.append((path, i, m.start(), m.end(), rep, code.strip()[:120]))
    return out
import threading
_cache_lock = threading.Lock()
def guard_disk():
    # every mutant rebuilds the packages that depend on the mutated one: the go build cache grows by ~0.5-1 GB per
    # mutant even with -trimpath; empty it when the disk gets tight
    with _cache_lock:
        if shutil.disk_usage("/").free < 40 * 2**30:
            subprocess.run(["go", "clean", "-cache"], env=ENV)
def run_one(job):
    guard_disk()
    n, pid, (path, li, a, b, rep, text) = job
    root = "/tmp/verif-ms-%d-%d" % (os.getpid(), n)
    res = dict(property=pid, file=path, line=li + 1, text=text, repl=rep)
    try:
        shutil.rmtree(root, ignore_errors=True); os.makedirs(root)
        subprocess.run(["cp", "-r", "/repo", root + "/repo"], check=True); shutil.rmtree(root + "/repo/.git", ignore_errors=True)
        fp = root + "/repo/" + path
        lines = open(fp).read().split("\n")
        lines[li] = lines[li][:a] + rep + lines[li][b:]
        res["mutated"] = lines[li].strip()[:140]
        open(fp, "w").write("\n".join(lines))
        pkgdir = os.path.dirname(path)
        r = subprocess.run(["go", "build", "./" + pkgdir + "/..."], cwd=root + "/repo", env=ENV, stdout=subprocess.PIPE, stderr=subprocess.STDOUT, text=True)
        if r.returncode != 0:
            res["result"] = "does-not-compile"; return res
        r = subprocess.run(["go", "test", "-count=1", "-vet=off", "-timeout", "10m", "./" + pkgdir + "/..."], cwd=root + "/repo", env=ENV, stdout=subprocess.PIPE, stderr=subprocess.STDOUT, text=True)
        if r.returncode != 0:
            res["result"] = "killed-by-repo-tests"; return res
        subprocess.run(["cp", "-r", "/verif/harness", root + "/harness"], check=True)
        gm = open(root + "/harness/go.mod").read().replace("=> /repo", "=> " + root + "/repo"); open(root + "/harness/go.mod", "w").write(gm)
        env = dict(ENV, VERIF_REPO=root + "/repo")
        built = {}
        for t in PROPS[pid]["tests"]:
            if t.get("fuzz"):
                continue
            pkg = t["pkg"]
            if pkg not in built:
                a_ = ["go", "test", "-c", "-tags", "verif", "-o", root + "/%s.test" % pkg] + (["-race"] if t.get("race") else []) + ["./" + pkg]
                rr = subprocess.run(a_, cwd=root + "/harness", env=env, stdout=subprocess.PIPE, stderr=subprocess.STDOUT, text=True)
                if rr.returncode != 0:
                    res["result"] = "harness-build-failed"; res["log"] = rr.stdout[-600:]; return res
                built[pkg] = True
            cnt = t["quick"] if not t.get("single") else 1
            cnt = max(8, cnt // 8) if cnt > 100 else max(4, cnt // 4)
            out = root + "/out-" + t["name"]
            try:
                rr = subprocess.run([root + "/%s.test" % pkg, "-test.run", "^" + t["name"] + "$", "-rapid.checks=%d" % cnt, "-rapid.seed=%d" % (SEED * 7919 + n), "-rapid.nofailfile",
                                     "-rapid.shrinktime=1s", "-test.timeout", "40m"], cwd=root + "/harness/" + pkg, env=dict(env, VERIF_OUT=out), stdout=subprocess.PIPE, stderr=subprocess.STDOUT, text=True, timeout=2500)
            except subprocess.TimeoutExpired:
                res["result"] = "timeout in " + t["name"]; return res
            fails = glob.glob(out + "/*.fail.json")
            if fails:
                d = json.load(open(fails[0])); res["result"] = "KILLED"; res["by"] = t["name"]; res["signature"] = d["signature"]; return res
            if "DATA RACE" in rr.stdout:
                res["result"] = "KILLED"; res["by"] = t["name"]; res["signature"] = "data race"; return res
            if rr.returncode != 0:
                res["result"] = "KILLED?"; res["by"] = t["name"]; res["signature"] = "test failed without fail file"; res["log"] = rr.stdout[-400:]; return res
        res["result"] = "SURVIVED"
        return res
    except Exception as e:
        res["result"] = "error " + repr(e); return res
    finally:
        shutil.rmtree(root, ignore_errors=True)
jobs = []
rng = random.Random(SEED)
n = 0
for l in open("/verif/properties.jsonl"):
    d = json.loads(l); pid = d["id"]
    if ONLY and pid not in ONLY:
        continue
    cands = []
    for f in d["anchors"]["files"]:
        if f.endswith(".go") and not f.endswith("_test.go") and f not in ("app/app.go", "x/bridge/module.go"):
            cands += candidates(f)
    rng.shuffle(cands)
    for c in cands[:K]:
        jobs.append((n, pid, c)); n += 1
os.makedirs("/verif/out/mutsweep", exist_ok=True)
outp = "/verif/out/mutsweep/results_%d.jsonl" % SEED
with open(outp, "a") as fo, cf.ThreadPoolExecutor(max_workers=int(os.environ.get("MS_WORKERS", "4"))) as ex:
    for res in ex.map(run_one, jobs):
        fo.write(json.dumps(res) + "\n"); fo.flush()
        print(res["property"], res["result"], res.get("by", ""), res.get("signature", ""), "|", res["file"], res["line"], res.get("mutated", "")[:100], flush=True)
