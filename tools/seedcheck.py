#!/usr/bin/env python3
"""Confirm a seeded change produced in a scratch worktree and run /verif checks against it.
  seedcheck.py verify <worktree>            build, existing tests with the change (demo moved aside), demo fails with / passes without
  seedcheck.py run <worktree> <PROP> [...]  run the quick tier of the given properties' tests against a scratch copy of /repo + patch
  seedcheck.py keep <worktree> <seed-id>    copy patch.diff, demo test, meta.json to /verif/seeded/<seed-id>/
"""
import sys, os, subprocess, shutil, json, glob, re
ENV = dict(os.environ, GOFLAGS="-mod=mod -trimpath", GOPROXY="off", GOSUMDB="off", GOTOOLCHAIN="local")
def sh(cmd, cwd, **kw):
    return subprocess.run(cmd, cwd=cwd, env=ENV, shell=isinstance(cmd, str), stdout=subprocess.PIPE, stderr=subprocess.STDOUT, text=True, **kw)
def demo_info(wt):
    txt = open(os.path.join(wt, "demo_test_path.txt")).read()
    m = re.search(r"(go test[^\n`]*)", txt)
    path = None
    for tok in re.findall(r"[\w./-]+_test\.go", txt):
        if os.path.exists(os.path.join(wt, tok)):
            path = tok
    return path, (m.group(1).strip() if m else None)
mode, wt = sys.argv[1], sys.argv[2]
if mode == "verify":
    path, cmd = demo_info(wt)
    print("demo:", path, "|", cmd)
    r = sh("go build ./...", wt); print("build with change:", "OK" if r.returncode == 0 else "FAIL\n" + r.stdout[-800:])
    r = sh(cmd, wt); print("demo with change:", "FAILS (as required)" if r.returncode != 0 else "PASSES (bad)")
    sh("git apply -R patch.diff", wt)
    r = sh(cmd, wt); print("demo without change:", "PASSES (as required)" if r.returncode == 0 else "FAILS (bad)\n" + r.stdout[-800:])
    sh("git apply patch.diff", wt)
    aside = os.path.join(wt, "demo_aside.go.txt")
    shutil.move(os.path.join(wt, path), aside)
    r = sh("go test -count=1 ./x/... ./app/... ./tests/... ./lib/... ./daemons/... 2>&1 | grep -v 'no test files' | grep -v '^ok' | head -20", wt)
    shutil.move(aside, os.path.join(wt, path))
    print("existing tests with change:", "ALL OK" if not r.stdout.strip() else "NOT CLEAN:\n" + r.stdout[-1500:])
elif mode == "run":
    sys.path.insert(0, "/verif")
    from props import PROPS
    root = "/tmp/verif-seed-%d" % os.getpid()
    shutil.rmtree(root, ignore_errors=True); os.makedirs(root)
    try:
        subprocess.run(["cp", "-r", "/repo", root + "/repo"], check=True); shutil.rmtree(root + "/repo/.git", ignore_errors=True)
        r = sh("git apply --unsafe-paths --directory=%s/repo %s/patch.diff" % (root, wt), root)
        if r.returncode != 0:
            r = sh("patch -p1 -d %s/repo < %s/patch.diff" % (root, wt), root)
        if r.returncode != 0:
            print("PATCH FAILED", r.stdout); sys.exit(3)
        subprocess.run(["cp", "-r", "/verif/harness", root + "/harness"], check=True)
        gm = open(root + "/harness/go.mod").read().replace("=> /repo", "=> " + root + "/repo"); open(root + "/harness/go.mod", "w").write(gm)
        env = dict(ENV, VERIF_REPO=root + "/repo", VERIF_KNOWN="/verif/known_findings.json")
        built = {}
        for pid in sys.argv[3:]:
            for t in PROPS[pid]["tests"]:
                if t.get("fuzz"): continue
                pkg = t["pkg"]
                if pkg not in built:
                    a = ["go", "test", "-c", "-tags", "verif", "-o", root + "/%s.test" % pkg] + (["-race"] if t.get("race") else []) + ["./" + pkg]
                    rr = subprocess.run(a, cwd=root + "/harness", env=env, stdout=subprocess.PIPE, stderr=subprocess.STDOUT, text=True)
                    if rr.returncode != 0: print("HARNESS BUILD FAILED", rr.stdout[-1500:]); sys.exit(3)
                    built[pkg] = True
                out = root + "/out-" + t["name"]
                n = t["quick"] if not t.get("single") else 1
                n = max(1, n // 4) if n > 400 else n      # one process instead of 16 shards: a quarter of the quick count
                rr = subprocess.run([root + "/%s.test" % pkg, "-test.run", "^" + t["name"] + "$", "-rapid.checks=%d" % n, "-rapid.seed=%s" % os.environ.get("SEED", "1000004"),
                                     "-rapid.nofailfile", "-rapid.shrinktime=20s", "-test.timeout", "60m"], cwd=root + "/harness/" + pkg, env=dict(env, VERIF_OUT=out),
                                    stdout=subprocess.PIPE, stderr=subprocess.STDOUT, text=True)
                fails = glob.glob(out + "/*.fail.json")
                if fails:
                    d = json.load(open(fails[0])); m = re.search(r"failed after (\d+) tests", rr.stdout)
                    print("%s %s: KILLED %s (after %s cases) %s" % (pid, t["name"], d["signature"], m.group(1) if m else "?", d["message"][:200].replace("\n", " ")))
                    os.makedirs("/verif/out/seeded", exist_ok=True); shutil.copy(fails[0], "/verif/out/seeded/%s_%s.json" % (os.path.basename(wt), t["name"]))
                elif "DATA RACE" in rr.stdout: print("%s %s: KILLED data race" % (pid, t["name"]))
                elif rr.returncode != 0: print("%s %s: RUN FAILED\n%s" % (pid, t["name"], rr.stdout[-800:]))
                else: print("%s %s: survived %d cases" % (pid, t["name"], n))
    finally:
        shutil.rmtree(root, ignore_errors=True)
elif mode == "keep":
    sid = sys.argv[3]; dst = "/verif/seeded/" + sid; os.makedirs(dst, exist_ok=True)
    path, cmd = demo_info(wt)
    shutil.copy(os.path.join(wt, "patch.diff"), dst); shutil.copy(os.path.join(wt, path), os.path.join(dst, os.path.basename(path)))
    meta = json.load(open(os.path.join(wt, "meta.json"))); meta["demo_path_in_repo"] = path; meta["demo_cmd"] = cmd
    json.dump(meta, open(os.path.join(dst, "meta.json"), "w"), indent=1); print("kept", dst)
