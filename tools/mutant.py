#!/usr/bin/env python3
"""Sensitivity helper: apply one textual mutant to a scratch copy of /repo, rebuild the harness
against it and run one test function for N checks. Usage:
  mutant.py <pkg> <TestName> <checks> <file> <old> <new> [<file> <old> <new> ...]
Scratch lives under /tmp/verif-mut and is removed afterwards. Prints KILLED <signature> or SURVIVED."""
import sys, os, shutil, subprocess, json, glob
pkg, test, checks = sys.argv[1], sys.argv[2], int(sys.argv[3])
edits = sys.argv[4:]
root = "/tmp/verif-mut-%d" % os.getpid()
shutil.rmtree(root, ignore_errors=True)
os.makedirs(root)
try:
    subprocess.run(["cp", "-r", "/repo", root + "/repo"], check=True)
    shutil.rmtree(root + "/repo/.git", ignore_errors=True)
    subprocess.run(["cp", "-r", "/verif/harness", root + "/harness"], check=True)
    gm = open(root + "/harness/go.mod").read().replace("=> /repo", "=> " + root + "/repo")
    open(root + "/harness/go.mod", "w").write(gm)
    for i in range(0, len(edits), 3):
        f, old, new = edits[i:i + 3]
        p = root + "/repo/" + f
        s = open(p).read()
        if old not in s:
            print("MUTANT-NOT-APPLICABLE: pattern not found in", f); sys.exit(3)
        open(p, "w").write(s.replace(old, new, 1))
    env = dict(os.environ, GOFLAGS="-mod=mod -trimpath", GOPROXY="off", GOSUMDB="off", GOTOOLCHAIN="local", VERIF_REPO=root + "/repo",
               VERIF_OUT=root + "/out", VERIF_KNOWN="/verif/known_findings.json")
    r = subprocess.run(["go", "build", "./..."], cwd=root + "/repo", env=env, stdout=subprocess.PIPE, stderr=subprocess.STDOUT, text=True)
    if r.returncode != 0:
        print("MUTANT-DOES-NOT-COMPILE\n" + r.stdout[-1500:]); sys.exit(3)
    args = ["go", "test", "-c", "-tags", "verif", "-o", root + "/t.test"] + (["-race"] if pkg == "daemon" else []) + ["./" + pkg]
    r = subprocess.run(args, cwd=root + "/harness", env=env, stdout=subprocess.PIPE, stderr=subprocess.STDOUT, text=True)
    if r.returncode != 0:
        print("HARNESS-BUILD-FAILED\n" + r.stdout[-1500:]); sys.exit(3)
    r = subprocess.run([root + "/t.test", "-test.run", "^" + test + "$", "-rapid.checks=%d" % checks, "-rapid.seed=%s" % os.environ.get("MUT_SEED", "7"), "-rapid.nofailfile",
                        "-rapid.shrinktime=5s", "-test.timeout", "30m"], cwd=root + "/harness/" + pkg, env=env, stdout=subprocess.PIPE, stderr=subprocess.STDOUT, text=True)
    fails = glob.glob(root + "/out/*.fail.json")
    if fails:
        d = json.load(open(fails[0]))
        import re
        m = re.search(r"failed after (\d+) tests", r.stdout)
        print("KILLED %s (after %s cases): %s" % (d["signature"], m.group(1) if m else "?", d["message"][:160].replace("\n", " ")))
    elif "DATA RACE" in r.stdout:
        print("KILLED data-race")
    elif r.returncode != 0:
        print("RUN-FAILED-WITHOUT-VIOLATION\n" + r.stdout[-1200:])
    else:
        print("SURVIVED")
finally:
    shutil.rmtree(root, ignore_errors=True)
