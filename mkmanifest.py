#!/usr/bin/env python3
"""Regenerates MANIFEST.json from props.py (single source of truth)."""
import json, os, sys
sys.path.insert(0, os.path.dirname(os.path.abspath(__file__)))
from props import PROPS
ALL = [json.loads(l)["id"] for l in open(os.path.join(os.path.dirname(os.path.abspath(__file__)), "properties.jsonl"))]
checks = []
for pid in ALL:
    if pid not in PROPS:
        continue
    p = PROPS[pid]
    checks.append(dict(
        property_id=pid,
        quick_cmd="./check %s --tier quick" % pid,
        thorough_cmd="./check %s --tier thorough" % pid,
        evidence_file="evidence/%s.json" % pid,
        replay_cmd_template="./check %s --replay {path}" % pid,
        engine=p.get("engine", "pure"),
        level_claimed=dict(category=p.get("level", "exploration"), text=p["level_text"], design_ref=p.get("design_ref", "DESIGN.md §5 " + pid)),
        level_note=p["level_note"],
        technique=p["technique"],
    ))
na = [dict(property_id=i, reason=PROPS_NA.get(i, "check not built yet in this session; see DESIGN.md §5 for the planned generator and oracle")) for i in ALL if i not in PROPS] if (PROPS_NA := getattr(__import__("props"), "NOT_APPLICABLE", {})) is not None else []
m = dict(
    version=1,
    setup_cmd="./check --setup",
    hooks=dict(guard="verif", enable="go test -tags verif (harness module at /verif/harness with replace github.com/tellor-io/layer => /repo)",
               baseline_off_cmd="cd /repo && go test -vet=off -count=1 -timeout 25m ./...", source_commits=[], add_only=True),
    engines=[
        dict(name="pure", path="harness/pure", serves_properties=[k for k in ALL if k in PROPS and any(t["pkg"] == "pure" for t in PROPS[k]["tests"])], kind_free_text="rapid properties calling exported keeper/encoder functions on real stores with generated records"),
        dict(name="chain", path="harness/chain", serves_properties=[k for k in ALL if k in PROPS and any(t["pkg"] == "chain" for t in PROPS[k]["tests"])], kind_free_text="rapid-generated block histories executed on the real app.App through its ABCI surface by a scripted consensus engine; monitors and reference models after every block"),
        dict(name="daemon", path="harness/daemon", serves_properties=[k for k in ALL if k in PROPS and any(t["pkg"] == "daemon" for t in PROPS[k]["tests"])], kind_free_text="rapid + porcupine over the price daemon under -race"),
    ],
    checks=checks,
    not_applicable=na,
    notes="All checks: pgregory.net/rapid v1.3.0 generated inputs/histories against explicit oracles; exit 2 = inconclusive. known_findings.json lists genuine defects (fixed or recorded).",
)
json.dump(m, open(os.path.join(os.path.dirname(os.path.abspath(__file__)), "MANIFEST.json"), "w"), indent=1)
print("checks:", [c["property_id"] for c in checks], "na:", len(na))
