# Table of properties -> generated tests. Case counts are per tier (summed over shards).
# "single": run as one process (exhaustive enumerations, not sharded).
PROPS = {
    "C06": dict(
        title="aggregate is the weighted median / mode",
        level="exploration", engine="pure",
        technique="rapid property-based testing: validity predicate (math/big) + permutation metamorphic relation + small-scope exhaustive enumeration",
        level_text="generated report sets (random and an exhaustively enumerated small scope) are checked against a big-integer validity predicate written from the statement and against order independence; a violation is a concrete report set; absence is not established beyond the explored cases",
        level_note="trusts math/big and the harness' reading of 'numerically equal' for median values; WeightedMode inputs bounded in total power for cost",
        assumptions=["reporter strings are unique within a report set (primary key of the Reports collection)",
                     "mode inputs bounded to total power <= 2^16 (2^19 thorough): WeightedMode loops Power times per report"],
        tests=[
            dict(pkg="pure", name="TestC06_Median", quick=60000, thorough=6000000),
            dict(pkg="pure", name="TestC06_Mode", quick=30000, thorough=2000000),
            dict(pkg="pure", name="TestC06_Exhaustive", quick=1, thorough=1, single=True),
        ]),
}
