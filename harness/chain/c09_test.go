package chain

// C09 (chain level) — "time-based rewards go only to cycle-list and bridge-deposit aggregates".
// The function-level check (harness/pure) decides how a reward is split; this monitor decides WHICH aggregates draw
// on the time-based-rewards pool. Eligibility is derived from the history, not from the flag the chain stores: a
// report is a cycle-list report if its query was the scheduled cycle-list query in the state its block started from,
// or a bridge deposit. A block in which the pool pays out must contain at least one aggregate with such a report.

import (
	"encoding/hex"
	"math/big"
	"testing"

	authtypes "github.com/cosmos/cosmos-sdk/x/auth/types"

	oracletypes "github.com/tellor-io/layer/x/oracle/types"

	"pgregory.net/rapid"

	"verif/harness/pbt"
)

type tbrMonitor struct {
	BaseMonitor
	prev                                                           *c07Snap
	kinds                                                          map[string]string // hex(query id) -> catalog kind
	eligible                                                       map[uint64]bool   // round id -> holds a report made while its query was scheduled (or a deposit)
	replaceSeq                                                     uint64            // next round id right after the latest governance replacement of the cycle list
	payouts, payoutsChecked, aggsEligible, aggsOther, retippedAggs int
}

func (m *tbrMonitor) Init(c *Chain, w *World) *pbt.Violation {
	m.kinds, m.eligible = map[string]string{}, map[uint64]bool{}
	for _, q := range w.Catalog {
		m.kinds[hex.EncodeToString(queryID(q.Data))] = q.Kind
	}
	m.prev = c07Take(c)
	return nil
}

func (m *tbrMonitor) After(c *Chain, w *World, br *BlockResult, outs []TxOutcome) *pbt.Violation {
	if br.Halt != nil || br.Finalize == nil {
		return nil
	}
	h := uint64(br.Height)
	prev, cur := m.prev, c07Take(c)
	m.prev = cur
	// reports accepted in this block
	for _, o := range outs {
		if !o.OK() || len(o.Tx.Msgs) != 1 {
			continue
		}
		msg, ok := o.Tx.Msgs[0].(*oracletypes.MsgSubmitValue)
		if !ok {
			continue
		}
		q := hex.EncodeToString(queryID(msg.QueryData))
		inCycle := prev.CurQid == q || m.kinds[q] == "deposit"
		for _, r := range cur.Reports {
			if r.Qid == q && r.Reporter == msg.Creator && r.Block == h && inCycle {
				m.eligible[r.ID] = true
			}
		}
		// reports of this block whose round was aggregated in this very block are no longer stored: note the round through the aggregate below
		if inCycle {
			if r, ok := prev.current(q); ok {
				m.eligible[r.ID] = true
			}
		}
	}
	if c07HasEvent(br, "cyclelist_updated") > 0 {
		m.replaceSeq = cur.NextSeq
	}
	// what the time-based-rewards pool paid out in this block
	tbr := authtypes.NewModuleAddress("time_based_rewards").String()
	paid := new(big.Int)
	moves, bad := c13ParseMoves(br.Finalize.Events)
	for _, mv := range moves {
		if mv.from == tbr {
			paid.Add(paid, mv.amt)
		}
	}
	aggs := c07AggsAt(c, h)
	anyEligible, unknown := false, false
	for _, a := range aggs {
		switch {
		case m.eligible[a.MetaID]:
			anyEligible = true
			m.aggsEligible++
		case m.replaceSeq > 0 && a.MetaID < m.replaceSeq:
			unknown = true // round opened before governance replaced the cycle list: its stored flag is finding F-C07-1's subject
		case !prevHasRound(prev, a.MetaID):
			unknown = true // opened and aggregated inside one block: the reports were not seen against a committed schedule
		default:
			m.aggsOther++
		}
	}
	if paid.Sign() > 0 {
		m.payouts++
		if !bad && !unknown {
			m.payoutsChecked++
			if !anyEligible {
				return pbt.Violf("C09/time-based-reward/paid-without-cycle-list-or-deposit-aggregate", "block %d: the time-based-rewards pool paid out %s, but none of the %d aggregates of this block holds a report made while its query was the scheduled cycle-list query, and none is a bridge deposit", br.Height, paid, len(aggs))
			}
		}
	}
	return nil
}

func prevHasRound(s *c07Snap, id uint64) bool {
	_, ok := s.ByID[id]
	return ok
}

func (m *tbrMonitor) Classify(info *pbt.CaseInfo) {
	info.Nontrivial = m.payoutsChecked > 0 && m.aggsOther > 0
	if m.payoutsChecked > 0 {
		info.Classes = append(info.Classes, "time-based-payout-checked")
	}
	if m.aggsOther > 0 {
		info.Classes = append(info.Classes, "aggregate-of-tipped-query-outside-its-turn")
	}
	if m.payouts > m.payoutsChecked {
		info.Classes = append(info.Classes, "payout-not-evaluated")
	}
}

func tbrProfile() *Profile {
	p := roundsProfile()
	p.Name = "tbr"
	inner := p.Prefix
	p.Prefix = func(pick func(string, int) int) []Block {
		blocks := []Block{
			{Gap: GapSpec{Kind: 2}, Ops: []Op{{K: OpGov, A: 100 + pick("govActor", 5), V: 0}}},
			{Gap: GapSpec{Kind: 2}},
			{Gap: GapSpec{Kind: 6}},
		}
		return append(blocks, inner(pick)...)
	}
	return p
}

func TestC09_TimeBasedEligibility(t *testing.T) {
	prof := tbrProfile()
	pbt.Run(t, pbt.Prop[History]{Property: "C09", Name: "TestC09_TimeBasedEligibility",
		Rule: "round histories of C07 (tips incl. re-tips of expired rounds, reports, rotations, governance replacement of the cycle list, deposits) after governance started minting; every block in which the time-based-rewards pool pays out must contain an aggregate with a report made while its query was the scheduled cycle-list query, or a bridge-deposit aggregate; non-trivial = >=1 evaluated payout and >=1 aggregate of a tipped query outside its turn; distinct by SHA-256 of the history JSON",
		Gen:  func(rt *rapid.T) History { return GenHistory(rt, prof, pbt.Thorough()) },
		Check: func(h History, info *pbt.CaseInfo, st *pbt.Stats) error {
			mon := &tbrMonitor{}
			rs, _, v, err := RunHistory(h, mon)
			if err != nil {
				return err
			}
			mon.Classify(info)
			st.Count("blocks", int64(rs.Blocks))
			st.Count("payouts", int64(mon.payouts))
			st.Count("payouts_checked", int64(mon.payoutsChecked))
			st.Count("aggregates_eligible", int64(mon.aggsEligible))
			st.Count("aggregates_other", int64(mon.aggsOther))
			if v != nil {
				return v
			}
			return nil
		}})
}
