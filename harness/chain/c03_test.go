package chain

// C03 — token supply changes only by the documented, exactly quantified events.
// Oracle: shadow ledger per block written from the statement:
//   dS = mint(h) - sum 2%-tip-burns + sum claimed deposits/1e12 - sum withdrawals - dispute burns (bounded)
// plus the bank invariant (sum of balances = supply), the 75/25 split, and the cumulative bound.

import (
	"encoding/hex"
	"fmt"
	"math/big"
	"strings"
	"testing"
	"time"

	"cosmossdk.io/collections"
	"cosmossdk.io/math"

	sdk "github.com/cosmos/cosmos-sdk/types"
	authtypes "github.com/cosmos/cosmos-sdk/x/auth/types"

	bridgetypes "github.com/tellor-io/layer/x/bridge/types"
	disputetypes "github.com/tellor-io/layer/x/dispute/types"
	oracletypes "github.com/tellor-io/layer/x/oracle/types"

	"verif/harness/evmref"
	"pgregory.net/rapid"

	"verif/harness/pbt"
)

const (
	dailyMintRate = 146_940_000 // loya per day, from the statement's "fixed daily rate" (x/mint/types/minter.go)
	msPerDay      = 86_400_000
)

type supplyMonitor struct {
	BaseMonitor
	spec *evmref.Spec
	// state captured in Before (committed state of h-1)
	supplyBefore   math.Int
	mintInit       bool
	mintPrev       *time.Time
	tbrBefore      math.Int
	feeDistrBefore math.Int
	depositExpect  map[int]*big.Int // tx index -> expected minted loya if the claim is accepted
	depositMinted  map[uint64]int64 // deposit id -> height of the accepted claim that minted it
	dustBefore     *big.Int         // the dispute module's accumulated sub-unit dust (millionths of a loya) before the block
	// history-wide
	modulesOK  map[string]bool
	mintBlocks int
	pure       []pureBlock // consecutive blocks whose only supply event is minting
}

type pureBlock struct {
	t      time.Time
	minted *big.Int
	ok     bool // false breaks the chain of pure blocks
}

func moduleBal(c *Chain, name string) math.Int {
	return c.App.BankKeeper.GetBalance(c.Ctx(), authtypes.NewModuleAddress(name), BondDenom).Amount
}

func (m *supplyMonitor) Init(c *Chain, w *World) *pbt.Violation {
	sp, err := evmref.Default()
	if err == nil {
		m.spec = sp
	}
	m.modulesOK = map[string]bool{}
	return nil
}

func moduleOf(kind string) string {
	switch kind {
	case OpTip, OpSubmit:
		return "oracle"
	case OpRegisterSpec:
		return "registry"
	case OpCreateReporter, OpSelectReporter, OpSwitchReporter, OpRemoveSelector, OpUnjailReporter, OpWithdrawTip:
		return "reporter"
	case OpPropose, OpAddFee, OpVote, OpAddEvidence, OpFeeRefund, OpClaimReward, OpUpdateTeam:
		return "dispute"
	case OpReqAttest, OpWithdrawTokens, OpClaimDeposit:
		return "bridge"
	case OpDelegate, OpUndelegate, OpRedelegate, OpCancelUnbond, OpCreateVal, OpMultiStake:
		return "staking"
	case OpSend:
		return "bank"
	case OpGov:
		return "gov"
	}
	return "other"
}

func (m *supplyMonitor) Before(c *Chain, w *World, txs []*BuiltTx) *pbt.Violation {
	ctx := c.Ctx()
	m.supplyBefore = c.App.BankKeeper.GetSupply(ctx, BondDenom).Amount
	minter, err := c.App.MintKeeper.Minter.Get(ctx)
	m.mintInit, m.mintPrev = false, nil
	if err == nil {
		m.mintInit = minter.Initialized
		m.mintPrev = minter.PreviousBlockTime
	}
	m.tbrBefore = moduleBal(c, "time_based_rewards")
	m.dustBefore = new(big.Int)
	if d, err := c.App.DisputeKeeper.Dust.Get(ctx); err == nil && !d.IsNil() {
		m.dustBefore = d.BigInt()
	}
	m.feeDistrBefore = moduleBal(c, "fee_collector").Add(moduleBal(c, "distribution"))
	// expected mint of every claim, decoded independently from the aggregate the claim names
	m.depositExpect = map[int]*big.Int{}
	for i, t := range txs {
		if t.Op.K != OpClaimDeposit || len(t.Msgs) != 1 {
			continue
		}
		msg, ok := t.Msgs[0].(*bridgetypes.MsgClaimDepositsRequest)
		if !ok || len(msg.DepositIds) != len(msg.Indices) || m.spec == nil {
			continue
		}
		total := new(big.Int)
		decodable := true
		for j, id := range msg.DepositIds {
			qid, err := m.spec.DepositQueryId(id)
			if err != nil {
				decodable = false
				break
			}
			var found *oracletypes.Aggregate
			n := uint64(0)
			_ = c.App.OracleKeeper.Aggregates.Walk(ctx, collections.NewPrefixedPairRange[[]byte, uint64](qid[:]), func(_ collections.Pair[[]byte, uint64], a oracletypes.Aggregate) (bool, error) {
				if n == msg.Indices[j] {
					aa := a
					found = &aa
					return true, nil
				}
				n++
				return false, nil
			})
			if found == nil {
				decodable = false
				break
			}
			raw, err := hex.DecodeString(strings.TrimPrefix(strings.TrimPrefix(found.AggregateValue, "0x"), "0X"))
			if err != nil {
				decodable = false
				break
			}
			f, err := m.spec.DecodeDepositValue(raw)
			if err != nil {
				decodable = false
				break
			}
			total.Add(total, new(big.Int).Div(f.Amount, big.NewInt(1_000_000_000_000)))
		}
		if decodable {
			m.depositExpect[i] = total
		}
	}
	return nil
}

func (m *supplyMonitor) After(c *Chain, w *World, br *BlockResult, outs []TxOutcome) *pbt.Violation {
	if br.Halt != nil {
		return nil
	}
	ctx := c.Ctx()
	supplyAfter := c.App.BankKeeper.GetSupply(ctx, BondDenom).Amount
	// 1. sum of all balances equals the recorded supply
	sum := math.ZeroInt()
	c.App.BankKeeper.IterateAllBalances(ctx, func(_ sdk.AccAddress, coin sdk.Coin) bool {
		if coin.Denom == BondDenom {
			sum = sum.Add(coin.Amount)
		}
		return false
	})
	if !sum.Equal(supplyAfter) {
		return pbt.Violf("C03/balances-vs-supply", "block %d: account balances sum to %s, recorded supply is %s", br.Height, sum, supplyAfter)
	}
	// 2. expected change
	expected := new(big.Int)
	mint := new(big.Int)
	if m.mintInit && m.mintPrev != nil {
		elapsed := br.Time.Sub(*m.mintPrev).Milliseconds()
		mint = new(big.Int).Div(new(big.Int).Mul(big.NewInt(dailyMintRate), big.NewInt(elapsed)), big.NewInt(msPerDay))
	}
	expected.Add(expected, mint)
	pure := true
	refunds := 0
	refundBurn := new(big.Int)
	undecided := false
	for i, o := range outs {
		if !o.OK() {
			continue
		}
		m.modulesOK[moduleOf(o.Tx.Op.K)] = true
		switch msg := o.Tx.Msgs[0].(type) {
		case *oracletypes.MsgTip:
			burn := new(big.Int).Div(new(big.Int).Mul(msg.Amount.Amount.BigInt(), big.NewInt(2)), big.NewInt(100))
			expected.Sub(expected, burn)
			pure = false
		case *bridgetypes.MsgWithdrawTokens:
			expected.Sub(expected, msg.Amount.Amount.BigInt())
			pure = false
		case *bridgetypes.MsgClaimDepositsRequest:
			pure = false
			// a deposit adds its reported amount to the supply once
			if m.depositMinted == nil {
				m.depositMinted = map[uint64]int64{}
			}
			for _, id := range msg.DepositIds {
				if at, ok := m.depositMinted[id]; ok {
					return pbt.Violf("C03/deposit-minted-twice", "block %d: an accepted claim mints deposit %d again (first minted by the claim accepted in block %d)", br.Height, id, at)
				}
				m.depositMinted[id] = br.Height
			}
			if e, ok := m.depositExpect[i]; ok {
				expected.Add(expected, e)
			} else {
				undecided = true // the aggregate was created in this very block or is not decodable by the reference
			}
		case *disputetypes.MsgWithdrawFeeRefund:
			refunds++
			pure = false
			if mv, bad := c13ParseMoves(o.Res.Events); !bad {
				for _, x := range mv {
					if x.to == "" && x.from == authtypes.NewModuleAddress(disputetypes.ModuleName).String() {
						refundBurn.Add(refundBurn, x.amt)
					}
				}
			}
		}
	}
	// dust accounting of fee refunds ("sub-unit dust that is accumulated and burned"): the accumulator holds millionths
	// of a loya; every refund adds less than one loya to it and whole loyas are burned out of it, so after a block it is
	// below one loya and  burned*10^6 + dust_after - dust_before  is what the refunds of the block added: within
	// [0, refunds*(10^6-1)]
	dustAfter := new(big.Int)
	if d, err := c.App.DisputeKeeper.Dust.Get(ctx); err == nil && !d.IsNil() {
		dustAfter = d.BigInt()
	}
	if m.dustBefore != nil {
		million := big.NewInt(1_000_000)
		if dustAfter.Cmp(million) >= 0 || dustAfter.Sign() < 0 {
			return pbt.Violf("C03/dust-accumulator-out-of-range", "block %d: the dispute module's dust accumulator holds %s millionths of a loya after the block (before: %s); whole loyas must have been burned out of it", br.Height, dustAfter, m.dustBefore)
		}
		added := new(big.Int).Sub(new(big.Int).Add(new(big.Int).Mul(refundBurn, million), dustAfter), m.dustBefore)
		if added.Sign() < 0 || added.Cmp(new(big.Int).Mul(big.NewInt(int64(refunds)), big.NewInt(999_999))) > 0 {
			return pbt.Violf("C03/refund-dust-burn-unbacked", "block %d: %d fee refunds burned %s loya of dust while the accumulator went from %s to %s millionths: the refunds would have added %s millionths (possible: 0..%d)",
				br.Height, refunds, refundBurn, m.dustBefore, dustAfter, added, refunds*999_999)
		}
	}
	// SDK validator slashing burns stake (not a layer event; standard x/slashing): read the burned amount from its event
	slashBurn := new(big.Int)
	executedBurnBound := new(big.Int)
	if br.Finalize != nil {
		for _, ev := range br.Finalize.Events {
			switch ev.Type {
			case "slash":
				pure = false
				for _, a := range ev.Attributes {
					if a.Key == "burned" || a.Key == "burned_coins" {
						if x, ok := new(big.Int).SetString(strings.TrimSuffix(a.Value, BondDenom), 10); ok {
							slashBurn.Add(slashBurn, x)
						} else {
							undecided = true
						}
					}
				}
			case "dispute_executed":
				pure = false
				for _, a := range ev.Attributes {
					if a.Key == "dispute_id" {
						var id uint64
						fmt.Sscan(a.Value, &id)
						if d, err := c.App.DisputeKeeper.Disputes.Get(ctx, id); err == nil {
							executedBurnBound.Add(executedBurnBound, d.BurnAmount.BigInt())
						}
					}
				}
			}
		}
	}
	expected.Sub(expected, slashBurn)
	actual := new(big.Int).Sub(supplyAfter.BigInt(), m.supplyBefore.BigInt())
	diff := new(big.Int).Sub(actual, expected) // must lie in [-(dispute burns + dust), 0]
	lower := new(big.Int).Neg(new(big.Int).Add(executedBurnBound, big.NewInt(int64(3*refunds))))
	if !undecided {
		if diff.Sign() > 0 {
			return pbt.Violf("C03/supply-grew-unexplained", "block %d: supply changed by %s, documented events explain %s (mint %s); %s more than allowed", br.Height, actual, expected, mint, diff)
		}
		if diff.Cmp(lower) < 0 {
			return pbt.Violf("C03/supply-shrank-unexplained", "block %d: supply changed by %s, documented events explain %s (mint %s) and dispute burns allow at most %s more", br.Height, actual, expected, mint, new(big.Int).Neg(lower))
		}
	}
	// 3. 75/25 split: what the mint module account sent to the reward pool and to the validator fee pool
	// in this block, read from the bank module's transfer events (independent of what else touches the pools)
	quarter := new(big.Int).Div(mint, big.NewInt(4))
	mintAddr := authtypes.NewModuleAddress("mint").String()
	toTBR, toFee, toOther := new(big.Int), new(big.Int), new(big.Int)
	if br.Finalize != nil {
		for _, ev := range br.Finalize.Events {
			// block-level (BeginBlock/EndBlock) bank events: what the mint account spent and what the two pools received
			if ev.Type != "coin_received" && ev.Type != "coin_spent" {
				continue
			}
			var who, amount string
			for _, a := range ev.Attributes {
				switch a.Key {
				case "receiver", "spender":
					who = a.Value
				case "amount":
					amount = a.Value
				}
			}
			x, ok := new(big.Int).SetString(strings.TrimSuffix(amount, BondDenom), 10)
			if !ok {
				continue
			}
			switch {
			case ev.Type == "coin_received" && who == authtypes.NewModuleAddress("time_based_rewards").String():
				toTBR.Add(toTBR, x)
			case ev.Type == "coin_received" && who == authtypes.NewModuleAddress("fee_collector").String():
				toFee.Add(toFee, x)
			case ev.Type == "coin_spent" && who == mintAddr:
				toOther.Add(toOther, x)
			}
		}
	}
	// toOther now holds everything the mint account spent: it must be exactly what the two pools received
	toOther.Sub(toOther, new(big.Int).Add(toTBR, toFee))
	if want := new(big.Int).Sub(mint, quarter); toTBR.Cmp(want) != 0 {
		return pbt.Violf("C03/split-reward-pool", "block %d: minted %s, the mint account sent %s to the reward pool, three quarters is %s", br.Height, mint, toTBR, want)
	}
	if toFee.Cmp(quarter) != 0 {
		return pbt.Violf("C03/split-fee-pool", "block %d: minted %s, the mint account sent %s to the validator fee pool, one quarter is %s", br.Height, mint, toFee, quarter)
	}
	if toOther.Sign() != 0 {
		return pbt.Violf("C03/split-other-recipient", "block %d: the mint account sent %s to an account that is neither pool", br.Height, toOther)
	}
	if bal := moduleBal(c, "mint"); !bal.IsZero() {
		return pbt.Violf("C03/mint-account-retains", "block %d: the mint account retains %s", br.Height, bal)
	}
	if mint.Sign() > 0 {
		m.mintBlocks++
	}
	// 4. cumulative inflation over every window of consecutive mint-only blocks <= rate * elapsed
	if pure && !undecided {
		m.pure = append(m.pure, pureBlock{t: br.Time, minted: actual, ok: true})
		acc := new(big.Int)
		for i := len(m.pure) - 1; i >= 1 && m.pure[i].ok; i-- {
			acc.Add(acc, m.pure[i].minted)
			el := m.pure[len(m.pure)-1].t.Sub(m.pure[i-1].t).Milliseconds()
			bound := new(big.Int).Div(new(big.Int).Mul(big.NewInt(dailyMintRate), big.NewInt(el)), big.NewInt(msPerDay))
			if acc.Cmp(bound) > 0 {
				return pbt.Violf("C03/cumulative-inflation", "blocks %d..%d: %s minted in %d ms, the daily rate allows %s", br.Height-int64(len(m.pure)-i), br.Height, acc, el, bound)
			}
		}
	} else {
		m.pure = append(m.pure, pureBlock{t: br.Time, ok: false})
	}
	return nil
}

func (m *supplyMonitor) Classify(info *pbt.CaseInfo) {
	n := 0
	for k := range m.modulesOK {
		if k != "other" {
			n++
			info.Classes = append(info.Classes, "module:"+k)
		}
	}
	info.Nontrivial = n >= 4 && m.mintBlocks > 0
	if m.mintBlocks > 0 {
		info.Classes = append(info.Classes, "minting")
	}
}

func supplyProfile() *Profile {
	w := AllOpsWeights()
	w[OpTip] = 14
	w[OpWithdrawTokens] = 5
	w[OpClaimDeposit] = 3
	w[OpPrivDirect] = 0
	p := &Profile{Name: "supply", Weights: w, MinBlocks: 10, MaxBlocks: 30, MaxOps: 4, AbsentPM: 40, BadVarPM: 150, Setup: true, ThoroughScale: 3,
		GapW: []int{4, 6, 10, 25, 5, 4, 3, 3, 3, 2, 2, 1, 1, 1, 4}}
	p.Prefix = mintInitPrefix
	return p
}

// mintInitPrefix starts minting through a real governance proposal in most histories.
func mintInitPrefix(pick func(label string, n int) int) []Block {
	if pick("mintInit", 5) == 0 {
		return nil
	}
	blocks := []Block{
		{Gap: GapSpec{Kind: 2}, Ops: []Op{{K: OpGov, A: 100 + pick("govActor", 5), V: 0}}},
		{Gap: GapSpec{Kind: 2}},
		{Gap: GapSpec{Kind: 6}}, // one hour: past both voting periods the genesis generator uses
	}
	if pick("depositRounds", 2) == 0 {
		// bridge deposits become claimable within the history: governance shortens the window of tipped deposit
		// rounds, a deposit query is tipped and reported by several reporters, and half a day passes
		blocks[0].Ops = append(blocks[0].Ops, Op{K: OpGov, A: 101 + pick("govActor2", 5), V: 3, S: "trbbridge-window", R: [3]int{0, 1, 0}})
		dep := 11 + pick("depositQuery", 3) // catalog: deposit-1..3
		blocks = append(blocks,
			Block{Gap: GapSpec{Kind: 2}, Ops: []Op{{K: OpTip, A: 102, R: [3]int{dep, 0, 0}, Amt: Amount{Kind: AmtAbs, N: 1_000_000}}}},
			Block{Gap: GapSpec{Kind: 2}, Ops: []Op{
				{K: OpSubmit, A: 0, R: [3]int{dep, 8, pick("rcpt", 8) * 8}, V: pick("depVariant", 3) * 5 % 7},
				{K: OpSubmit, A: 1, R: [3]int{dep, 8, 8}}, {K: OpSubmit, A: 2, R: [3]int{dep, 8, 8}}, {K: OpSubmit, A: 3, R: [3]int{dep, 8, 8}}}},
			Block{Gap: GapSpec{Kind: 2}}, Block{Gap: GapSpec{Kind: 2}},
			Block{Gap: GapSpec{Kind: 7, Delta: int64(pick("ageDelta", 3)) - 1}},
			Block{Gap: GapSpec{Kind: 2}, Ops: []Op{{K: OpClaimDeposit, A: 103, R: [3]int{dep - 11, 0, 0}}, {K: OpClaimDeposit, A: 104, R: [3]int{dep - 11, 0, 0}}}},
		)
	}
	return blocks
}

func TestC03_Supply(t *testing.T) {
	runHistoryProp(t, "C03", "TestC03_Supply",
		"histories over all message types with minting started by a real governance proposal in 4 of 5 cases, tips/withdrawals/claims of boundary amounts, gaps 1 ms..30 d; shadow ledger of the documented supply events per block; non-trivial = accepted operations of >=4 modules and >=1 block that minted; distinct by SHA-256 of the history JSON",
		supplyProfile(), func() Monitor { return &supplyMonitor{} })
}

// TestC03_SupplySettlement runs the supply ledger over the settlement scenarios of C13 (multi-payer disputes with
// awkward amounts, everyone claims): the histories in which dispute burns and the refund dust accumulator move most.
func TestC03_SupplySettlement(t *testing.T) {
	pbt.Run(t, pbt.Prop[History]{Property: "C03", Name: "TestC03_SupplySettlement",
		Rule: "settlement scenarios (generator of C13: one dispute per history with 1-5 payers in full / partial / repeated payments of awkward amounts, votes, optional second round, every payer and voter claims twice) under the supply ledger incl. the refund-dust accounting; non-trivial = >=2 accepted fee refunds; distinct by SHA-256 of the history JSON",
		Gen: func(rt *rapid.T) History { return GenC13(rt, pbt.Thorough()) },
		Check: func(h History, info *pbt.CaseInfo, st *pbt.Stats) error {
			mon := &supplyMonitor{}
			rs, _, v, err := RunHistory(h, mon)
			if err != nil {
				return err
			}
			info.Nontrivial = rs.ByKindOK[OpFeeRefund] >= 2
			if rs.ByKindOK[OpFeeRefund] >= 3 {
				info.Classes = append(info.Classes, "refunds>=3")
			}
			st.Count("blocks", int64(rs.Blocks))
			st.Count("ok/refund", int64(rs.ByKindOK[OpFeeRefund]))
			st.Count("ok/claim", int64(rs.ByKindOK[OpClaimReward]))
			if v != nil {
				return v
			}
			return nil
		}})
}
