package chain

// C14 — bridge deposits mint once, conditionally; withdrawals burn what they attest.
//
// Oracle (one direction, from the statement): every ACCEPTED MsgClaimDeposits element (id, index)
// implies: id was unclaimed before (claimed-set model kept by the monitor + the stored flag), an
// aggregate exists at that index under the deposit query id computed by evmref (independent of the
// chain's encoders), it was unflagged in the state before the block, the block time is >= 12 h after
// the aggregate's timestamp, its ReporterPower >= PowerThreshold of the latest validator checkpoint
// strictly before the aggregate; effects, taken from the bank module's own events of that
// transaction: minted = floor(amount/1e12) (amount decoded by evmref), claimer +floor(tip/1e12),
// recipient the rest, nobody else changes, and DepositIdClaimedMap[id] is set afterwards. Every
// ACCEPTED MsgWithdrawTokens(A) implies: sender -A, burned A, nothing minted, nobody else changes,
// WithdrawalId = previous + 1, and an aggregate is stored under evmref.WithdrawQueryId(id) at the
// block's timestamp whose value decodes (evmref) to the recipient, the sender and A. Every aggregate
// stored under a withdrawal query id was created by an accepted withdrawal of its block, has no
// reporters and never changes; no micro-report is ever stored under a withdrawal query id and a
// MsgSubmitValue on withdrawal query data is never accepted.
// The converse (an eligible claim is rejected) is only counted.

import (
	"bytes"
	"encoding/hex"
	"fmt"
	"math/big"
	"strings"
	"testing"
	"time"

	abci "github.com/cometbft/cometbft/abci/types"
	"pgregory.net/rapid"

	"cosmossdk.io/collections"

	sdk "github.com/cosmos/cosmos-sdk/types"
	authtypes "github.com/cosmos/cosmos-sdk/x/auth/types"

	bridgetypes "github.com/tellor-io/layer/x/bridge/types"
	oracletypes "github.com/tellor-io/layer/x/oracle/types"

	"verif/harness/evmref"
	"verif/harness/pbt"
)

var c14E12 = big.NewInt(1_000_000_000_000)

type c14Agg struct {
	TS      uint64
	Flagged bool
	Power   uint64
	Value   string
}

type c14Withdrawal struct {
	ID  uint64
	Agg oracletypes.Aggregate
}

type c14Monitor struct {
	BaseMonitor
	sp *evmref.Spec
	// model
	claimed     map[uint64]bool          // deposit ids turned into tokens by an accepted claim
	withdrawals map[string]c14Withdrawal // key(queryId,timestamp) -> aggregate as created
	wqids       map[string]uint64        // withdrawal query id -> withdrawal id (ids 0..last+3)
	// pre-state of the current block
	preAggs    map[uint64][]c14Agg
	preClaimed map[uint64]bool
	preWID     uint64
	preSupply  *big.Int
	// statistics
	okByID, rejByID map[uint64]int
	nWithdraw       int
	counters        map[string]int64
	classes         map[string]bool
	infra           string
}

func newC14Monitor() *c14Monitor {
	return &c14Monitor{claimed: map[uint64]bool{}, withdrawals: map[string]c14Withdrawal{}, wqids: map[string]uint64{},
		okByID: map[uint64]int{}, rejByID: map[uint64]int{}, counters: map[string]int64{}, classes: map[string]bool{}}
}

func (m *c14Monitor) Init(c *Chain, w *World) *pbt.Violation {
	sp, err := evmref.Default()
	if err != nil {
		m.infra = err.Error()
		return nil
	}
	m.sp = sp
	m.extendWithdrawIDs(8)
	return nil
}

func (m *c14Monitor) extendWithdrawIDs(upto uint64) {
	for id := uint64(0); id <= upto; id++ {
		q, err := m.sp.WithdrawQueryId(id)
		if err == nil {
			m.wqids[string(q[:])] = id
		}
	}
}

func (m *c14Monitor) depositAggs(c *Chain, ctx sdk.Context, id uint64) []c14Agg {
	q, err := m.sp.DepositQueryId(id)
	if err != nil {
		return nil
	}
	var out []c14Agg
	_ = c.App.OracleKeeper.Aggregates.Walk(ctx, collections.NewPrefixedPairRange[[]byte, uint64](q[:]), func(k collections.Pair[[]byte, uint64], a oracletypes.Aggregate) (bool, error) {
		out = append(out, c14Agg{TS: k.K2(), Flagged: a.Flagged, Power: a.ReporterPower, Value: a.AggregateValue})
		return false, nil
	})
	return out
}

func c14WithdrawalID(c *Chain, ctx sdk.Context) uint64 {
	id, err := c.App.BridgeKeeper.WithdrawalId.Get(ctx)
	if err != nil {
		return 0
	}
	return id.Id
}

// c14ThresholdBefore is PowerThreshold of the latest validator checkpoint strictly before ts (ms).
func c14ThresholdBefore(c *Chain, ctx sdk.Context, ts uint64) (uint64, bool) {
	var best uint64
	var th uint64
	found := false
	_ = c.App.BridgeKeeper.ValidatorCheckpointParamsMap.Walk(ctx, nil, func(k uint64, v bridgetypes.ValidatorCheckpointParams) (bool, error) {
		if k < ts && (!found || k > best) {
			best, th, found = k, v.PowerThreshold, true
		}
		return false, nil
	})
	return th, found
}

func (m *c14Monitor) Before(c *Chain, w *World, txs []*BuiltTx) *pbt.Violation {
	if m.sp == nil {
		return nil
	}
	ctx := c.Ctx()
	m.preAggs = map[uint64][]c14Agg{}
	m.preClaimed = map[uint64]bool{}
	for _, bt := range txs {
		if bt.Op.K == OpGov && bt.Op.S == c14SpecMarker && bt.Bytes != nil {
			if err := c14RewriteSpecProposal(c, bt); err != nil {
				m.counters["carrier-rewrite-failed"]++
			}
		}
		for _, msg := range bt.Msgs {
			if cm, ok := msg.(*bridgetypes.MsgClaimDepositsRequest); ok {
				for _, id := range cm.DepositIds {
					if _, seen := m.preAggs[id]; !seen {
						m.preAggs[id] = m.depositAggs(c, ctx, id)
						st, err := c.App.BridgeKeeper.DepositIdClaimedMap.Get(ctx, id)
						m.preClaimed[id] = err == nil && st.Claimed
					}
				}
			}
		}
	}
	m.preWID = c14WithdrawalID(c, ctx)
	m.preSupply = c.App.BankKeeper.GetSupply(ctx, BondDenom).Amount.BigInt()
	return nil
}

type c14Elem struct {
	why       string // first unmet precondition ("" = all hold)
	mint, tip *big.Int
	recipient sdk.AccAddress
}

// evalClaim evaluates the statement's preconditions of one (id, index) element against the
// pre-state of the block and the monitor's claimed-set.
func (m *c14Monitor) evalClaim(c *Chain, ctx sdk.Context, id, index uint64, blockTime time.Time) c14Elem {
	var e c14Elem
	if m.claimed[id] || m.preClaimed[id] {
		e.why = "second-claim-of-same-id"
		return e
	}
	aggs := m.preAggs[id]
	if index >= uint64(len(aggs)) {
		e.why = "no-aggregate-at-index"
		return e
	}
	a := aggs[index]
	if a.Flagged {
		e.why = "flagged-aggregate"
		return e
	}
	if blockTime.Sub(time.UnixMilli(int64(a.TS))) < 12*time.Hour {
		e.why = "younger-than-12h"
		return e
	}
	th, ok := c14ThresholdBefore(c, ctx, a.TS)
	if !ok {
		e.why = "no-checkpoint-before-aggregate"
		return e
	}
	if a.Power < th {
		e.why = "power-below-threshold-at-report-time"
		if cur, ok := c14ThresholdBefore(c, ctx, ^uint64(0)); ok && a.Power >= cur {
			m.classes["power-below-report-time-threshold-but-not-below-current"] = true
		}
		return e
	}
	if cur, ok := c14ThresholdBefore(c, ctx, ^uint64(0)); ok && a.Power < cur {
		m.classes["power-not-below-report-time-threshold-but-below-current"] = true
	}
	raw, err := hex.DecodeString(a.Value)
	if err != nil {
		e.why = "undecodable-report-value"
		return e
	}
	f, err := m.sp.DecodeDepositValue(raw)
	if err != nil {
		if evmref.IsInfra(err) {
			m.infra = err.Error()
		}
		e.why = "undecodable-report-value"
		return e
	}
	rcpt, err := sdk.AccAddressFromBech32(f.Recipient)
	if err != nil {
		e.why = "invalid-recipient"
		return e
	}
	e.recipient = rcpt
	e.mint = new(big.Int).Div(f.Amount, c14E12)
	e.tip = new(big.Int).Div(f.Tip, c14E12)
	if e.tip.Cmp(e.mint) > 0 {
		e.why = "tip-exceeds-amount"
	}
	return e
}

func c14AggKey(q []byte, ts uint64) string { return fmt.Sprintf("%x/%d", q, ts) }

func (m *c14Monitor) After(c *Chain, w *World, br *BlockResult, outs []TxOutcome) *pbt.Violation {
	if br.Halt != nil || m.sp == nil {
		return nil // halts belong to C02
	}
	ctx := c.Ctx()
	bridgeAddr := authtypes.NewModuleAddress(bridgetypes.ModuleName).String()
	flagTouched := false // an accepted dispute message earlier in this block may have flagged an aggregate
	nW := uint64(0)
	blockMs := uint64(br.Time.UnixMilli())
	for _, o := range outs {
		if len(o.Tx.Msgs) != 1 {
			continue
		}
		switch msg := o.Tx.Msgs[0].(type) {
		case *bridgetypes.MsgClaimDepositsRequest:
			m.counters["claim-txs"]++
			// evaluate every element against the model (sequentially, all-or-nothing)
			var elems []c14Elem
			firstWhy := ""
			trial := map[uint64]bool{}
			for i, id := range msg.DepositIds {
				var e c14Elem
				switch {
				case i >= len(msg.Indices):
					e.why = "no-index-for-id"
				case trial[id]:
					e.why = "second-claim-of-same-id"
				default:
					e = m.evalClaim(c, ctx, id, msg.Indices[i], br.Time)
				}
				trial[id] = true
				elems = append(elems, e)
				if e.why != "" && firstWhy == "" {
					firstWhy = e.why
				}
			}
			if len(msg.DepositIds) != len(msg.Indices) {
				m.classes["claim-mismatched-arrays"] = true
			}
			if len(msg.DepositIds) > 1 {
				m.classes["claim-batched"] = true
			}
			if !o.OK() {
				for _, id := range msg.DepositIds {
					m.rejByID[id]++
				}
				if firstWhy == "" && len(msg.DepositIds) == len(msg.Indices) && len(msg.DepositIds) > 0 && o.Res != nil && !flagTouched {
					m.counters["converse/eligible-claim-rejected"]++ // not part of the statement: counted only
				} else if firstWhy != "" {
					m.counters["rejected-claim/"+firstWhy]++
					m.classes["rejected:"+firstWhy] = true
				}
				continue
			}
			// accepted
			m.counters["claim-txs-accepted"]++
			if firstWhy != "" {
				// (an aggregate that was flagged in the state before the block stays flagged: nothing resets the flag)
				return pbt.Violf("C14/claim/accepted-despite-"+firstWhy, "block %d: MsgClaimDeposits ids=%v indices=%v by %s was accepted although: %s (block time %s; aggregates before the block: %s)",
					br.Height, msg.DepositIds, msg.Indices, msg.Creator, firstWhy, br.Time.UTC().Format(time.RFC3339Nano), m.describeAggs(c, ctx, msg.DepositIds))
			}
			flows := c14ParseFlows(o.Res.Events)
			expNet := map[string]*big.Int{}
			addExp := func(a string, x *big.Int) {
				if expNet[a] == nil {
					expNet[a] = new(big.Int)
				}
				expNet[a].Add(expNet[a], x)
			}
			expMint := new(big.Int)
			for i, id := range msg.DepositIds {
				e := elems[i]
				expMint.Add(expMint, e.mint)
				addExp(msg.Creator, e.tip)
				addExp(e.recipient.String(), new(big.Int).Sub(e.mint, e.tip))
				m.claimed[id] = true
				m.okByID[id]++
				if e.tip.Sign() > 0 {
					m.classes["claim-with-tip"] = true
				}
				if !e.mint.IsInt64() {
					m.classes["claim-amount-beyond-int64"] = true
				}
				a := m.preAggs[id][msg.Indices[i]]
				age := br.Time.Sub(time.UnixMilli(int64(a.TS)))
				if age == 12*time.Hour {
					m.classes["claim-at-exactly-12h"] = true
				} else if age < 12*time.Hour+time.Second {
					m.classes["claim-within-1s-after-12h"] = true
				}
				if th, ok := c14ThresholdBefore(c, ctx, a.TS); ok && a.Power == th {
					m.classes["claim-power-equals-threshold"] = true
				}
				if msg.Indices[i] > 0 {
					m.classes["claim-index>0"] = true
				}
			}
			if flows.bad {
				m.counters["unparsable-bank-event"]++
				continue
			}
			if d := new(big.Int).Sub(flows.minted, flows.burned); d.Cmp(expMint) != 0 {
				return pbt.Violf("C14/claim/minted-amount", "block %d: accepted claim ids=%v indices=%v: supply changed by %s (minted %s, burned %s) but the reported amounts / 1e12 sum to %s",
					br.Height, msg.DepositIds, msg.Indices, d, flows.minted, flows.burned, expMint)
			}
			for a, x := range flows.net {
				want := expNet[a]
				if want == nil {
					want = new(big.Int)
				}
				if x.Cmp(want) != 0 {
					role := "other-account"
					switch {
					case a == msg.Creator:
						role = "claimer"
					case expNet[a] != nil:
						role = "recipient"
					case a == bridgeAddr:
						role = "bridge-module"
					}
					return pbt.Violf("C14/claim/payout-"+role, "block %d: accepted claim ids=%v indices=%v by %s: account %s changed by %s, expected %s (tip part to the claimer, the rest to the reported recipient)",
						br.Height, msg.DepositIds, msg.Indices, msg.Creator, a, x, want)
				}
			}
			for a, want := range expNet {
				if flows.net[a] == nil && want.Sign() != 0 {
					role := "recipient"
					if a == msg.Creator {
						role = "claimer"
					}
					return pbt.Violf("C14/claim/payout-"+role, "block %d: accepted claim ids=%v indices=%v by %s: account %s received nothing, expected %s", br.Height, msg.DepositIds, msg.Indices, msg.Creator, a, want)
				}
			}
			for _, id := range msg.DepositIds {
				if st, err := c.App.BridgeKeeper.DepositIdClaimedMap.Get(ctx, id); err != nil || !st.Claimed {
					return pbt.Violf("C14/claim/claimed-flag-not-set", "block %d: deposit id %d was claimed by an accepted transaction but DepositIdClaimedMap does not record it (err=%v)", br.Height, id, err)
				}
			}
		case *bridgetypes.MsgWithdrawTokens:
			m.counters["withdraw-txs"]++
			if !o.OK() {
				continue
			}
			m.counters["withdraw-txs-accepted"]++
			nW++
			m.nWithdraw++
			id := m.preWID + nW
			A := msg.Amount.Amount.BigInt()
			flows := c14ParseFlows(o.Res.Events)
			if !flows.bad {
				if flows.burned.Cmp(A) != 0 || flows.minted.Sign() != 0 {
					return pbt.Violf("C14/withdraw/burned-amount", "block %d: accepted withdrawal of %s by %s burned %s and minted %s", br.Height, A, msg.Creator, flows.burned, flows.minted)
				}
				for a, x := range flows.net {
					want := new(big.Int)
					if a == msg.Creator {
						want.Neg(A)
					}
					if x.Cmp(want) != 0 {
						role := "other-account"
						if a == msg.Creator {
							role = "sender"
						} else if a == bridgeAddr {
							role = "bridge-module"
						}
						return pbt.Violf("C14/withdraw/balance-"+role, "block %d: accepted withdrawal of %s by %s: account %s changed by %s, expected %s", br.Height, A, msg.Creator, a, x, want)
					}
				}
				if flows.net[msg.Creator] == nil && A.Sign() != 0 {
					return pbt.Violf("C14/withdraw/balance-sender", "block %d: accepted withdrawal of %s by %s did not debit the sender", br.Height, A, msg.Creator)
				}
			}
			m.extendWithdrawIDs(id + 3)
			q, err := m.sp.WithdrawQueryId(id)
			if err != nil {
				m.infra = err.Error()
				continue
			}
			agg, err := c.App.OracleKeeper.Aggregates.Get(ctx, collections.Join(q[:], blockMs))
			if err != nil {
				return pbt.Violf("C14/withdraw/no-aggregate-under-fresh-id", "block %d: accepted withdrawal #%d of this block (previous id %d, so id %d) by %s: no aggregate under the withdrawal query id of %d at the block timestamp %d (stored WithdrawalId now %d): %v",
					br.Height, nW, m.preWID, id, msg.Creator, id, blockMs, c14WithdrawalID(c, ctx), err)
			}
			raw, err := hex.DecodeString(agg.AggregateValue)
			var wf evmref.WithdrawFields
			if err == nil {
				wf, err = m.sp.DecodeWithdrawValue(raw)
			}
			if err != nil {
				return pbt.Violf("C14/withdraw/aggregate-value-undecodable", "block %d: withdrawal %d: aggregate value %q does not decode as the contract decodes it: %v", br.Height, id, agg.AggregateValue, err)
			}
			if wf.AmountLoya.Cmp(A) != 0 {
				return pbt.Violf("C14/withdraw/aggregate-value-amount", "block %d: withdrawal %d burned %s but its aggregate attests %s", br.Height, id, A, wf.AmountLoya)
			}
			if wf.LayerSender != msg.Creator {
				return pbt.Violf("C14/withdraw/aggregate-value-sender", "block %d: withdrawal %d by %s attests sender %q", br.Height, id, msg.Creator, wf.LayerSender)
			}
			if rb, err := hex.DecodeString(msg.Recipient); err == nil && len(rb) == 20 {
				if !bytes.Equal(rb, wf.Recipient[:]) {
					return pbt.Violf("C14/withdraw/aggregate-value-recipient", "block %d: withdrawal %d to %s attests recipient %x", br.Height, id, msg.Recipient, wf.Recipient)
				}
			} else {
				m.classes["withdrawal-accepted-with-non-20-byte-recipient"] = true
			}
			m.withdrawals[c14AggKey(q[:], blockMs)] = c14Withdrawal{ID: id, Agg: agg}
			if !A.IsUint64() || A.Uint64() > 1<<62 {
				m.classes["withdrawal-huge"] = true
			}
		case *oracletypes.MsgSubmitValue:
			if _, isW := m.wqids[string(queryID(msg.QueryData))]; isW {
				m.counters["reports-on-withdrawal-query"]++
				m.classes["report-on-withdrawal-query"] = true
				if o.OK() {
					return pbt.Violf("C14/withdrawal-query/report-accepted", "block %d: MsgSubmitValue by %s on withdrawal query data was accepted", br.Height, msg.Creator)
				}
			}
		case *oracletypes.MsgTip:
			if _, isW := m.wqids[string(queryID(msg.QueryData))]; isW && o.OK() {
				m.classes["tip-on-withdrawal-query"] = true
			}
		}
		if o.OK() {
			switch o.Tx.Op.K {
			case OpPropose, OpAddFee, OpAddEvidence:
				flagTouched = true
			}
		}
	}
	// fresh, strictly increasing id
	if got := c14WithdrawalID(c, ctx); got != m.preWID+nW {
		return pbt.Violf("C14/withdraw/id-not-previous-plus-one", "block %d: %d withdrawals were accepted, WithdrawalId went from %d to %d", br.Height, nW, m.preWID, got)
	}
	// every aggregate under a withdrawal query id stems from an accepted withdrawal, has no reporters, never changes
	var v *pbt.Violation
	_ = c.App.OracleKeeper.Aggregates.Walk(ctx, nil, func(k collections.Pair[[]byte, uint64], a oracletypes.Aggregate) (bool, error) {
		wid, isW := m.wqids[string(k.K1())]
		if !isW {
			return false, nil
		}
		rec, known := m.withdrawals[c14AggKey(k.K1(), k.K2())]
		switch {
		case !known:
			v = pbt.Violf("C14/withdrawal-query/aggregate-not-from-a-withdrawal", "block %d: aggregate under the query id of withdrawal %d at %d (value %q, %d reporters, power %d) was not created by an accepted withdrawal transaction", br.Height, wid, k.K2(), a.AggregateValue, len(a.Reporters), a.ReporterPower)
		case len(a.Reporters) != 0 || a.AggregateReporter != "":
			v = pbt.Violf("C14/withdrawal-query/aggregate-has-reporters", "block %d: aggregate of withdrawal %d lists reporters (%d, %q)", br.Height, wid, len(a.Reporters), a.AggregateReporter)
		case a.AggregateValue != rec.Agg.AggregateValue || a.Flagged != rec.Agg.Flagged || a.ReporterPower != rec.Agg.ReporterPower:
			v = pbt.Violf("C14/withdrawal-query/aggregate-changed", "block %d: aggregate of withdrawal %d changed after its creation: value %q -> %q, flagged %v -> %v, power %d -> %d", br.Height, wid, rec.Agg.AggregateValue, a.AggregateValue, rec.Agg.Flagged, a.Flagged, rec.Agg.ReporterPower, a.ReporterPower)
		case rec.ID != wid:
			v = pbt.Violf("C14/withdrawal-query/aggregate-under-wrong-id", "block %d: aggregate of withdrawal %d is stored under the query id of %d", br.Height, rec.ID, wid)
		}
		return v != nil, nil
	})
	if v != nil {
		return v
	}
	_ = c.App.OracleKeeper.Reports.Walk(ctx, nil, func(k collections.Triple[[]byte, []byte, uint64], r oracletypes.MicroReport) (bool, error) {
		if wid, isW := m.wqids[string(k.K1())]; isW {
			v = pbt.Violf("C14/withdrawal-query/micro-report-stored", "block %d: a micro-report of %s (value %q) is stored under the query id of withdrawal %d", br.Height, r.Reporter, r.Value, wid)
			return true, nil
		}
		return false, nil
	})
	if v != nil {
		return v
	}
	// harness self-check (counter only): the bank events of the block account for the supply change
	if m.preSupply != nil && br.Finalize != nil {
		var all []abci.Event
		all = append(all, br.Finalize.Events...)
		for _, r := range br.Finalize.TxResults {
			all = append(all, r.Events...) // failed txs keep only their ante events (fee 0: none)
		}
		f := c14ParseFlows(all)
		post := c.App.BankKeeper.GetSupply(ctx, BondDenom).Amount.BigInt()
		if new(big.Int).Sub(post, m.preSupply).Cmp(new(big.Int).Sub(f.minted, f.burned)) != 0 {
			m.counters["selfcheck/supply-vs-bank-events-mismatch"]++
		} else {
			m.counters["selfcheck/supply-vs-bank-events-ok"]++
		}
	}
	for _, ev := range br.Finalize.Events {
		if ev.Type == "new_bridge_validator_set" {
			m.counters["checkpoints"]++
		}
		if ev.Type == "aggregate_report" {
			for _, a := range ev.Attributes {
				if a.Key == "query_id" {
					for _, id := range []uint64{1, 2, 3, 1<<64 - 1} {
						if q, err := m.sp.DepositQueryId(id); err == nil && a.Value == hex.EncodeToString(q[:]) {
							m.counters["deposit-aggregates"]++
						}
					}
				}
			}
		}
	}
	return nil
}

func (m *c14Monitor) describeAggs(c *Chain, ctx sdk.Context, ids []uint64) string {
	var parts []string
	for _, id := range ids {
		for i, a := range m.preAggs[id] {
			th, _ := c14ThresholdBefore(c, ctx, a.TS)
			v := a.Value
			if len(v) > 40 {
				v = v[:40] + "…"
			}
			parts = append(parts, fmt.Sprintf("id %d[%d]{t=%s flagged=%v power=%d threshold-before=%d value=%s}", id, i, time.UnixMilli(int64(a.TS)).UTC().Format(time.RFC3339Nano), a.Flagged, a.Power, th, v))
		}
		parts = append(parts, fmt.Sprintf("id %d claimed(model)=%v claimed(store)=%v", id, m.claimed[id], m.preClaimed[id]))
	}
	return strings.Join(parts, "; ")
}

func (m *c14Monitor) Finish(c *Chain, w *World) *pbt.Violation {
	if m.sp == nil || c.Halted != nil {
		return nil
	}
	ctx := c.Ctx()
	for id := range m.claimed {
		if st, err := c.App.BridgeKeeper.DepositIdClaimedMap.Get(ctx, id); err != nil || !st.Claimed {
			return pbt.Violf("C14/claim/claimed-flag-lost", "deposit id %d was claimed by an accepted transaction but DepositIdClaimedMap no longer records it at the end of the history", id)
		}
	}
	return nil
}

func (m *c14Monitor) Classify(info *pbt.CaseInfo) {
	same := false
	anyOK := false
	for id, n := range m.okByID {
		if n > 0 {
			anyOK = true
			if m.rejByID[id] > 0 {
				same = true
			}
		}
	}
	info.Nontrivial = same && m.nWithdraw > 0
	if anyOK {
		info.Classes = append(info.Classes, "claim-accepted")
	}
	if same {
		info.Classes = append(info.Classes, "accepted-and-rejected-claim-of-same-id")
	}
	if m.nWithdraw > 0 {
		info.Classes = append(info.Classes, "withdrawal")
	}
	if m.nWithdraw > 1 {
		info.Classes = append(info.Classes, "withdrawals>=2")
	}
	if m.counters["checkpoints"] > 0 {
		info.Classes = append(info.Classes, "new-validator-checkpoint")
	}
	if m.counters["deposit-aggregates"] > 0 {
		info.Classes = append(info.Classes, "deposit-aggregate")
	}
	var ks []string
	for k := range m.classes {
		ks = append(ks, k)
	}
	sortStrings(ks)
	info.Classes = append(info.Classes, ks...)
	if m.infra != "" {
		info.Classes = append(info.Classes, "INFRA:"+m.infra)
	}
}

func TestC14_Bridge(t *testing.T) {
	runC14(t, "C14", "TestC14_Bridge",
		"scenario histories (8-40 blocks, x3 tail in the thorough tier): validators' operators (+users) become reporters, a governance proposal shortens the TRBBridge reporting window to 0-2 blocks, 1-3 tipped deposit rounds (ids 1-3, reporter subsets around 2/3 of the validator power, 9 value variants: tip>amount, amount 2^63*1e12 and 2^64+, bad bech32, non-multiple of 1e12, truncated, 0x-prefixed, zero), optional dispute flagging the aggregate before/after the claim, optional downtime-jailing of a validator (threshold drops between report and claim), block-time jump to 12h-1ms/12h/12h+1ms/11h/13h/24h after an aggregate, single/repeated/batched/mismatched claims at indices 0-2, withdrawals of all amounts and 5 recipient encodings, reports and tips on withdrawal query data in every block; non-trivial = >=1 accepted and >=1 rejected claim of the same deposit id and >=1 accepted withdrawal; distinct by SHA-256 of the history JSON",
		func(rt *rapid.T) History { return GenC14(rt, pbt.Thorough()) }, newC14Monitor)
}
