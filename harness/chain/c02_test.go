package chain

// C02 — no accepted transaction sequence can make block processing fail.
// Oracle (it is the property): after every generated block PrepareProposal, ProcessProposal
// (ACCEPT for the honest proposal), VerifyVoteExtension, FinalizeBlock and Commit return
// no error and do not panic.

import (
	"fmt"
	"os"
	"regexp"
	"strings"
	"testing"

	"pgregory.net/rapid"

	"verif/harness/pbt"
)

type haltMonitor struct {
	BaseMonitor
	aggregates, disputeTransitions, checkpoints int
	accepted                                    int
	govOriginated                               bool
}

var digits = regexp.MustCompile(`[0-9]+`)
var hexes = regexp.MustCompile(`(tellor[a-z0-9]{20,}|[0-9a-fA-F]{16,})`)

// haltSignature classifies a halt by phase and cause, so that different causes are different findings.
func haltSignature(h *HaltInfo) string {
	e := h.Err
	cls := ""
	switch {
	case strings.Contains(e, "failed to parse value"):
		cls = "median-unparsable-stored-value"
	case strings.Contains(e, "encoding/hex"):
		cls = "bridge-snapshot-undecodable-stored-value"
	case strings.Contains(e, "no majority"):
		cls = "tally-tie-no-majority"
	case strings.Contains(e, "no validators found"):
		cls = "bridge-no-evm-validators"
	case strings.Contains(e, "index out of range"):
		cls = "index-out-of-range"
	case strings.Contains(e, "honest proposal rejected"):
		cls = "honest-proposal-rejected"
	case strings.Contains(e, "lacks the injected"):
		cls = "prepare-handler-failed"
	default:
		s := hexes.ReplaceAllString(e, "X")
		s = digits.ReplaceAllString(s, "N")
		if len(s) > 90 {
			s = s[:90]
		}
		cls = s
	}
	return "C02/halt/" + h.Phase + "/" + cls
}

func (m *haltMonitor) After(c *Chain, w *World, br *BlockResult, outs []TxOutcome) *pbt.Violation {
	for _, o := range outs {
		if o.OK() {
			m.accepted++
			if o.Tx.Op.K == OpGov {
				m.govOriginated = true
			}
		}
	}
	if br.Halt != nil {
		sig := haltSignature(br.Halt)
		gov := ""
		if m.govOriginated {
			gov = " (an accepted governance proposal precedes the halt)"
		}
		return pbt.Violf(sig, "block %d: %s failed: %s%s\n%s", br.Height, br.Halt.Phase, br.Halt.Err, gov, firstLines(br.Halt.Stack, 25))
	}
	if br.Finalize != nil {
		for _, ev := range br.Finalize.Events {
			switch ev.Type {
			case "aggregate_report":
				m.aggregates++
			case "dispute_executed":
				m.disputeTransitions++
			case "new_bridge_validator_set":
				m.checkpoints++
			}
		}
	}
	return nil
}

func firstLines(s string, n int) string {
	l := strings.Split(s, "\n")
	if len(l) > n {
		l = l[:n]
	}
	return strings.Join(l, "\n")
}

func (m *haltMonitor) Classify(info *pbt.CaseInfo) {
	info.Nontrivial = m.accepted >= 10 && (m.aggregates > 0 || m.disputeTransitions > 0 || m.checkpoints > 1)
	if m.aggregates > 0 {
		info.Classes = append(info.Classes, "aggregate")
	}
	if m.disputeTransitions > 0 {
		info.Classes = append(info.Classes, "dispute-executed")
	}
	if m.checkpoints > 1 {
		info.Classes = append(info.Classes, "valset-checkpoint")
	}
	if m.govOriginated {
		info.Classes = append(info.Classes, "gov-proposal")
	}
	info.Classes = append(info.Classes, fmt.Sprintf("accepted>=%d", (m.accepted/10)*10))
}

func haltProfile() *Profile {
	w := AllOpsWeights()
	return &Profile{Name: "halt", Weights: w, MinBlocks: 8, MaxBlocks: 30, MaxOps: 5, AbsentPM: 150, BadVarPM: 300, Setup: true, ThoroughScale: 3,
		GapW: []int{3, 4, 10, 25, 4, 3, 3, 3, 4, 3, 3, 1, 2, 1, 6}}
}

// runProp is the common shape of all history properties.
func runHistoryProp(t *testing.T, property, name, rule string, prof *Profile, mk func() Monitor) {
	pbt.Run(t, pbt.Prop[History]{Property: property, Name: name, Rule: rule,
		Gen: func(rt *rapid.T) History { return GenHistory(rt, prof, pbt.Thorough()) },
		Check: func(h History, info *pbt.CaseInfo, st *pbt.Stats) error {
			mon := mk()
			rs, _, v, err := RunHistory(h, mon)
			if err != nil {
				return err
			}
			mon.Classify(info)
			st.Count("blocks", int64(rs.Blocks))
			st.Count("ops_total", int64(rs.OpsTotal))
			st.Count("ops_accepted", int64(rs.OpsOK))
			st.Count("removed_voter_drops", int64(rs.RemovedVoterDrops))
			st.Count("gap_clamps", int64(rs.GapClamps))
			if rs.HarnessStop {
				st.Count("harness_stops", 1)
			}
			for k, n := range rs.ByKindOK {
				st.Count("ok/"+k, int64(n))
			}
			for k, n := range rs.ByKindFail {
				st.Count("rejected/"+k, int64(n))
			}
			if os.Getenv("VERIF_REASONS") == "1" {
				for k, n := range rs.Reasons {
					st.Count("why/"+k, int64(n))
				}
			}
			if v != nil {
				return v
			}
			return nil
		}})
}

func TestC02_NoHalt(t *testing.T) {
	runHistoryProp(t, "C02", "TestC02_NoHalt",
		"histories of 8-30 blocks (x3 thorough) x 0-5 signed transactions drawn from all 25 layer messages + staking/bank/gov, 30% boundary/malformed variants, block gaps 1ms..30d, absent/nil/garbage vote extensions; non-trivial = >=10 accepted transactions and >=1 of {aggregate, dispute executed, second valset checkpoint}; distinct by SHA-256 of the history JSON",
		haltProfile(), func() Monitor { return &haltMonitor{} })
}
