package chain

// C02 — no accepted transaction sequence can make block processing fail.
// Oracle (it is the property): after every generated block PrepareProposal, ProcessProposal
// (ACCEPT for the honest proposal), VerifyVoteExtension, FinalizeBlock and Commit return
// no error and do not panic.

import (
	"fmt"
	"os"
	"regexp"
	"strings"
	"testing"

	"pgregory.net/rapid"

	"verif/harness/pbt"
)

type haltMonitor struct {
	BaseMonitor
	aggregates, disputeTransitions, checkpoints int
	accepted                                    int
	govOriginated                               bool
}

var digits = regexp.MustCompile(`[0-9]+`)
var hexes = regexp.MustCompile(`(tellor[a-z0-9]{20,}|[0-9a-fA-F]{16,})`)

// haltSignature classifies a halt by phase and cause, so that different causes are different findings.
func haltSignature(h *HaltInfo) string {
	e := h.Err
	cls := ""
	switch {
	case strings.Contains(e, "failed to parse value"):
		cls = "median-unparsable-stored-value"
	case strings.Contains(e, "encoding/hex"):
		cls = "bridge-snapshot-undecodable-stored-value"
	case strings.Contains(e, "no majority"):
		cls = "tally-tie-no-majority"
	case strings.Contains(e, "no validators found"):
		cls = "bridge-no-evm-validators"
	case strings.Contains(e, "index out of range"):
		cls = "index-out-of-range"
	case strings.Contains(e, "honest proposal rejected"):
		cls = "honest-proposal-rejected"
	case strings.Contains(e, "lacks the injected"):
		cls = "prepare-handler-failed"
	default:
		s := hexes.ReplaceAllString(e, "X")
		s = digits.ReplaceAllString(s, "N")
		if len(s) > 90 {
			s = s[:90]
		}
		cls = s
	}
	return "C02/halt/" + h.Phase + "/" + cls
}

func (m *haltMonitor) After(c *Chain, w *World, br *BlockResult, outs []TxOutcome) *pbt.Violation {
	for _, o := range outs {
		if o.OK() {
			m.accepted++
			if o.Tx.Op.K == OpGov {
				m.govOriginated = true
			}
		}
	}
	if br.Halt != nil {
		sig := haltSignature(br.Halt)
		gov := ""
		if m.govOriginated {
			gov = " (an accepted governance proposal precedes the halt)"
		}
		return pbt.Violf(sig, "block %d: %s failed: %s%s\n%s", br.Height, br.Halt.Phase, br.Halt.Err, gov, firstLines(br.Halt.Stack, 25))
	}
	if br.Finalize != nil {
		for _, ev := range br.Finalize.Events {
			switch ev.Type {
			case "aggregate_report":
				m.aggregates++
			case "dispute_executed":
				m.disputeTransitions++
			case "new_bridge_validator_set":
				m.checkpoints++
			}
		}
	}
	return nil
}

func firstLines(s string, n int) string {
	l := strings.Split(s, "\n")
	if len(l) > n {
		l = l[:n]
	}
	return strings.Join(l, "\n")
}

func (m *haltMonitor) Classify(info *pbt.CaseInfo) {
	info.Nontrivial = m.accepted >= 10 && (m.aggregates > 0 || m.disputeTransitions > 0 || m.checkpoints > 1)
	if m.aggregates > 0 {
		info.Classes = append(info.Classes, "aggregate")
	}
	if m.disputeTransitions > 0 {
		info.Classes = append(info.Classes, "dispute-executed")
	}
	if m.checkpoints > 1 {
		info.Classes = append(info.Classes, "valset-checkpoint")
	}
	if m.govOriginated {
		info.Classes = append(info.Classes, "gov-proposal")
	}
	info.Classes = append(info.Classes, fmt.Sprintf("accepted>=%d", (m.accepted/10)*10))
}

func haltProfile() *Profile {
	w := AllOpsWeights()
	w[OpReqAttest] = 5
	return &Profile{Name: "halt", Weights: w, MinBlocks: 8, MaxBlocks: 30, MaxOps: 5, AbsentPM: 150, BadVarPM: 300, Setup: true, ThoroughScale: 3,
		GapW: []int{3, 4, 10, 25, 4, 3, 3, 3, 4, 3, 3, 1, 2, 1, 6},
		Shape: func(t *rapid.T, op *Op) {
			// a quarter of the well-formed attestation requests ask for the same report twice at one height
			if op.K == OpReqAttest && op.V == 0 && uni(t, "requestTwice", 4) == 0 {
				op.S = "twice"
			}
		}}
}

// runProp is the common shape of all history properties.
func runHistoryProp(t *testing.T, property, name, rule string, prof *Profile, mk func() Monitor) {
	pbt.Run(t, pbt.Prop[History]{Property: property, Name: name, Rule: rule,
		Gen: func(rt *rapid.T) History { return GenHistory(rt, prof, pbt.Thorough()) },
		Check: func(h History, info *pbt.CaseInfo, st *pbt.Stats) error {
			mon := mk()
			rs, _, v, err := RunHistory(h, mon)
			if err != nil {
				return err
			}
			mon.Classify(info)
			st.Count("blocks", int64(rs.Blocks))
			st.Count("ops_total", int64(rs.OpsTotal))
			st.Count("ops_accepted", int64(rs.OpsOK))
			st.Count("removed_voter_drops", int64(rs.RemovedVoterDrops))
			st.Count("gap_clamps", int64(rs.GapClamps))
			if rs.HarnessStop {
				st.Count("harness_stops", 1)
			}
			for k, n := range rs.ByKindOK {
				st.Count("ok/"+k, int64(n))
			}
			for k, n := range rs.ByKindFail {
				st.Count("rejected/"+k, int64(n))
			}
			if os.Getenv("VERIF_REASONS") == "1" {
				for k, n := range rs.Reasons {
					st.Count("why/"+k, int64(n))
				}
			}
			if v != nil {
				return v
			}
			return nil
		}})
}

func TestC02_NoHalt(t *testing.T) {
	runHistoryProp(t, "C02", "TestC02_NoHalt",
		"histories of 8-30 blocks (x3 thorough) x 0-5 signed transactions drawn from all 25 layer messages + staking/bank/gov, 30% boundary/malformed variants, block gaps 1ms..30d, absent/nil/garbage vote extensions; non-trivial = >=10 accepted transactions and >=1 of {aggregate, dispute executed, second valset checkpoint}; distinct by SHA-256 of the history JSON",
		haltProfile(), func() Monitor { return &haltMonitor{} })
}

// genLongHalt: histories that live through the hard-coded 2000-block window of bridge-deposit rounds. Minting is
// started through governance, several reporters report one to three deposit queries over three blocks (the same
// reporter at different heights, several rounds opened in one block), ~2000 operation-free blocks follow
// (Block.Idle), and the rounds expire inside a tail of ordinary generated blocks with cycle-list reports.
func genLongHalt(rt *rapid.T) History {
	p := haltProfile()
	p.MinBlocks, p.MaxBlocks, p.ThoroughScale = 2, 8, 1
	p.Prefix = func(pick func(string, int) int) []Block {
		return []Block{
			{Gap: GapSpec{Kind: 2}, Ops: []Op{{K: OpGov, A: 100 + pick("govActor", 5), V: 0}}},
			{Gap: GapSpec{Kind: 2}},
			{Gap: GapSpec{Kind: 6}}, // one hour: past both voting periods the genesis generator uses
		}
	}
	h := GenHistory(rt, p, false)
	nActors := h.Genesis.NumValidators + h.Genesis.NumUsers
	dep := func(label string) Op {
		return Op{K: OpSubmit, A: uni(rt, label+"Actor", nActors), R: [3]int{11 + uni(rt, label+"Query", 3), 8 * uni(rt, label+"Val", 8), 1 + 2*uni(rt, label+"Rcpt", 3) + 8*uni(rt, label+"Pool", 3)}}
	}
	for i := 0; i < 3; i++ {
		b := Block{Gap: GapSpec{Kind: 2}}
		for j, n := 0, 1+uni(rt, "depositReports", 3); j < n; j++ {
			b.Ops = append(b.Ops, dep(fmt.Sprintf("dep%d_%d", i, j)))
		}
		h.Blocks = append(h.Blocks, b)
	}
	tail := 8 + uni(rt, "tailBlocks", 6)
	for i := 0; i < tail; i++ {
		b := Block{Gap: GapSpec{Kind: 2}}
		if i == 0 {
			b.Idle = 1990 + uni(rt, "idle", 7)
		}
		// the scheduled cycle-list query is reported in most tail blocks, so that its rounds aggregate next to the deposits'
		for j, n := 0, uni(rt, "cycleReports", 3); j < n; j++ {
			b.Ops = append(b.Ops, Op{K: OpSubmit, A: uni(rt, "cycleActor", nActors), R: [3]int{0, 1 + uni(rt, "cycleVal", 5), 1 + 2*uni(rt, "cyclePool", 4)}, S: "nodep"})
		}
		for j, n := 0, uni(rt, "tailOps", 3); j < n; j++ {
			b.Ops = append(b.Ops, genOp(rt, p, nActors))
		}
		if uni(rt, "tailDeposit", 3) == 0 {
			b.Ops = append(b.Ops, dep(fmt.Sprintf("tail%d", i)))
		}
		h.Blocks = append(h.Blocks, b)
	}
	return h
}

func TestC02_LongHistory(t *testing.T) {
	pbt.Run(t, pbt.Prop[History]{Property: "C02", Name: "TestC02_LongHistory",
		Rule: "a short generated prefix in which governance starts minting, then several reporters report 1-3 bridge-deposit queries over three blocks, ~2000 operation-free blocks, and a tail of 8-13 generated blocks (cycle-list reports, deposit reports, any other transaction) in which the 2000-block deposit rounds expire; non-trivial = >=1 deposit aggregate produced in the tail; distinct by SHA-256 of the history JSON",
		Gen: genLongHalt,
		Check: func(h History, info *pbt.CaseInfo, st *pbt.Stats) error {
			mon := &haltMonitor{}
			rs, _, v, err := RunHistory(h, mon)
			if err != nil {
				return err
			}
			mon.Classify(info)
			info.Nontrivial = rs.Blocks > 2000 && mon.aggregates > 0
			st.Count("blocks", int64(rs.Blocks))
			st.Count("ops_accepted", int64(rs.OpsOK))
			if rs.HarnessStop {
				st.Count("harness_stops", 1)
			}
			for k, n := range rs.ByKindOK {
				st.Count("ok/"+k, int64(n))
			}
			if v != nil {
				return v
			}
			return nil
		}})
}
