package chain

// C19 helpers: snapshots of the privileged configuration, of per-account holdings, of governance
// proposal and dispute statuses, all read through collections/getters that are not under test.

import (
	"encoding/hex"
	"fmt"
	"math/big"
	"sort"
	"strings"

	"cosmossdk.io/collections"

	sdk "github.com/cosmos/cosmos-sdk/types"
	banktypes "github.com/cosmos/cosmos-sdk/x/bank/types"
	govv1 "github.com/cosmos/cosmos-sdk/x/gov/types/v1"
	stakingtypes "github.com/cosmos/cosmos-sdk/x/staking/types"

	bridgetypes "github.com/tellor-io/layer/x/bridge/types"
	disputetypes "github.com/tellor-io/layer/x/dispute/types"
	minttypes "github.com/tellor-io/layer/x/mint/types"
	oracletypes "github.com/tellor-io/layer/x/oracle/types"
	registrytypes "github.com/tellor-io/layer/x/registry/types"
	reportertypes "github.com/tellor-io/layer/x/reporter/types"
)

// ---------------------------------------------------------------- privileged configuration

// names of the six governance-gated configurations (also used in signatures)
const (
	c19CfgOracleParams   = "oracle-params"
	c19CfgCyclelist      = "cyclelist"
	c19CfgDataSpec       = "data-spec"
	c19CfgReporterParams = "reporter-params"
	c19CfgMintInit       = "mint-init"
	c19CfgSnapshotLimit  = "snapshot-limit"
)

type c19Cfg struct {
	scalar map[string]string // config name -> hex of the marshalled value (the four single-valued configurations)
	cycle  map[string]string // cycle list: key hex -> value hex
	specs  map[string]string // registry: stored key -> hex of the marshalled spec
	team   string            // dispute team address (raw bytes as string)
}

func c19ReadCfg(c *Chain) (c19Cfg, error) {
	ctx := c.Ctx()
	s := c19Cfg{scalar: map[string]string{}, cycle: map[string]string{}, specs: map[string]string{}}
	op, err := c.App.OracleKeeper.Params.Get(ctx)
	if err != nil {
		return s, fmt.Errorf("oracle params: %w", err)
	}
	b, err := op.Marshal()
	if err != nil {
		return s, err
	}
	s.scalar[c19CfgOracleParams] = hex.EncodeToString(b)
	rp, err := c.App.ReporterKeeper.Params.Get(ctx)
	if err != nil {
		return s, fmt.Errorf("reporter params: %w", err)
	}
	if b, err = rp.Marshal(); err != nil {
		return s, err
	}
	s.scalar[c19CfgReporterParams] = hex.EncodeToString(b)
	mt, err := c.App.MintKeeper.Minter.Get(ctx)
	if err != nil {
		return s, fmt.Errorf("minter: %w", err)
	}
	s.scalar[c19CfgMintInit] = fmt.Sprint(mt.Initialized)
	sl, err := c.App.BridgeKeeper.SnapshotLimit.Get(ctx)
	if err != nil {
		return s, fmt.Errorf("snapshot limit: %w", err)
	}
	s.scalar[c19CfgSnapshotLimit] = fmt.Sprint(sl.Limit)
	if err := c.App.OracleKeeper.Cyclelist.Walk(ctx, nil, func(k, v []byte) (bool, error) {
		s.cycle[hex.EncodeToString(k)] = hex.EncodeToString(v)
		return false, nil
	}); err != nil {
		return s, err
	}
	if err := c.App.RegistryKeeper.SpecRegistry.Walk(ctx, nil, func(k string, v registrytypes.DataSpec) (bool, error) {
		bz, err := v.Marshal()
		if err != nil {
			return true, err
		}
		s.specs[k] = hex.EncodeToString(bz)
		return false, nil
	}); err != nil {
		return s, err
	}
	dp, err := c.App.DisputeKeeper.Params.Get(ctx)
	if err != nil {
		return s, fmt.Errorf("dispute params: %w", err)
	}
	s.team = string(dp.TeamAddress)
	return s, nil
}

func c19SameMap(a, b map[string]string) bool {
	if len(a) != len(b) {
		return false
	}
	for k, v := range a {
		if w, ok := b[k]; !ok || w != v {
			return false
		}
	}
	return true
}

// privKind names the governance-gated configuration a message targets ("" for other messages).
func c19PrivKind(m sdk.Msg) string {
	switch m.(type) {
	case *minttypes.MsgInit:
		return c19CfgMintInit
	case *oracletypes.MsgUpdateParams:
		return c19CfgOracleParams
	case *oracletypes.MsgUpdateCyclelist:
		return c19CfgCyclelist
	case *registrytypes.MsgUpdateDataSpec:
		return c19CfgDataSpec
	case *reportertypes.MsgUpdateParams:
		return c19CfgReporterParams
	case *bridgetypes.MsgUpdateSnapshotLimit:
		return c19CfgSnapshotLimit
	}
	return ""
}

// ---------------------------------------------------------------- governance proposals

type c19Gov struct {
	status map[uint64]govv1.ProposalStatus
	msgs   map[uint64][]sdk.Msg
}

func c19ReadGov(c *Chain) c19Gov {
	g := c19Gov{status: map[uint64]govv1.ProposalStatus{}, msgs: map[uint64][]sdk.Msg{}}
	_ = c.App.GovKeeper.Proposals.Walk(c.Ctx(), nil, func(id uint64, p govv1.Proposal) (bool, error) {
		g.status[id] = p.Status
		if ms, err := p.GetMsgs(); err == nil {
			g.msgs[id] = ms
		}
		return false, nil
	})
	return g
}

// ---------------------------------------------------------------- disputes

func c19ReadDisputes(c *Chain) map[uint64]disputetypes.Dispute {
	out := map[uint64]disputetypes.Dispute{}
	_ = c.App.DisputeKeeper.Disputes.Walk(c.Ctx(), nil, func(id uint64, d disputetypes.Dispute) (bool, error) {
		out[id] = d
		return false, nil
	})
	return out
}

// reportBackers lists the accounts whose stake backed the stored report a dispute names
// (the per-backer record written when the report was submitted).
func c19ReportBackers(c *Chain, rep oracletypes.MicroReport) []string {
	addr, err := sdk.AccAddressFromBech32(rep.Reporter)
	if err != nil {
		return nil
	}
	da, err := c.App.ReporterKeeper.Report.Get(c.Ctx(), collections.Join(rep.QueryId, collections.Join(addr.Bytes(), rep.BlockNumber)))
	if err != nil {
		return nil
	}
	var out []string
	for _, o := range da.TokenOrigins {
		out = append(out, string(o.DelegatorAddress))
	}
	return out
}

// ---------------------------------------------------------------- holdings

type c19Hold struct {
	liquid  *big.Int // liquid balance in loya
	staked  *big.Int // sum over delegations of the token value of the shares + sum of unbonding entry balances
	bonded  *big.Int // token value of the delegations to validators that are bonded
	entries int64    // number of delegations + unbonding entries (rounding tolerance: one loya each)
	credit  *big.Int // reward credit (18-decimal fixed point, raw)
	hasSel  bool
	sel     string          // selected reporter (raw address bytes)
	payer   map[uint64]bool // dispute ids with a fee-payer record of this account
}

func c19ReadHoldings(c *Chain) map[string]*c19Hold {
	ctx := c.Ctx()
	out := map[string]*c19Hold{}
	valCache := map[string]stakingtypes.Validator{}
	for _, a := range c.Actors {
		h := &c19Hold{staked: new(big.Int), bonded: new(big.Int), credit: new(big.Int), payer: map[uint64]bool{}}
		h.liquid = c.App.BankKeeper.GetBalance(ctx, a.Addr, BondDenom).Amount.BigInt()
		dels, _ := c.App.StakingKeeper.GetDelegatorDelegations(ctx, a.Addr, 1000)
		for _, d := range dels {
			v, ok := valCache[d.ValidatorAddress]
			if !ok {
				va, err := sdk.ValAddressFromBech32(d.ValidatorAddress)
				if err != nil {
					continue
				}
				vv, err := c.App.StakingKeeper.GetValidator(ctx, va)
				if err != nil {
					continue
				}
				v = vv
				valCache[d.ValidatorAddress] = v
			}
			h.entries++
			if v.DelegatorShares.IsZero() {
				continue
			}
			// token value of shares = shares * tokens / total shares, rounded down (math/big on the raw 18-decimal values)
			num := new(big.Int).Mul(d.Shares.BigInt(), v.Tokens.BigInt())
			val := num.Quo(num, v.DelegatorShares.BigInt())
			h.staked.Add(h.staked, val)
			if v.IsBonded() {
				h.bonded.Add(h.bonded, val)
			}
		}
		ubds, _ := c.App.StakingKeeper.GetUnbondingDelegations(ctx, a.Addr, 1000)
		for _, u := range ubds {
			for _, e := range u.Entries {
				h.entries++
				h.staked.Add(h.staked, e.Balance.BigInt())
			}
		}
		if tip, err := c.App.ReporterKeeper.SelectorTips.Get(ctx, a.Addr.Bytes()); err == nil {
			h.credit = tip.BigInt()
		}
		if s, err := c.App.ReporterKeeper.Selectors.Get(ctx, a.Addr.Bytes()); err == nil {
			h.hasSel, h.sel = true, string(s.Reporter)
		}
		out[string(a.Addr)] = h
	}
	_ = c.App.DisputeKeeper.DisputeFeePayer.Walk(ctx, nil, func(k collections.Pair[uint64, []byte], _ disputetypes.PayerInfo) (bool, error) {
		if h, ok := out[string(k.K2())]; ok {
			h.payer[k.K1()] = true
		}
		return false, nil
	})
	return out
}

// selectorsOf lists the accounts that selected the given reporter in a holdings snapshot.
func c19SelectorsOf(hold map[string]*c19Hold, reporter string) []string {
	var out []string
	for a, h := range hold {
		if h.hasSel && h.sel == reporter {
			out = append(out, a)
		}
	}
	sort.Strings(out)
	return out
}

// ---------------------------------------------------------------- which foreign accounts a message names

func c19ValOp(bech string) string {
	va, err := sdk.ValAddressFromBech32(bech)
	if err != nil {
		return ""
	}
	return string(va)
}

func c19Acc(bech string) string {
	a, err := sdk.AccAddressFromBech32(bech)
	if err != nil {
		return ""
	}
	return string(a)
}

// c19Named returns the accounts (raw address bytes) a message names in its fields, signer field included.
func c19Named(m sdk.Msg, disputes map[uint64]disputetypes.Dispute) []string {
	switch x := m.(type) {
	case *banktypes.MsgSend:
		return []string{c19Acc(x.FromAddress), c19Acc(x.ToAddress)}
	case *stakingtypes.MsgDelegate:
		return []string{c19Acc(x.DelegatorAddress), c19ValOp(x.ValidatorAddress)}
	case *stakingtypes.MsgUndelegate:
		return []string{c19Acc(x.DelegatorAddress), c19ValOp(x.ValidatorAddress)}
	case *stakingtypes.MsgBeginRedelegate:
		return []string{c19Acc(x.DelegatorAddress), c19ValOp(x.ValidatorSrcAddress), c19ValOp(x.ValidatorDstAddress)}
	case *stakingtypes.MsgCancelUnbondingDelegation:
		return []string{c19Acc(x.DelegatorAddress), c19ValOp(x.ValidatorAddress)}
	case *reportertypes.MsgSelectReporter:
		return []string{c19Acc(x.SelectorAddress), c19Acc(x.ReporterAddress)}
	case *reportertypes.MsgSwitchReporter:
		return []string{c19Acc(x.SelectorAddress), c19Acc(x.ReporterAddress)}
	case *reportertypes.MsgRemoveSelector:
		return []string{c19Acc(x.AnyAddress), c19Acc(x.SelectorAddress)}
	case *reportertypes.MsgUnjailReporter:
		return []string{c19Acc(x.ReporterAddress)}
	case *reportertypes.MsgWithdrawTip:
		return []string{c19Acc(x.SelectorAddress), c19ValOp(x.ValidatorAddress)}
	case *disputetypes.MsgProposeDispute:
		if x.Report != nil {
			return []string{c19Acc(x.Creator), c19Acc(x.Report.Reporter)}
		}
	case *disputetypes.MsgAddFeeToDispute:
		if d, ok := disputes[x.DisputeId]; ok {
			return []string{c19Acc(x.Creator), c19Acc(d.InitialEvidence.Reporter)}
		}
	case *disputetypes.MsgWithdrawFeeRefund:
		return []string{c19Acc(x.CallerAddress), c19Acc(x.PayerAddress)}
	case *disputetypes.MsgUpdateTeam:
		return []string{c19Acc(x.CurrentTeamAddress), c19Acc(x.NewTeamAddress)}
	}
	return nil
}

func c19NamesForeign(m sdk.Msg, signer string, disputes map[uint64]disputetypes.Dispute) bool {
	for _, a := range c19Named(m, disputes) {
		if a != "" && a != signer {
			return true
		}
	}
	return false
}

// ---------------------------------------------------------------- block events

type c19Events struct {
	slash, disputeExecuted, aggregate bool
	completedUnbonding                map[string]bool // delegator (raw address bytes)
}

func c19BlockEvents(br *BlockResult) c19Events {
	ev := c19Events{completedUnbonding: map[string]bool{}}
	if br.Finalize == nil {
		return ev
	}
	for _, e := range br.Finalize.Events {
		switch e.Type {
		case "slash":
			ev.slash = true
		case "dispute_executed":
			ev.disputeExecuted = true
		case "aggregate_report":
			ev.aggregate = true
		case "complete_unbonding":
			for _, a := range e.Attributes {
				if a.Key == "delegator" {
					ev.completedUnbonding[c19Acc(a.Value)] = true
				}
			}
		}
	}
	return ev
}

func c19Short(a string) string { return sdk.AccAddress(a).String() }

func c19LowerHas(m map[string]string, key string) (string, bool) {
	lk := strings.ToLower(key)
	for k := range m {
		if strings.ToLower(k) == lk {
			return k, true
		}
	}
	return "", false
}
