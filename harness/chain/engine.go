// Package chain is Engine A: the real tellor-io/layer app.App driven through its
// ABCI surface by a scripted consensus engine (this file), with generated block
// histories (history.go), an executor that resolves late-bound references
// (exec.go) and per-property monitors.
package chain

import (
	"bytes"
	"context"
	"crypto/sha256"
	"encoding/json"
	"fmt"
	"os"
	"runtime/debug"
	"sort"
	"sync"
	"time"

	abci "github.com/cometbft/cometbft/abci/types"
	cmtproto "github.com/cometbft/cometbft/proto/tendermint/types"
	dbm "github.com/cosmos/cosmos-db"
	"github.com/cosmos/gogoproto/proto"
	protoio "github.com/cosmos/gogoproto/io"

	"cosmossdk.io/log"
	"cosmossdk.io/math"

	"github.com/cosmos/cosmos-sdk/baseapp"
	"github.com/cosmos/cosmos-sdk/client"
	codectypes "github.com/cosmos/cosmos-sdk/codec/types"
	cryptocodec "github.com/cosmos/cosmos-sdk/crypto/codec"
	"github.com/cosmos/cosmos-sdk/crypto/keys/ed25519"
	"github.com/cosmos/cosmos-sdk/crypto/keys/secp256k1"
	sdk "github.com/cosmos/cosmos-sdk/types"
	txsigning "github.com/cosmos/cosmos-sdk/types/tx/signing"
	authsigning "github.com/cosmos/cosmos-sdk/x/auth/signing"
	authtypes "github.com/cosmos/cosmos-sdk/x/auth/types"
	banktypes "github.com/cosmos/cosmos-sdk/x/bank/types"
	govtypes "github.com/cosmos/cosmos-sdk/x/gov/types"
	govv1 "github.com/cosmos/cosmos-sdk/x/gov/types/v1"
	slashingtypes "github.com/cosmos/cosmos-sdk/x/slashing/types"
	stakingtypes "github.com/cosmos/cosmos-sdk/x/staking/types"

	layerapp "github.com/tellor-io/layer/app"
	_ "github.com/tellor-io/layer/app/config"
	disputetypes "github.com/tellor-io/layer/x/dispute/types"
)

const (
	ChainID   = "verif-1"
	BondDenom = "loya"
)

var initOnce sync.Once

func globalInit() {
	initOnce.Do(func() {
		sdk.DefaultBondDenom = BondDenom
		sdk.DefaultPowerReduction = math.NewInt(1_000_000)
	})
}

// ---------------------------------------------------------------- deterministic keys

type Actor struct {
	Idx   int
	Label string
	Priv  *secp256k1.PrivKey
	Addr  sdk.AccAddress
}

type Validator struct {
	Idx      int
	Operator *Actor // operator account (its secp key is also the EVM/bridge signing key)
	Cons     *ed25519.PrivKey
	ConsAddr sdk.ConsAddress
	ValAddr  sdk.ValAddress
}

func secpFromLabel(label string) *secp256k1.PrivKey {
	h := sha256.Sum256([]byte("verif/secp/" + label))
	return secp256k1.GenPrivKeyFromSecret(h[:])
}

func edFromLabel(label string) *ed25519.PrivKey {
	h := sha256.Sum256([]byte("verif/ed/" + label))
	return ed25519.GenPrivKeyFromSecret(h[:])
}

func NewActor(idx int, label string) *Actor {
	p := secpFromLabel(label)
	return &Actor{Idx: idx, Label: label, Priv: p, Addr: sdk.AccAddress(p.PubKey().Address())}
}

// ---------------------------------------------------------------- genesis configuration

// GenesisCfg is the configuration part of a case (JSON-serialisable, generated).
type GenesisCfg struct {
	NumValidators  int     `json:"num_validators"`
	ValTokens      []int64 `json:"val_tokens"`     // self-delegation of each validator, in loya
	MaxValidators  int     `json:"max_validators"` // staking param
	NumUsers       int     `json:"num_users"`
	UserBalance    int64   `json:"user_balance"`    // loya per user and per operator account (liquid)
	SlashWindow    int64   `json:"slash_window"`    // slashing SignedBlocksWindow
	UnbondingSecs  int64   `json:"unbonding_secs"`  // staking unbonding time
	VotingSecs     int64   `json:"voting_secs"`     // gov voting period
	UserDelegs     [][3]int64 `json:"user_delegs"`  // genesis delegations: [user index, validator index, amount loya]
	NodeVariant    int     `json:"node_variant"`    // local node configuration variant (must not matter; C01 varies it per replica)
	BootVotes      [][]VoteSpec `json:"boot_votes,omitempty"` // vote behaviour in the two bootstrap blocks (default: all honest)
	// GhostRounds: node-local consensus history that must not matter (C01 sets it on every other replica): before the
	// decided proposal of each height this node also prepares and processes a proposal of an abandoned earlier round
	// whose proposer had seen one precommit less; that proposal is never finalized
	GhostRounds bool `json:"ghost_rounds,omitempty"`
	// SkipDecidedProcess: this node never sees the decided proposal in consensus (it missed the round or catches up by
	// block sync) and therefore finalizes the block without a ProcessProposal call for it
	SkipDecidedProcess bool `json:"skip_decided_process,omitempty"`
}

func DefaultGenesisCfg() GenesisCfg {
	return GenesisCfg{NumValidators: 3, ValTokens: []int64{100_000_000, 100_000_000, 100_000_000}, MaxValidators: 10, NumUsers: 8,
		UserBalance: 1_000_000_000_000, SlashWindow: 5, UnbondingSecs: 21 * 24 * 3600, VotingSecs: 3600}
}

// ---------------------------------------------------------------- the chain under test

type TxResult struct {
	Code      uint32
	Codespace string
	Log       string
	GasUsed   int64
	Events    []abci.Event
}

type BlockResult struct {
	Height      int64
	Time        time.Time
	TxResults   []TxResult // results of the user txs (injected vote-ext tx excluded)
	Injected    []byte     // the injected tx (nil if none)
	Finalize    *abci.ResponseFinalizeBlock
	ProcessOK   bool
	Halt        *HaltInfo // non-nil if any ABCI call failed or panicked
}

type HaltInfo struct {
	Phase string // PrepareProposal | ProcessProposal | ExtendVote | VerifyVoteExtension | FinalizeBlock | Commit
	Err   string
	Stack string
}

func (h *HaltInfo) String() string { return fmt.Sprintf("%s: %s", h.Phase, h.Err) }

type extVote struct {
	val    *Validator
	power  int64
	flag   cmtproto.BlockIDFlag
	ext    []byte
	extSig []byte
	sent   []byte
}

type Chain struct {
	App        *layerapp.App
	Cfg        GenesisCfg
	Actors     []*Actor     // validators' operator accounts first, then users
	Validators []*Validator // all genesis validators + later created
	valByCons  map[string]*Validator
	TxConfig   client.TxConfig
	Height     int64 // last committed height
	Time       time.Time
	GenesisTime time.Time
	// cometbft view of the validator set
	cmtPowers  map[string]int64 // cons addr (string of bytes) -> power, set for height Height+1
	pendingUpd []abci.ValidatorUpdate // updates returned at Height, effective at Height+2
	prevVotes  []extVote // extended votes for block Height (used as LocalLastCommit of Height+1)
	homeDir    string
	Halted     *HaltInfo
	RemovedVoterDrops int
	seqCache   map[string]uint64
	HonestExt  func(c *Chain, v *Validator, height int64) []byte // default extension builder
	// ProposalProbe, if set, is called between PrepareProposal and ProcessProposal of every height > 1 with the
	// honest proposal and a function that asks ProcessProposal about a candidate proposal on the same state
	ProposalProbe func(h int64, txs [][]byte, try func([][]byte) (bool, *HaltInfo))
	GhostRoundsPlayed int
}

// VoteSpec says how one validator behaves in the precommit of a block.
type VoteSpec struct {
	Val    int    `json:"val"`    // validator index
	Mode   int    `json:"mode"`   // 0 honest, 1 absent, 2 nil vote, 3 custom payload (Payload), 4 honest via the real ExtendVoteHandler, 5 honest extension mutated by (Mut,Arg), 6 nil vote carrying a (mutated) extension
	Payload []byte `json:"payload,omitempty"`
	Mut    int    `json:"mut,omitempty"` // mutation kind for mode 5 (see MutateExtension)
	Arg    int    `json:"arg,omitempty"` // mutation argument for mode 5
}

// CommitVote is what the engine recorded for one validator in the commit of a height.
type CommitVote struct {
	Val   *Validator
	Power int64
	Flag  cmtproto.BlockIDFlag
	Ext   []byte
	Sent  []byte // the extension the validator sent (even if peers rejected it)
}

func (c *Chain) Close() {
	if c.homeDir != "" {
		_ = os.RemoveAll(c.homeDir)
	}
}

type appOpts map[string]interface{}

func (a appOpts) Get(k string) interface{} { return a[k] }

// NewChain builds a fresh application on a MemDB and runs InitChain with a hand-built genesis.
func NewChain(cfg GenesisCfg) (c *Chain, err error) {
	globalInit()
	defer func() {
		if r := recover(); r != nil {
			err = fmt.Errorf("NewChain panic: %v\n%s", r, debug.Stack())
		}
	}()
	home, err := os.MkdirTemp(os.Getenv("VERIF_TMP"), "verif-home-")
	if err != nil {
		return nil, err
	}
	opts := appOpts{"home": home}
	var baseOpts []func(*baseapp.BaseApp)
	baseOpts = append(baseOpts, baseapp.SetChainID(ChainID))
	// local node configuration variants: none of these may influence execution results
	switch cfg.NodeVariant % 4 {
	case 1:
		baseOpts = append(baseOpts, baseapp.SetMinGasPrices("0.000001loya"), baseapp.SetIAVLCacheSize(10))
	case 2:
		baseOpts = append(baseOpts, baseapp.SetIAVLDisableFastNode(true), baseapp.SetHaltHeight(0), baseapp.SetMinRetainBlocks(1))
	case 3:
		baseOpts = append(baseOpts, baseapp.SetIAVLCacheSize(100000), baseapp.SetIndexEvents([]string{"tx.height"}))
	}
	var lg log.Logger = log.NewNopLogger()
	if os.Getenv("VERIF_DEBUG") == "1" {
		lg = log.NewLogger(os.Stderr)
	}
	app := layerapp.New(lg, dbm.NewMemDB(), nil, true, opts, baseOpts...)
	c = &Chain{App: app, Cfg: cfg, TxConfig: app.TxConfig(), homeDir: home, valByCons: map[string]*Validator{}, cmtPowers: map[string]int64{}, seqCache: map[string]uint64{}}
	for i := 0; i < cfg.NumValidators; i++ {
		a := NewActor(i, fmt.Sprintf("val%d", i))
		c.Actors = append(c.Actors, a)
		ck := edFromLabel(fmt.Sprintf("val%d", i))
		v := &Validator{Idx: i, Operator: a, Cons: ck, ConsAddr: sdk.ConsAddress(ck.PubKey().Address()), ValAddr: sdk.ValAddress(a.Addr)}
		c.Validators = append(c.Validators, v)
		c.valByCons[string(v.ConsAddr)] = v
	}
	for i := 0; i < cfg.NumUsers; i++ {
		c.Actors = append(c.Actors, NewActor(cfg.NumValidators+i, fmt.Sprintf("user%d", i)))
	}
	gs, err := c.buildGenesis()
	if err != nil {
		return nil, err
	}
	stateBytes, err := json.Marshal(gs)
	if err != nil {
		return nil, err
	}
	c.GenesisTime = time.Date(2025, 1, 1, 0, 0, 0, 0, time.UTC)
	cpCopy := cmtproto.ConsensusParams{
		Block:     &cmtproto.BlockParams{MaxBytes: 22020096, MaxGas: -1},
		Evidence:  &cmtproto.EvidenceParams{MaxAgeNumBlocks: 302400, MaxAgeDuration: 504 * time.Hour, MaxBytes: 10000},
		Validator: &cmtproto.ValidatorParams{PubKeyTypes: []string{"ed25519"}},
		Abci:      &cmtproto.ABCIParams{VoteExtensionsEnableHeight: 1},
	}
	res, err := app.InitChain(&abci.RequestInitChain{ChainId: ChainID, Time: c.GenesisTime, ConsensusParams: &cpCopy, AppStateBytes: stateBytes, InitialHeight: 1})
	if err != nil {
		return nil, fmt.Errorf("InitChain: %w", err)
	}
	for _, u := range res.Validators {
		c.cmtPowers[string(consAddrOfUpdate(u))] = u.Power
	}
	c.Time = c.GenesisTime
	return c, nil
}

func consAddrOfUpdate(u abci.ValidatorUpdate) []byte {
	if ed := u.PubKey.GetEd25519(); ed != nil {
		pk := ed25519.PubKey{Key: ed}
		return pk.Address()
	}
	return nil
}

func (c *Chain) buildGenesis() (map[string]json.RawMessage, error) {
	app := c.App
	cdc := app.AppCodec()
	gs := app.BasicModuleManager.DefaultGenesis(cdc)
	cfg := c.Cfg
	// auth
	var accs []authtypes.GenesisAccount
	for i, a := range c.Actors {
		accs = append(accs, authtypes.NewBaseAccount(a.Addr, nil, uint64(i), 0))
	}
	authGen := authtypes.NewGenesisState(authtypes.DefaultParams(), accs)
	gs[authtypes.ModuleName] = cdc.MustMarshalJSON(authGen)
	// staking
	stParams := stakingtypes.DefaultParams()
	stParams.BondDenom = BondDenom
	stParams.MaxValidators = uint32(cfg.MaxValidators)
	stParams.UnbondingTime = time.Duration(cfg.UnbondingSecs) * time.Second
	var vals []stakingtypes.Validator
	var dels []stakingtypes.Delegation
	var sigInfos []slashingtypes.SigningInfo
	// total tokens per validator incl. genesis user delegations
	extra := make([]int64, cfg.NumValidators)
	for _, d := range cfg.UserDelegs {
		if int(d[1]) < cfg.NumValidators && int(d[0]) < cfg.NumUsers && d[2] > 0 {
			extra[d[1]] += d[2]
		}
	}
	// every validator starts Unbonded with its tokens in the not-bonded pool; staking's InitGenesis
	// (ApplyAndReturnValidatorSetUpdates) bonds the top MaxValidators through the real transition,
	// which also fires the hooks that create slashing signing infos.
	bondedTotal, notBondedTotal := int64(0), int64(0)
	for i, v := range c.Validators {
		pkAny, err := codectypes.NewAnyWithValue(v.Cons.PubKey())
		if err != nil {
			return nil, err
		}
		tokens := cfg.ValTokens[i] + extra[i]
		status := stakingtypes.Unbonded
		notBondedTotal += tokens
		vals = append(vals, stakingtypes.Validator{
			OperatorAddress: v.ValAddr.String(), ConsensusPubkey: pkAny, Jailed: false, Status: status,
			Tokens: math.NewInt(tokens), DelegatorShares: math.LegacyNewDec(tokens),
			Description:     stakingtypes.Description{Moniker: v.Operator.Label},
			UnbondingHeight: 0, UnbondingTime: time.Unix(0, 0).UTC(),
			Commission:        stakingtypes.NewCommission(math.LegacyNewDecWithPrec(5, 2), math.LegacyNewDecWithPrec(20, 2), math.LegacyNewDecWithPrec(1, 2)),
			MinSelfDelegation: math.OneInt(),
		})
		dels = append(dels, stakingtypes.NewDelegation(v.Operator.Addr.String(), v.ValAddr.String(), math.LegacyNewDec(cfg.ValTokens[i])))
	}
	// merge user delegations per (user,validator)
	type dk struct{ u, v int64 }
	merged := map[dk]int64{}
	var keys []dk
	for _, d := range cfg.UserDelegs {
		if int(d[1]) < cfg.NumValidators && int(d[0]) < cfg.NumUsers && d[2] > 0 {
			k := dk{d[0], d[1]}
			if _, ok := merged[k]; !ok {
				keys = append(keys, k)
			}
			merged[k] += d[2]
		}
	}
	for _, k := range keys {
		u := c.Actors[cfg.NumValidators+int(k.u)]
		dels = append(dels, stakingtypes.NewDelegation(u.Addr.String(), c.Validators[k.v].ValAddr.String(), math.LegacyNewDec(merged[k])))
	}
	stGen := stakingtypes.NewGenesisState(stParams, vals, dels)
	gs[stakingtypes.ModuleName] = cdc.MustMarshalJSON(stGen)
	// slashing
	slParams := slashingtypes.DefaultParams()
	slParams.SignedBlocksWindow = cfg.SlashWindow
	slParams.MinSignedPerWindow = math.LegacyNewDecWithPrec(5, 1)
	slParams.DowntimeJailDuration = 10 * time.Minute
	slGen := slashingtypes.NewGenesisState(slParams, sigInfos, nil)
	gs[slashingtypes.ModuleName] = cdc.MustMarshalJSON(slGen)
	// bank
	var bals []banktypes.Balance
	total := int64(0)
	for _, a := range c.Actors {
		bals = append(bals, banktypes.Balance{Address: a.Addr.String(), Coins: sdk.NewCoins(sdk.NewInt64Coin(BondDenom, cfg.UserBalance))})
		total += cfg.UserBalance
	}
	if bondedTotal > 0 {
		bals = append(bals, banktypes.Balance{Address: authtypes.NewModuleAddress(stakingtypes.BondedPoolName).String(), Coins: sdk.NewCoins(sdk.NewInt64Coin(BondDenom, bondedTotal))})
	}
	if notBondedTotal > 0 {
		bals = append(bals, banktypes.Balance{Address: authtypes.NewModuleAddress(stakingtypes.NotBondedPoolName).String(), Coins: sdk.NewCoins(sdk.NewInt64Coin(BondDenom, notBondedTotal))})
	}
	total += bondedTotal + notBondedTotal
	bankGen := banktypes.NewGenesisState(banktypes.DefaultGenesisState().Params, bals, sdk.NewCoins(sdk.NewInt64Coin(BondDenom, total)), []banktypes.Metadata{}, []banktypes.SendEnabled{})
	gs[banktypes.ModuleName] = cdc.MustMarshalJSON(bankGen)
	// gov: short voting period, small deposit
	var govGen govv1.GenesisState
	cdc.MustUnmarshalJSON(gs[govtypes.ModuleName], &govGen)
	vp := time.Duration(cfg.VotingSecs) * time.Second
	govGen.Params.VotingPeriod = &vp
	govGen.Params.MaxDepositPeriod = &vp
	evp := vp / 2
	govGen.Params.ExpeditedVotingPeriod = &evp
	govGen.Params.MinDeposit = sdk.NewCoins(sdk.NewInt64Coin(BondDenom, 1_000_000))
	govGen.Params.ExpeditedMinDeposit = sdk.NewCoins(sdk.NewInt64Coin(BondDenom, 5_000_000))
	gs[govtypes.ModuleName] = cdc.MustMarshalJSON(&govGen)
	// dispute: team address is the last user account
	var dGen disputetypes.GenesisState
	cdc.MustUnmarshalJSON(gs[disputetypes.ModuleName], &dGen)
	dGen.Params.TeamAddress = c.TeamActor().Addr.Bytes()
	gs[disputetypes.ModuleName] = cdc.MustMarshalJSON(&dGen)
	return gs, nil
}

// TeamActor is the account configured as the dispute team address at genesis.
func (c *Chain) TeamActor() *Actor { return c.Actors[len(c.Actors)-1] }

// ---------------------------------------------------------------- contexts

// Ctx returns a read-only context on the last committed state.
func (c *Chain) Ctx() sdk.Context {
	ctx := c.App.BaseApp.NewUncachedContext(false, cmtproto.Header{Height: c.Height, Time: c.Time, ChainID: ChainID})
	cms := c.App.CommitMultiStore().CacheMultiStore()
	return ctx.WithMultiStore(cms).WithBlockHeight(c.Height).WithBlockTime(c.Time)
}

// ---------------------------------------------------------------- consensus: one height

type sortedVal struct {
	v     *Validator
	power int64
}

// currentValidators returns the cometbft validator set that votes on height Height+1,
// sorted by power desc then address asc (cometbft order).
func (c *Chain) currentValidators() []sortedVal {
	var out []sortedVal
	for addr, p := range c.cmtPowers {
		if p <= 0 {
			continue
		}
		v := c.valByCons[addr]
		if v == nil {
			continue
		}
		out = append(out, sortedVal{v, p})
	}
	sort.Slice(out, func(i, j int) bool {
		if out[i].power != out[j].power {
			return out[i].power > out[j].power
		}
		return bytes.Compare(out[i].v.ConsAddr, out[j].v.ConsAddr) < 0
	})
	return out
}

func signExt(v *Validator, ext []byte, height int64) []byte {
	cve := cmtproto.CanonicalVoteExtension{Extension: ext, Height: height, Round: 0, ChainId: ChainID}
	var buf bytes.Buffer
	if err := protoio.NewDelimitedWriter(&buf).WriteMsg(&cve); err != nil {
		panic(err)
	}
	sig, err := v.Cons.Sign(buf.Bytes())
	if err != nil {
		panic(err)
	}
	return sig
}

func guard(phase string, f func() error) (h *HaltInfo) {
	defer func() {
		if r := recover(); r != nil {
			h = &HaltInfo{Phase: phase, Err: fmt.Sprintf("panic: %v", r), Stack: string(debug.Stack())}
		}
	}()
	if err := f(); err != nil {
		return &HaltInfo{Phase: phase, Err: err.Error()}
	}
	return nil
}

// BlockInput is what the scripted consensus engine is told for one height.
type BlockInput struct {
	Gap        time.Duration
	Txs        [][]byte
	Votes      []VoteSpec // behaviour of validators in this height's precommit; unspecified validators are honest
	Misbehavior []abci.Misbehavior
	// Hooks for C17: mutate the proposal between Prepare and Process (returns the txs to propose)
	MutateProposal func(txs [][]byte) [][]byte
	SkipProcessCheck bool
}

// NextBlock runs one full height through the ABCI surface in the order cometbft uses.
func (c *Chain) NextBlock(in BlockInput) *BlockResult {
	h := c.Height + 1
	if in.Gap < time.Millisecond {
		in.Gap = time.Millisecond
	}
	t := c.Time.Add(in.Gap)
	res := &BlockResult{Height: h, Time: t}
	if c.Halted != nil {
		res.Halt = c.Halted
		return res
	}
	fail := func(hi *HaltInfo) *BlockResult {
		res.Halt = hi
		c.Halted = hi
		return res
	}
	if len(c.currentValidators()) == 0 || (h > 1 && len(c.prevVotes) == 0) {
		// every validator has left the consensus set (all jailed / unbonded): cometbft itself refuses an empty
		// validator set, so there is no further block to script. Not a verdict about the application.
		return fail(&HaltInfo{Phase: "Harness", Err: "the consensus validator set is empty; case cannot continue"})
	}
	// last commit (votes of height h-1)
	var extCommit abci.ExtendedCommitInfo
	var commit abci.CommitInfo
	for _, ev := range c.prevVotes {
		vi := abci.Validator{Address: ev.val.ConsAddr, Power: ev.power}
		extCommit.Votes = append(extCommit.Votes, abci.ExtendedVoteInfo{Validator: vi, VoteExtension: ev.ext, ExtensionSignature: ev.extSig, BlockIdFlag: ev.flag})
		commit.Votes = append(commit.Votes, abci.VoteInfo{Validator: vi, BlockIdFlag: ev.flag})
	}
	if len(extCommit.Votes) > 0 {
		tot, got := int64(0), int64(0)
		for _, v := range extCommit.Votes {
			tot += v.Validator.Power
			if v.BlockIdFlag == cmtproto.BlockIDFlagCommit {
				got += v.Validator.Power
			}
		}
		if got < tot*2/3+1 {
			return fail(&HaltInfo{Phase: "Harness", Err: "last commit lost its +2/3 after removed validators were dropped; case cannot continue"})
		}
	}
	proposer := c.proposerAddr()
	if c.Cfg.GhostRounds && h > 2 {
		c.ghostRound(h, t, proposer, in, extCommit, commit)
	}
	// 1. PrepareProposal
	var prep *abci.ResponsePrepareProposal
	if hi := guard("PrepareProposal", func() (err error) {
		prep, err = c.App.PrepareProposal(&abci.RequestPrepareProposal{MaxTxBytes: 22020096, Txs: in.Txs, LocalLastCommit: extCommit, Height: h, Time: t, ProposerAddress: proposer, Misbehavior: in.Misbehavior})
		return err
	}); hi != nil {
		return fail(hi)
	}
	txs := prep.Txs
	if h > 1 {
		// baseapp recovers panics of the handler and returns the raw txs: then the injected tx is missing
		if len(txs) == 0 || !looksInjected(txs[0]) {
			return fail(&HaltInfo{Phase: "PrepareProposal", Err: "proposal lacks the injected vote-extension tx (handler panicked or failed inside baseapp)"})
		}
		res.Injected = txs[0]
	}
	if c.ProposalProbe != nil && h > 1 {
		try := func(cand [][]byte) (accepted bool, hi *HaltInfo) {
			var pr *abci.ResponseProcessProposal
			hi = guard("ProcessProposal", func() (err error) {
				pr, err = c.App.ProcessProposal(&abci.RequestProcessProposal{Txs: cand, ProposedLastCommit: commit, Height: h, Time: t, ProposerAddress: proposer, Misbehavior: in.Misbehavior, Hash: []byte("blockhash-" + fmt.Sprint(h))})
				return err
			})
			if hi != nil {
				return false, hi
			}
			return pr.Status == abci.ResponseProcessProposal_ACCEPT, nil
		}
		c.ProposalProbe(h, txs, try)
	}
	if in.MutateProposal != nil {
		txs = in.MutateProposal(txs)
	}
	// 2. ProcessProposal
	var proc *abci.ResponseProcessProposal
	if c.Cfg.SkipDecidedProcess && h > 2 && in.MutateProposal == nil && !in.SkipProcessCheck {
		proc = &abci.ResponseProcessProposal{Status: abci.ResponseProcessProposal_ACCEPT}
	} else if hi := guard("ProcessProposal", func() (err error) {
		proc, err = c.App.ProcessProposal(&abci.RequestProcessProposal{Txs: txs, ProposedLastCommit: commit, Height: h, Time: t, ProposerAddress: proposer, Misbehavior: in.Misbehavior, Hash: []byte("blockhash-" + fmt.Sprint(h))})
		return err
	}); hi != nil {
		return fail(hi)
	}
	res.ProcessOK = proc.Status == abci.ResponseProcessProposal_ACCEPT
	if !res.ProcessOK {
		if in.SkipProcessCheck {
			return res // caller wanted to observe the rejection; block is not executed
		}
		return fail(&HaltInfo{Phase: "ProcessProposal", Err: "honest proposal rejected by ProcessProposal"})
	}
	// 3. precommit of height h: extensions are produced and verified on the state of h-1
	vals := c.currentValidators()
	spec := map[int]VoteSpec{}
	for _, vs := range in.Votes {
		spec[vs.Val] = vs
	}
	var votes []extVote
	// when attestations were requested in the previous block the honest handlers have something to sign: one honest
	// validator then uses the real ExtendVoteHandler (not the engine's imitation), so that what it produces is put
	// before the real VerifyVoteExtensionHandler
	probeReal := false
	if h > 2 {
		if reqs, err := c.App.BridgeKeeper.GetAttestationRequestsByHeight(c.Ctx(), uint64(h-1)); err == nil && reqs != nil && len(reqs.Requests) > 0 {
			probeReal = true
		}
	}
	for _, sv := range vals {
		vs, ok := spec[sv.v.Idx]
		mode := 0
		if ok {
			mode = vs.Mode
		}
		if mode == 0 && probeReal && c.HonestExt == nil {
			mode, probeReal = 4, false
		}
		ev := extVote{val: sv.v, power: sv.power}
		switch mode {
		case 1:
			ev.flag = cmtproto.BlockIDFlagAbsent
		case 2:
			ev.flag = cmtproto.BlockIDFlagNil
		case 6:
			// a nil precommit that nevertheless carries extension bytes (never signature-checked by the SDK):
			// what a Byzantine proposer can put into the extended commit it injects
			ev.flag = cmtproto.BlockIDFlagNil
			ev.ext = c.MutateExtension(c.MimicExtension(sv.v, h), sv.v, vs.Mut, vs.Arg)
			ev.sent = ev.ext
		default:
			var ext []byte
			if mode == 3 {
				ext = vs.Payload
			} else if mode == 5 {
				ext = c.MutateExtension(c.MimicExtension(sv.v, h), sv.v, vs.Mut, vs.Arg)
			} else if mode == 4 {
				var r *abci.ResponseExtendVote
				if hi := guard("ExtendVote", func() (err error) {
					r, err = c.realExtendVote(sv.v, h, t, txs)
					return err
				}); hi != nil {
					return fail(hi)
				}
				ext = r.VoteExtension
			} else if c.HonestExt != nil {
				ext = c.HonestExt(c, sv.v, h)
			} else {
				ext = c.MimicExtension(sv.v, h)
			}
			var vr *abci.ResponseVerifyVoteExtension
			if hi := guard("VerifyVoteExtension", func() (err error) {
				vr, err = c.App.VerifyVoteExtension(&abci.RequestVerifyVoteExtension{Hash: []byte("blockhash-" + fmt.Sprint(h)), ValidatorAddress: sv.v.ConsAddr, Height: h, VoteExtension: ext})
				return err
			}); hi != nil {
				return fail(hi)
			}
			ev.sent = ext
			if mode == 4 && vr.Status != abci.ResponseVerifyVoteExtension_ACCEPT {
				// an honest validator cannot vote: with every honest validator in the same position the chain stops
				return fail(&HaltInfo{Phase: "VerifyVoteExtension", Err: "the vote extension produced by the honest ExtendVoteHandler is rejected by the VerifyVoteExtensionHandler on the same state"})
			}
			if vr.Status == abci.ResponseVerifyVoteExtension_ACCEPT {
				ev.flag = cmtproto.BlockIDFlagCommit
				ev.ext = ext
				ev.extSig = signExt(sv.v, ext, h)
			} else {
				// peers reject the precommit: it never enters the commit
				ev.flag = cmtproto.BlockIDFlagAbsent
			}
		}
		votes = append(votes, ev)
	}
	// cometbft only commits with +2/3 precommits: if the script starves the commit, the remaining validators vote honestly
	c.ensureQuorum(votes, h)
	// 4. FinalizeBlock
	var fin *abci.ResponseFinalizeBlock
	if hi := guard("FinalizeBlock", func() (err error) {
		fin, err = c.App.FinalizeBlock(&abci.RequestFinalizeBlock{Txs: txs, DecidedLastCommit: commit, Misbehavior: in.Misbehavior, Hash: []byte("blockhash-" + fmt.Sprint(h)), Height: h, Time: t, ProposerAddress: proposer})
		return err
	}); hi != nil {
		return fail(hi)
	}
	res.Finalize = fin
	off := 0
	if res.Injected != nil {
		off = 1
	}
	for i := off; i < len(fin.TxResults); i++ {
		r := fin.TxResults[i]
		res.TxResults = append(res.TxResults, TxResult{Code: r.Code, Codespace: r.Codespace, Log: r.Log, GasUsed: r.GasUsed, Events: r.Events})
	}
	// 5. Commit
	if hi := guard("Commit", func() (err error) {
		_, err = c.App.Commit()
		return err
	}); hi != nil {
		return fail(hi)
	}
	c.Height = h
	c.Time = t
	// validator-set bookkeeping: updates from block h are effective for h+2
	for _, u := range c.pendingUpd {
		a := string(consAddrOfUpdate(u))
		if u.Power == 0 {
			delete(c.cmtPowers, a)
		} else {
			c.cmtPowers[a] = u.Power
		}
	}
	c.pendingUpd = fin.ValidatorUpdates
	// A validator whose record was removed from staking by this very block (its unbonding matured
	// because the block jumped past the unbonding period) can no longer have its extension verified:
	// baseapp.ValidateVoteExtensions looks the public key up in staking. Its node has left the chain;
	// the harness treats its precommit as absent and counts the event (SDK-level hazard, see DESIGN §6).
	postCtx := c.Ctx()
	for i := range votes {
		if votes[i].flag == cmtproto.BlockIDFlagCommit {
			if _, err := c.App.StakingKeeper.GetValidatorByConsAddr(postCtx, votes[i].val.ConsAddr); err != nil {
				votes[i].flag = cmtproto.BlockIDFlagAbsent
				votes[i].ext, votes[i].extSig = nil, nil
				c.RemovedVoterDrops++
			}
		}
	}
	c.prevVotes = votes
	c.seqCache = map[string]uint64{}
	return res
}

func looksInjected(tx []byte) bool {
	return len(tx) > 0 && tx[0] == '{' && bytes.Contains(tx, []byte(`"block_height"`))
}

func (c *Chain) ensureQuorum(votes []extVote, h int64) {
	total, got := int64(0), int64(0)
	for _, v := range votes {
		total += v.power
		if v.flag == cmtproto.BlockIDFlagCommit {
			got += v.power
		}
	}
	need := total*2/3 + 1
	for i := range votes {
		if got >= need {
			break
		}
		if votes[i].flag != cmtproto.BlockIDFlagCommit {
			ext := c.MimicExtension(votes[i].val, h)
			vr, err := c.App.VerifyVoteExtension(&abci.RequestVerifyVoteExtension{Hash: []byte("blockhash-" + fmt.Sprint(h)), ValidatorAddress: votes[i].val.ConsAddr, Height: h, VoteExtension: ext})
			if err != nil || vr.Status != abci.ResponseVerifyVoteExtension_ACCEPT {
				continue
			}
			votes[i].flag = cmtproto.BlockIDFlagCommit
			votes[i].ext = ext
			votes[i].extSig = signExt(votes[i].val, ext, h)
			got += votes[i].power
		}
	}
}

func (c *Chain) proposerAddr() []byte {
	vals := c.currentValidators()
	if len(vals) == 0 {
		return nil
	}
	return vals[int(c.Height)%len(vals)].v.ConsAddr
}

// RegisterValidator makes a later-created validator known to the engine (its consensus key).
func (c *Chain) RegisterValidator(v *Validator) {
	c.Validators = append(c.Validators, v)
	c.valByCons[string(v.ConsAddr)] = v
}

// ---------------------------------------------------------------- transactions

// SignTx builds and signs a SIGN_MODE_DIRECT transaction for the given messages.
func (c *Chain) SignTx(signer *Actor, gas uint64, fee int64, msgs ...sdk.Msg) ([]byte, error) {
	ctx := c.Ctx()
	acc := c.App.AccountKeeper.GetAccount(ctx, signer.Addr)
	var accNum, seq uint64
	if acc != nil {
		accNum = acc.GetAccountNumber()
		seq = acc.GetSequence()
	}
	if s, ok := c.seqCache[string(signer.Addr)]; ok {
		seq = s
	}
	c.seqCache[string(signer.Addr)] = seq + 1
	return c.signTxWith(signer, accNum, seq, gas, fee, msgs...)
}

func (c *Chain) signTxWith(signer *Actor, accNum, seq, gas uint64, fee int64, msgs ...sdk.Msg) ([]byte, error) {
	txb := c.TxConfig.NewTxBuilder()
	if err := txb.SetMsgs(msgs...); err != nil {
		return nil, err
	}
	txb.SetGasLimit(gas)
	if fee > 0 {
		txb.SetFeeAmount(sdk.NewCoins(sdk.NewInt64Coin(BondDenom, fee)))
	}
	signMode := txsigning.SignMode_SIGN_MODE_DIRECT
	sig := txsigning.SignatureV2{PubKey: signer.Priv.PubKey(), Data: &txsigning.SingleSignatureData{SignMode: signMode}, Sequence: seq}
	if err := txb.SetSignatures(sig); err != nil {
		return nil, err
	}
	sd := authsigning.SignerData{ChainID: ChainID, AccountNumber: accNum, Sequence: seq, PubKey: signer.Priv.PubKey(), Address: signer.Addr.String()}
	bz, err := authsigning.GetSignBytesAdapter(context.Background(), c.TxConfig.SignModeHandler(), signMode, sd, txb.GetTx())
	if err != nil {
		return nil, err
	}
	s, err := signer.Priv.Sign(bz)
	if err != nil {
		return nil, err
	}
	sig.Data = &txsigning.SingleSignatureData{SignMode: signMode, Signature: s}
	if err := txb.SetSignatures(sig); err != nil {
		return nil, err
	}
	return c.TxConfig.TxEncoder()(txb.GetTx())
}

var _ = proto.Marshal
var _ = cryptocodec.FromCmtPubKeyInterface

// LastCommit returns the votes recorded for the last committed height (the commit the next block will carry).
func (c *Chain) LastCommit() []CommitVote {
	out := make([]CommitVote, 0, len(c.prevVotes))
	for _, v := range c.prevVotes {
		out = append(out, CommitVote{Val: v.val, Power: v.power, Flag: v.flag, Ext: v.ext, Sent: v.sent})
	}
	return out
}

// ghostRound plays an abandoned consensus round on this node: a proposal built from a last commit that lacks one of
// the precommits (still more than two thirds) is prepared and processed, and then dropped. Whatever the application
// does in these calls must leave no trace in the execution of the decided block.
func (c *Chain) ghostRound(h int64, t time.Time, proposer []byte, in BlockInput, extCommit abci.ExtendedCommitInfo, commit abci.CommitInfo) {
	tot, got := int64(0), int64(0)
	for _, v := range extCommit.Votes {
		tot += v.Validator.Power
		if v.BlockIdFlag == cmtproto.BlockIDFlagCommit {
			got += v.Validator.Power
		}
	}
	drop := -1
	for i := len(extCommit.Votes) - 1; i >= 0; i-- {
		v := extCommit.Votes[i]
		if v.BlockIdFlag == cmtproto.BlockIDFlagCommit && got-v.Validator.Power >= tot*2/3+1 {
			drop = i
			break
		}
	}
	if drop < 0 {
		return
	}
	ge := abci.ExtendedCommitInfo{Round: extCommit.Round, Votes: append([]abci.ExtendedVoteInfo(nil), extCommit.Votes...)}
	gc := abci.CommitInfo{Round: commit.Round, Votes: append([]abci.VoteInfo(nil), commit.Votes...)}
	ge.Votes[drop].BlockIdFlag, ge.Votes[drop].VoteExtension, ge.Votes[drop].ExtensionSignature = cmtproto.BlockIDFlagAbsent, nil, nil
	gc.Votes[drop].BlockIdFlag = cmtproto.BlockIDFlagAbsent
	func() {
		defer func() { _ = recover() }()
		prep, err := c.App.PrepareProposal(&abci.RequestPrepareProposal{MaxTxBytes: 22020096, Txs: in.Txs, LocalLastCommit: ge, Height: h, Time: t, ProposerAddress: proposer, Misbehavior: in.Misbehavior})
		if err != nil || prep == nil {
			return
		}
		_, _ = c.App.ProcessProposal(&abci.RequestProcessProposal{Txs: prep.Txs, ProposedLastCommit: gc, Height: h, Time: t, ProposerAddress: proposer, Misbehavior: in.Misbehavior, Hash: []byte("ghosthash-" + fmt.Sprint(h))})
		c.GhostRoundsPlayed++
	}()
}
