package chain

// C12 (history part) — dispute life-cycle automaton, voting guards and voting-power reference,
// on the real application. The tally arithmetic itself is checked at function level in
// harness/pure (TestC12_Tally, TestC12_TallyExhaustive, TestC12_Ratio).
//
// Oracle, written from the statement:
//  (b) per dispute id the per-block difference of (status, open, pending-execution) must be a path of
//      prevote->voting (funded, within a day of the start), prevote->failed (a day after the start),
//      voting->resolved (a vote of this block, or the 2-day voting period is over), voting->unresolved
//      (voting period over), unresolved->closed together with a NEW id of round+1 in voting (within 3
//      days of the start of voting), unresolved->resolved (3 days over); no other move, none twice; a
//      dispute does not stay prevote / voting / unresolved past its deadline. All deadlines are
//      computed by the monitor from the block times it saw (start, start of voting), not from the
//      DisputeEndTime / VoteEnd fields; a block exactly AT a deadline may go either way.
//      A new round pays 5% * 2^(rounds held) of the slash amount, capped at the slash amount
//      (amount that actually reached the dispute account / left the proposer in that transaction),
//      its round number is the predecessor's + 1 and its PrevDisputeIds the predecessor's + its own id.
//  (c) an accepted MsgVote implies: the dispute was voting, block time <= start of voting + 2 days, no
//      earlier accepted vote of that address for that id; the recorded Voter entry equals
//      team part (fixed weight iff the voter is the current team address)
//      + tips part (sum of amount - floor(2%) of the voter's accepted tips in blocks <= the dispute block)
//      + reporting-stake part (reporter: total of its latest stake record at or before the dispute block
//        minus its selectors' parts that voted earlier; selector: its own origins in that record)
//      + token-holder part (liquid balance just before the transaction + its own stake part);
//      VoteCountsByGroup equals the sums of these parts per group and choice after removing a
//      selector's part from its reporter's choice, never below zero, no cell above its group total;
//      the BlockInfo snapshot equals total bonded tokens / total tips at the dispute's start block.

import (
	"bytes"
	"fmt"
	"math/big"
	"sort"
	"strings"
	"testing"
	"time"

	"pgregory.net/rapid"

	"cosmossdk.io/collections"

	authtypes "github.com/cosmos/cosmos-sdk/x/auth/types"

	"github.com/tellor-io/layer/utils"
	disputetypes "github.com/tellor-io/layer/x/dispute/types"
	oracletypes "github.com/tellor-io/layer/x/oracle/types"
	reportertypes "github.com/tellor-io/layer/x/reporter/types"

	"verif/harness/pbt"
)

const c12TeamWeight = 25_000_000 // the fixed team weight recorded for a team vote

var (
	c12OneDay    = 24 * time.Hour
	c12TwoDays   = 48 * time.Hour
	c12ThreeDays = 72 * time.Hour
)

type c12Tip struct {
	height int64
	net    *big.Int
}

type c12Voter struct {
	choice      int
	team, tips  *big.Int
	repAtVote   *big.Int
	rep         *big.Int // after later selector votes were removed
	subtracted  *big.Int
	tok         *big.Int
	isReporter  bool
	reporter    string // reporter selected at the time of the vote ("" none)
	votedAt     int64
	switchedOwn *big.Int // stake part by the statement when the selector left the reporter it had at the dispute block
}

type c12Disp struct {
	id                uint64
	hash              string
	blockNo           uint64
	createdH          int64
	proposeIdx        int
	tStart            time.Time
	tVoting           time.Time
	inVoting          bool
	pred, succ        uint64
	edges             map[string]bool
	voters            map[string]*c12Voter
	votedBefore       map[string]*big.Int
	counts            [4][3]*big.Int // users, reporters, token holders, team x (invalid, support, against)
	tainted           bool
	tipsAfterSnapshot bool
}

var c12Groups = [4]string{"users", "reporters", "tokenholders", "team"}

type c12SelAt struct {
	height   int64
	reporter string
}

type c12Monitor struct {
	BaseMonitor
	pre          *c12Snap
	info         map[uint64]*c12Disp
	byHash       map[string][]uint64
	tips         map[string][]c12Tip
	tipTotal     *big.Int
	selHist      map[string][]c12SelAt
	selChanged   map[string]map[int64]bool
	blockInfo    map[string]disputetypes.BlockInfo
	counters     map[string]int64
	infra        string
	paidFromBond map[string]bool // accounts that paid a dispute fee out of their bonded stake
	// classification
	acceptedVotes int
	groups        map[string]bool
	pairs         map[string]bool
	maxRound      uint64
	classes       map[string]bool
}

func c12NewMonitor() *c12Monitor {
	return &c12Monitor{info: map[uint64]*c12Disp{}, byHash: map[string][]uint64{}, tips: map[string][]c12Tip{}, tipTotal: new(big.Int),
		selHist: map[string][]c12SelAt{}, selChanged: map[string]map[int64]bool{}, blockInfo: map[string]disputetypes.BlockInfo{},
		paidFromBond: map[string]bool{}, counters: map[string]int64{}, groups: map[string]bool{}, pairs: map[string]bool{}, classes: map[string]bool{}}
}

// viol returns a violation unless its signature is a recorded finding (then it is counted and the history goes on).
func (m *c12Monitor) viol(sig, format string, a ...any) *pbt.Violation {
	if pbt.IsKnown("C12", sig) {
		m.counters["known:"+sig]++
		return nil
	}
	return pbt.Violf(sig, format, a...)
}

func (m *c12Monitor) Init(c *Chain, w *World) *pbt.Violation {
	m.pre = c12TakeSnap(c)
	for k, r := range m.pre.sel {
		m.selHist[k] = []c12SelAt{{c.Height, r}}
	}
	return nil
}

func (m *c12Monitor) Before(c *Chain, w *World, txs []*BuiltTx) *pbt.Violation {
	for _, bt := range txs {
		if bt.Op.K == OpPropose && bt.Op.S == c12RoundMarker {
			if _, err := c12RewriteRound(c, bt); err != nil {
				m.infra = "re-signing a new-round proposal: " + err.Error()
			}
		}
	}
	m.pre = c12TakeSnap(c)
	return nil
}

func c12Node(d disputetypes.Dispute) string {
	switch {
	case d.DisputeStatus == disputetypes.Prevote && d.Open && !d.PendingExecution:
		return "P"
	case d.DisputeStatus == disputetypes.Voting && d.Open:
		// a later round is created with the pending-execution flag of its timed-out predecessor still set
		// (AddDisputeRound copies the record); the flag has no effect while voting: counted, not judged
		return "V"
	case d.DisputeStatus == disputetypes.Failed && !d.Open && !d.PendingExecution:
		return "F"
	case d.DisputeStatus == disputetypes.Resolved && !d.Open && d.PendingExecution:
		return "Rp"
	case d.DisputeStatus == disputetypes.Resolved && !d.PendingExecution:
		if d.Open {
			return "Rxo" // resolved at the dispute end time after a vote without quorum: the open flag is left set
		}
		return "Rx"
	case d.DisputeStatus == disputetypes.Unresolved && d.Open && d.PendingExecution:
		return "U"
	case d.DisputeStatus == disputetypes.Unresolved && !d.Open && !d.PendingExecution:
		return "Uc"
	}
	return fmt.Sprintf("?%s/open=%v/pending=%v", d.DisputeStatus, d.Open, d.PendingExecution)
}

var c12Edges = [][2]string{{"P", "V"}, {"P", "F"}, {"V", "Rp"}, {"Rp", "Rx"}, {"V", "U"}, {"U", "Uc"}, {"U", "Rxo"}}

type c12Env struct {
	T           time.Time
	funded      bool // fee total equals the slash amount after the block
	voted       bool // an accepted vote on this id in this block
	succCreated bool // a successor round was created in this block
}

func (d *c12Disp) guard(e [2]string, env c12Env, tv time.Time) bool {
	T := env.T
	switch e {
	case [2]string{"P", "V"}:
		return env.funded && !T.After(d.tStart.Add(c12OneDay))
	case [2]string{"P", "F"}:
		return !T.Before(d.tStart.Add(c12OneDay))
	case [2]string{"V", "Rp"}:
		return env.voted || !T.Before(tv.Add(c12TwoDays))
	case [2]string{"V", "U"}:
		return !T.Before(tv.Add(c12TwoDays))
	case [2]string{"U", "Uc"}:
		return env.succCreated && !T.After(tv.Add(c12ThreeDays))
	case [2]string{"U", "Rxo"}:
		return !T.Before(tv.Add(c12ThreeDays))
	}
	return true
}

// path finds the sequence of allowed moves from one node to another within one block.
func (d *c12Disp) path(from, to string, env c12Env, guarded bool, tv time.Time) ([][2]string, bool) {
	if from == to {
		return nil, true
	}
	for _, e := range c12Edges {
		if e[0] != from {
			continue
		}
		if guarded && !d.guard(e, env, tv) {
			continue
		}
		ntv := tv
		if e == [2]string{"P", "V"} {
			ntv = env.T
		}
		if rest, ok := d.path(e[1], to, env, guarded, ntv); ok {
			return append([][2]string{e}, rest...), true
		}
	}
	return nil, false
}

func c12Big(x int64) *big.Int { return big.NewInt(x) }

func (m *c12Monitor) selAt(addr string, height uint64) string {
	r := ""
	for _, e := range m.selHist[addr] {
		if uint64(e.height) <= height {
			r = e.reporter
		}
	}
	return r
}

func (m *c12Monitor) tipsUpTo(addr string, height uint64) *big.Int {
	s := new(big.Int)
	for _, tp := range m.tips[addr] {
		if uint64(tp.height) <= height {
			s.Add(s, tp.net)
		}
	}
	return s
}

func c12Short(addr string) string {
	if addr == "" {
		return "nobody"
	}
	x := fmt.Sprintf("%x", []byte(addr))
	if len(x) > 8 {
		x = x[:8]
	}
	return x
}

func (m *c12Monitor) After(c *Chain, w *World, br *BlockResult, outs []TxOutcome) *pbt.Violation {
	if br.Halt != nil || br.Finalize == nil {
		return nil // halts belong to C02
	}
	pre := m.pre
	post := c12TakeSnap(c)
	ctx := c.Ctx()
	T, h := br.Time, br.Height
	dk := c.App.DisputeKeeper

	// ---- bank flows of the block, per phase
	begin, okB := c12Flows(br.Finalize.Events, "BeginBlock")
	all, okA := c12Flows(br.Finalize.Events, "")
	txFlows := make([]c12Flow, len(outs))
	flowsOK := okB && okA
	for i, o := range outs {
		txFlows[i] = c12Flow{}
		if o.Res != nil {
			f, ok := c12Flows(o.Res.Events, "")
			txFlows[i] = f
			all.merge(f)
			flowsOK = flowsOK && ok
		}
	}
	balOK := func(bech string) bool {
		p, q := pre.bal[bech], post.bal[bech]
		if !flowsOK || p == nil || q == nil {
			return false
		}
		return new(big.Int).Add(p, all.of(bech)).Cmp(q) == 0
	}

	// ---- pre-pass: the selection table after the block must be explained by the accepted reporter messages
	finalSel := map[string]string{}
	for k, v := range pre.sel {
		finalSel[k] = v
	}
	applySel := func(sel map[string]string, msg any, mark bool) {
		var who string
		switch x := msg.(type) {
		case *reportertypes.MsgCreateReporter:
			who = string(c12Addr(x.ReporterAddress))
			sel[who] = who
		case *reportertypes.MsgSelectReporter:
			who = string(c12Addr(x.SelectorAddress))
			sel[who] = string(c12Addr(x.ReporterAddress))
		case *reportertypes.MsgSwitchReporter:
			who = string(c12Addr(x.SelectorAddress))
			sel[who] = string(c12Addr(x.ReporterAddress))
		case *reportertypes.MsgRemoveSelector:
			who = string(c12Addr(x.SelectorAddress))
			delete(sel, who)
		default:
			return
		}
		if mark {
			if m.selChanged[who] == nil {
				m.selChanged[who] = map[int64]bool{}
			}
			m.selChanged[who][h] = true
		}
	}
	for _, o := range outs {
		if o.OK() {
			for _, msg := range o.Tx.Msgs {
				applySel(finalSel, msg, true)
			}
		}
	}
	selOK := len(finalSel) == len(post.sel)
	for k, v := range finalSel {
		if post.sel[k] != v {
			selOK = false
		}
	}
	if !selOK {
		m.counters["selection-table-unexplained"]++
	}

	// ---- step A: new dispute ids
	var newIDs []uint64
	for id := range post.disputes {
		if _, ok := pre.disputes[id]; !ok {
			newIDs = append(newIDs, id)
		}
	}
	sort.Slice(newIDs, func(i, j int) bool { return newIDs[i] < newIDs[j] })
	var proposeIdx []int
	for i, o := range outs {
		if o.OK() && len(o.Tx.Msgs) == 1 {
			if _, ok := o.Tx.Msgs[0].(*disputetypes.MsgProposeDispute); ok {
				proposeIdx = append(proposeIdx, i)
			}
		}
	}
	attributed := len(newIDs) == len(proposeIdx)
	if !attributed {
		m.counters["proposals-unattributed"]++
	}
	for id := range pre.disputes {
		if _, ok := post.disputes[id]; !ok {
			return pbt.Violf("C12/lifecycle/dispute-removed", "block %d: dispute %d disappeared from the store", h, id)
		}
	}
	disputeAcc := authtypes.NewModuleAddress(disputetypes.ModuleName).String()
	for k, id := range newIDs {
		d := post.disputes[id]
		nd := &c12Disp{id: id, hash: string(d.HashId), blockNo: d.BlockNumber, createdH: h, proposeIdx: -1, tStart: T, edges: map[string]bool{},
			voters: map[string]*c12Voter{}, votedBefore: map[string]*big.Int{}}
		for g := range nd.counts {
			for ch := range nd.counts[g] {
				nd.counts[g][ch] = new(big.Int)
			}
		}
		if attributed {
			nd.proposeIdx = proposeIdx[k]
		}
		chain := m.byHash[nd.hash]
		if len(chain) == 0 {
			if d.DisputeRound != 1 {
				return pbt.Violf("C12/rounds/first-round-number", "block %d: new dispute %d starts in round %d", h, id, d.DisputeRound)
			}
			if !c12EqualU64s(d.PrevDisputeIds, []uint64{id}) {
				return pbt.Violf("C12/rounds/prev-ids/first-round", "block %d: new dispute %d has PrevDisputeIds %v", h, id, d.PrevDisputeIds)
			}
			if d.BlockNumber != uint64(h) {
				return pbt.Violf("C12/dispute-block-number", "block %d: new dispute %d records block number %d", h, id, d.BlockNumber)
			}
		} else {
			predID := chain[len(chain)-1]
			pm, pd := m.info[predID], post.disputes[predID]
			nd.pred = predID
			nd.tVoting, nd.inVoting = T, true
			if pm.succ != 0 {
				return pbt.Violf("C12/rounds/second-successor", "block %d: dispute %d already had successor %d, now also %d", h, predID, pm.succ, id)
			}
			pm.succ = id
			if d.DisputeRound != pd.DisputeRound+1 {
				return pbt.Violf("C12/rounds/round-number", "block %d: dispute %d follows %d (round %d) but is in round %d", h, id, predID, pd.DisputeRound, d.DisputeRound)
			}
			if !c12EqualU64s(d.PrevDisputeIds, append(append([]uint64(nil), pd.PrevDisputeIds...), id)) {
				return pbt.Violf("C12/rounds/prev-ids", "block %d: dispute %d follows %d (prev ids %v) but records %v", h, id, predID, pd.PrevDisputeIds, d.PrevDisputeIds)
			}
			if d.DisputeRound > m.maxRound {
				m.maxRound = d.DisputeRound
			}
			m.classes[fmt.Sprintf("round-%d", min(int(d.DisputeRound), 4))] = true
			if nd.proposeIdx >= 0 {
				o := outs[nd.proposeIdx]
				msg := o.Tx.Msgs[0].(*disputetypes.MsgProposeDispute)
				if msg.PayFromBond {
					m.counters["round-fee-from-bond-unchecked"]++
				} else {
					lo, hi := c12RoundFee(pd.SlashAmount.BigInt(), pd.DisputeRound)
					got := txFlows[nd.proposeIdx].of(disputeAcc)
					paid := new(big.Int).Neg(txFlows[nd.proposeIdx].of(o.Tx.Signer.Addr.String()))
					m.counters["round-fee-checked"]++
					if got.Cmp(lo) < 0 || got.Cmp(hi) > 0 || paid.Cmp(got) != 0 {
						if v := m.viol("C12/rounds/fee", "block %d: round %d of dispute %d (slash amount %s): the dispute account received %s and the proposer paid %s; 5%%*2^%d capped is %s..%s (offered %s)",
							h, d.DisputeRound, predID, pd.SlashAmount, got, paid, pd.DisputeRound, lo, hi, msg.Fee.Amount); v != nil {
							return v
						}
					}
				}
			}
		}
		m.info[id] = nd
		m.byHash[nd.hash] = append(m.byHash[nd.hash], id)
		if bi, err := dk.BlockInfo.Get(ctx, d.HashId); err == nil && len(chain) == 0 {
			m.blockInfo[nd.hash] = bi
		}
	}

	// ---- step B: transactions in order
	runTeam := append([]byte(nil), pre.team...)
	runSel := map[string]string{}
	for k, v := range pre.sel {
		runSel[k] = v
	}
	soFar := c12Flow{}
	soFar.merge(begin)
	submitIdx := map[string]int{}
	submitLast := map[string]int{} // last accepted submit per reporter|query id in this block (pre-pass)
	for i, o := range outs {
		if !o.OK() {
			continue
		}
		for _, raw := range o.Tx.Msgs {
			if msg, ok := raw.(*oracletypes.MsgSubmitValue); ok {
				submitLast[string(c12Addr(msg.Creator))+"|"+string(utils.QueryIDFromData(msg.QueryData))] = i
			}
		}
	}
	funded := map[uint64]bool{}
	votedNow := map[uint64]bool{}
	var records map[string][]c12Rec
	lastTipIdx, lastStakeIdx := -1, -1
	for i, o := range outs {
		if !o.OK() {
			soFar.merge(txFlows[i])
			continue
		}
		if !o.Tx.House {
			switch o.Tx.Op.K {
			case OpVote, OpSend, OpAddEvidence, OpUpdateTeam:
			case OpTip:
				lastTipIdx = i
			default:
				lastStakeIdx = i
			}
		}
		for _, raw := range o.Tx.Msgs {
			switch msg := raw.(type) {
			case *oracletypes.MsgTip:
				amt := msg.Amount.Amount.BigInt()
				burn := new(big.Int).Mul(amt, big.NewInt(2))
				burn.Quo(burn, big.NewInt(100))
				net := new(big.Int).Sub(amt, burn)
				who := string(c12Addr(msg.Tipper))
				m.tips[who] = append(m.tips[who], c12Tip{h, net})
				m.tipTotal.Add(m.tipTotal, net)
				// a tip in the dispute's own block after its creation counts for the tipper but is not in the snapshot
				for _, id := range newIDs {
					if nd := m.info[id]; nd.pred == 0 && nd.proposeIdx >= 0 && nd.proposeIdx < i {
						nd.tipsAfterSnapshot = true
					}
				}
			case *disputetypes.MsgUpdateTeam:
				runTeam = c12Addr(msg.NewTeamAddress)
			case *reportertypes.MsgCreateReporter, *reportertypes.MsgSelectReporter, *reportertypes.MsgSwitchReporter, *reportertypes.MsgRemoveSelector:
				applySel(runSel, msg, false)
			case *oracletypes.MsgSubmitValue:
				key := string(c12Addr(msg.Creator)) + "|" + string(utils.QueryIDFromData(msg.QueryData))
				if _, ok := submitIdx[key]; !ok {
					submitIdx[key] = i
				}
			case *disputetypes.MsgAddFeeToDispute:
				funded[msg.DisputeId] = true
				if msg.PayFromBond {
					m.paidFromBond[string(c12Addr(msg.Creator))] = true
				}
			case *disputetypes.MsgProposeDispute:
				if msg.PayFromBond {
					m.paidFromBond[string(c12Addr(msg.Creator))] = true
				}
			case *disputetypes.MsgVote:
				if records == nil {
					records = c12ReadRecords(c)
				}
				if v := m.checkVote(c, pre, i, T, h, msg, runTeam, runSel, soFar, balOK, funded, submitIdx, submitLast, records, selOK); v != nil {
					return v
				}
				votedNow[msg.Id] = true
			}
		}
		soFar.merge(txFlows[i])
	}

	// ---- step C: life-cycle
	ids := make([]uint64, 0, len(post.disputes))
	for id := range post.disputes {
		ids = append(ids, id)
	}
	sort.Slice(ids, func(i, j int) bool { return ids[i] < ids[j] })
	for _, id := range ids {
		d := m.info[id]
		pd := post.disputes[id]
		to := c12Node(pd)
		from := "P"
		if d.pred != 0 {
			from = "V"
		}
		fromDesc := "new"
		if old, ok := pre.disputes[id]; ok {
			from = c12Node(old)
			fromDesc = from
		}
		if pd.DisputeStatus == disputetypes.Voting && pd.PendingExecution {
			m.counters["voting-with-pending-execution-flag"]++
			if d.pred == 0 {
				return pbt.Violf("C12/lifecycle/unknown-state", "block %d: first-round dispute %d is voting with the pending-execution flag set", h, id)
			}
		}
		if to[0] == '?' {
			return pbt.Violf("C12/lifecycle/unknown-state", "block %d: dispute %d is in state %s (was %s)", h, id, to, fromDesc)
		}
		env := c12Env{T: T, funded: pd.FeeTotal.Equal(pd.SlashAmount), voted: votedNow[id], succCreated: d.succ != 0 && m.info[d.succ].createdH == h}
		steps, ok := d.path(from, to, env, true, d.tVoting)
		if !ok {
			when := fmt.Sprintf("block time %s, started %s", T.Format(time.RFC3339Nano), d.tStart.Format(time.RFC3339Nano))
			if d.inVoting {
				when += ", voting since " + d.tVoting.Format(time.RFC3339Nano)
			}
			if free, ok2 := d.path(from, to, env, false, d.tVoting); ok2 {
				// the move exists but not now / not under these circumstances: name the first step whose condition fails
				tv := d.tVoting
				bad := free[0]
				for _, e := range free {
					if !d.guard(e, env, tv) {
						bad = e
						break
					}
					if e == [2]string{"P", "V"} {
						tv = T
					}
				}
				if v := m.viol(fmt.Sprintf("C12/lifecycle/transition-condition/%s->%s", bad[0], bad[1]),
					"block %d: dispute %d moved %s -> %s but the step %s->%s is not allowed now (%s; funded=%v, vote in this block=%v, successor created=%v)",
					h, id, fromDesc, to, bad[0], bad[1], when, env.funded, env.voted, env.succCreated); v != nil {
					return v
				}
				steps = free
			} else {
				return pbt.Violf(fmt.Sprintf("C12/lifecycle/illegal-transition/%s->%s", from, to), "block %d: dispute %d moved %s -> %s (%s)", h, id, fromDesc, to, when)
			}
		}
		for _, e := range steps {
			name := e[0] + "->" + e[1]
			if d.edges[name] {
				return pbt.Violf("C12/lifecycle/transition-repeated/"+name, "block %d: dispute %d went through %s a second time", h, id, name)
			}
			d.edges[name] = true
			m.classes["edge:"+name] = true
			if e == [2]string{"P", "V"} {
				d.tVoting, d.inVoting = T, true
			}
		}
		if _, existed := pre.disputes[id]; !existed && d.pred == 0 && to != "P" && !d.inVoting {
			d.tVoting, d.inVoting = T, true
		}
		// a dispute must not outlive its deadline in a waiting state
		switch to {
		case "P":
			if T.After(d.tStart.Add(c12OneDay)) {
				if v := m.viol("C12/lifecycle/prevote-survives-deadline", "block %d (%s): dispute %d started %s is still prevote more than a day later", h, T.Format(time.RFC3339Nano), id, d.tStart.Format(time.RFC3339Nano)); v != nil {
					return v
				}
			}
		case "V":
			if T.After(d.tVoting.Add(c12TwoDays)) {
				if v := m.viol("C12/lifecycle/voting-survives-vote-end", "block %d (%s): dispute %d voting since %s is still voting more than two days later", h, T.Format(time.RFC3339Nano), id, d.tVoting.Format(time.RFC3339Nano)); v != nil {
					return v
				}
			}
		case "U":
			if T.After(d.tVoting.Add(c12ThreeDays)) {
				if v := m.viol("C12/lifecycle/unresolved-survives-dispute-end", "block %d (%s): dispute %d voting since %s is still unresolved more than three days later", h, T.Format(time.RFC3339Nano), id, d.tVoting.Format(time.RFC3339Nano)); v != nil {
					return v
				}
			}
		case "Rp":
			if from == "Rp" {
				m.counters["resolved-pending-more-than-a-block"]++
			}
		case "Rxo":
			m.counters["resolved-with-open-flag"]++
		}
		if d.pred != 0 && d.createdH == h {
			if pn := c12Node(post.disputes[d.pred]); pn != "Uc" {
				return pbt.Violf("C12/rounds/predecessor-not-closed", "block %d: dispute %d opened a new round after %d, which is now %s", h, id, d.pred, pn)
			}
		}
	}

	// ---- step D: recorded voters and group counts of the disputes voted on in this block
	supply := c.App.BankKeeper.GetSupply(ctx, BondDenom).Amount.BigInt()
	var voted []uint64
	for id := range votedNow {
		voted = append(voted, id)
	}
	sort.Slice(voted, func(i, j int) bool { return voted[i] < voted[j] })
	for _, id := range voted {
		d := m.info[id]
		if d == nil || d.tainted {
			m.counters["tainted-dispute-skipped"]++
			continue
		}
		var keys []string
		for k := range d.voters {
			keys = append(keys, k)
		}
		sort.Strings(keys)
		for _, vk := range keys {
			v := d.voters[vk]
			rec, err := dk.Voter.Get(ctx, collections.Join(id, []byte(vk)))
			if err != nil {
				return pbt.Violf("C12/vote-accepted/no-voter-record", "block %d: dispute %d: no Voter entry for %s", h, id, c12Short(vk))
			}
			role := "selector"
			if v.isReporter {
				role = "reporter"
			} else if v.reporter == "" {
				role = "no-selection"
			}
			if rec.ReporterPower.BigInt().Cmp(v.rep) != 0 {
				if vv := m.viol("C12/vote-power/reporter-stake/"+role, "block %d: dispute %d (dispute block %d): voter %s (%s, voted in block %d) has recorded reporter power %s; reference %s (at its vote %s, removed by later selector votes %s)",
					h, id, d.blockNo, c12Short(vk), role, v.votedAt, rec.ReporterPower, v.rep, v.repAtVote, v.subtracted); vv != nil {
					return vv
				}
				d.tainted = true
				break
			}
			rest := new(big.Int).Sub(rec.VoterPower.BigInt(), rec.ReporterPower.BigInt())
			rest.Sub(rest, v.subtracted)
			rest.Sub(rest, rec.TokenholderPower.BigInt())
			want := new(big.Int).Add(v.team, v.tips)
			if rest.Cmp(want) != 0 {
				sig := "C12/vote-power/tips"
				if v.team.Sign() == 0 && new(big.Int).Sub(rest, v.tips).Cmp(c12Big(c12TeamWeight)) == 0 {
					sig = "C12/vote-power/team-weight-for-non-team"
				} else if v.team.Sign() > 0 && rest.Cmp(v.tips) == 0 {
					sig = "C12/vote-power/team-weight-missing"
				}
				if vv := m.viol(sig, "block %d: dispute %d (dispute block %d): voter %s voted in block %d: recorded total %s - reporter %s - token holder %s leaves %s for team+tips; reference team %s + tips %s (tips of that account up to the dispute block)",
					h, id, d.blockNo, c12Short(vk), v.votedAt, rec.VoterPower, new(big.Int).Add(rec.ReporterPower.BigInt(), v.subtracted), rec.TokenholderPower, rest, v.team, v.tips); vv != nil {
					return vv
				}
				d.tainted = true
				break
			}
			if v.switchedOwn != nil && v.votedAt == h {
				if vv := m.viol("C12/vote-power/reporter-stake/selector-left-reporter-after-dispute-block",
					"block %d: dispute %d (dispute block %d): voter %s selected reporter %s at the dispute block with %s loya in that reporter's stake record, selects %q now and votes with reporter power %s: its stake as of the dispute block is neither its own vote nor removed from the former reporter's weight",
					h, id, d.blockNo, c12Short(vk), c12Short(m.selAt(vk, d.blockNo)), v.switchedOwn, c12Short(v.reporter), rec.ReporterPower); vv != nil {
					return vv
				}
			}
		}
		if d.tainted {
			continue
		}
		vc, err := dk.VoteCountsByGroup.Get(ctx, id)
		if err != nil {
			vc = disputetypes.StakeholderVoteCounts{}
		}
		cells := [4][3]uint64{
			{vc.Users.Invalid, vc.Users.Support, vc.Users.Against},
			{vc.Reporters.Invalid, vc.Reporters.Support, vc.Reporters.Against},
			{vc.Tokenholders.Invalid, vc.Tokenholders.Support, vc.Tokenholders.Against},
			{vc.Team.Invalid, vc.Team.Support, vc.Team.Against},
		}
		bi, haveBI := m.blockInfo[d.hash]
		for g := 0; g < 4 && !d.tainted; g++ {
			for ch := 0; ch < 3; ch++ {
				got := new(big.Int).SetUint64(cells[g][ch])
				if got.Cmp(d.counts[g][ch]) != 0 {
					if vv := m.viol("C12/vote-counts/"+c12Groups[g], "block %d: dispute %d: VoteCountsByGroup %s/%s is %s but the voters' recorded parts (selector votes removed from their reporter) sum to %s",
						h, id, c12Groups[g], disputetypes.VoteEnum(ch), got, d.counts[g][ch]); vv != nil {
						return vv
					}
					d.tainted = true
					break
				}
				var total *big.Int
				switch g {
				case 0:
					if haveBI {
						total = bi.TotalUserTips.BigInt()
					}
				case 1:
					if haveBI {
						total = bi.TotalReporterPower.BigInt()
					}
				case 2:
					total = supply
				}
				if total != nil && got.Cmp(total) > 0 {
					sig := "C12/vote-counts/exceeds-group-total/" + c12Groups[g]
					if g == 0 && d.firstRound(m).tipsAfterSnapshot {
						sig += "/tip-in-dispute-block-after-snapshot"
					}
					if g == 1 {
						// the snapshot is taken after the disputed reporter's stake has been escrowed, but that
						// reporter (and its selectors) vote with the stake recorded before the slash
						accused := string(c12Addr(post.disputes[id].InitialEvidence.Reporter))
						for vk, v := range d.voters {
							if vk == accused || v.reporter == accused {
								sig = "C12/vote-counts/exceeds-group-total/reporters/disputed-reporter-votes-with-slashed-stake"
							}
						}
						// same mechanism across disputes: a reporter slashed by an EARLIER dispute (its stake left the bonded
						// total before this dispute's snapshot) still votes here with the stake recorded at its last report
						// and for a reporter that paid a dispute fee out of its stake after its last report: the payment left the
						// bonded total, the stake record of the last report still contains it
						if sig == "C12/vote-counts/exceeds-group-total/reporters" {
							for vk, v := range d.voters {
								if m.paidFromBond[vk] || m.paidFromBond[v.reporter] {
									sig = "C12/vote-counts/exceeds-group-total/reporters/fee-payer-from-stake-votes-with-pre-payment-stake"
								}
							}
						}
						if sig == "C12/vote-counts/exceeds-group-total/reporters" {
							for od, other := range post.disputes {
								if od == id || other.DisputeStatus == disputetypes.Prevote || other.BlockNumber > post.disputes[id].BlockNumber {
									continue
								}
								slashed := string(c12Addr(other.InitialEvidence.Reporter))
								for vk, v := range d.voters {
									if vk == slashed || v.reporter == slashed {
										sig = "C12/vote-counts/exceeds-group-total/reporters/reporter-slashed-by-earlier-dispute-votes-with-pre-slash-stake"
									}
								}
							}
						}
					}
					if vv := m.viol(sig, "block %d: dispute %d: VoteCountsByGroup %s/%s is %s, more than the group total %s", h, id, c12Groups[g], disputetypes.VoteEnum(ch), got, total); vv != nil {
						return vv
					}
				}
			}
		}
	}

	// ---- the snapshot taken at dispute creation
	for _, id := range newIDs {
		d := m.info[id]
		if d.pred != 0 {
			continue
		}
		bi, ok := m.blockInfo[d.hash]
		if !ok {
			m.counters["blockinfo-not-seen"]++
			continue
		}
		if d.proposeIdx < 0 || lastTipIdx > d.proposeIdx {
			m.counters["blockinfo-tips-unchecked"]++
		} else {
			m.counters["blockinfo-tips-checked"]++
			if bi.TotalUserTips.BigInt().Cmp(m.tipTotal) != 0 {
				if vv := m.viol("C12/blockinfo/total-tips", "block %d: dispute %d: snapshot of total tips is %s but the tips (net of the 2%% burn) accepted up to and including this block sum to %s", h, id, bi.TotalUserTips, m.tipTotal); vv != nil {
					return vv
				}
			}
		}
		if d.proposeIdx < 0 || lastStakeIdx > d.proposeIdx || pre.bonded != post.bonded {
			m.counters["blockinfo-stake-unchecked"]++
		} else if bonded, err := c.App.StakingKeeper.TotalBondedTokens(ctx); err == nil {
			m.counters["blockinfo-stake-checked"]++
			if !bi.TotalReporterPower.Equal(bonded) {
				if vv := m.viol("C12/blockinfo/total-reporter-power", "block %d: dispute %d: snapshot of total reporter power is %s but %s tokens are bonded at the end of its block (no later staking transaction in the block)", h, id, bi.TotalReporterPower, bonded); vv != nil {
					return vv
				}
			}
		}
	}

	// ---- selection history
	for k, r := range post.sel {
		hist := m.selHist[k]
		if len(hist) == 0 || hist[len(hist)-1].reporter != r {
			m.selHist[k] = append(hist, c12SelAt{h, r})
		}
	}
	for k, hist := range m.selHist {
		if _, ok := post.sel[k]; !ok && len(hist) > 0 && hist[len(hist)-1].reporter != "" {
			m.selHist[k] = append(hist, c12SelAt{h, ""})
		}
	}
	m.pre = post
	return nil
}

func (d *c12Disp) firstRound(m *c12Monitor) *c12Disp {
	x := d
	for x.pred != 0 {
		x = m.info[x.pred]
	}
	return x
}

// checkVote evaluates one accepted MsgVote against the state just before it.
func (m *c12Monitor) checkVote(c *Chain, pre *c12Snap, i int, T time.Time, h int64, msg *disputetypes.MsgVote, team []byte, sel map[string]string,
	soFar c12Flow, balOK func(string) bool, funded map[uint64]bool, submitIdx, submitLast map[string]int, records map[string][]c12Rec, selOK bool) *pbt.Violation {
	id := msg.Id
	voter := c12Addr(msg.Voter)
	vk := string(voter)
	d := m.info[id]
	if d == nil {
		return pbt.Violf("C12/vote-accepted/unknown-dispute", "block %d: a vote on dispute %d was accepted but no such dispute exists", h, id)
	}
	m.acceptedVotes++
	if pd, ok := pre.disputes[id]; ok {
		switch node := c12Node(pd); {
		case node == "V":
			if T.After(d.tVoting.Add(c12TwoDays)) {
				if v := m.viol("C12/vote-accepted/after-vote-end", "block %d (%s): vote of %s on dispute %d accepted, but voting started %s: more than two days ago",
					h, T.Format(time.RFC3339Nano), c12Short(vk), id, d.tVoting.Format(time.RFC3339Nano)); v != nil {
					return v
				}
			}
			switch dt := T.Sub(d.tVoting.Add(c12TwoDays)); {
			case dt == 0:
				m.classes["vote-accepted-at-vote-end"] = true
			case dt > -2*time.Second:
				m.classes["vote-accepted-just-before-vote-end"] = true
			}
		case node == "P" && funded[id]:
		default:
			if v := m.viol("C12/vote-accepted/dispute-not-voting", "block %d: vote of %s on dispute %d accepted although the dispute was %s before the block", h, c12Short(vk), id, node); v != nil {
				return v
			}
		}
	}
	if d.voters[vk] != nil {
		if v := m.viol("C12/vote-accepted/second-vote-in-round", "block %d: %s voted on dispute %d again (first vote in block %d)", h, c12Short(vk), id, d.voters[vk].votedAt); v != nil {
			return v
		}
		d.tainted = true
		return nil
	}
	rec, err := c.App.DisputeKeeper.Voter.Get(c.Ctx(), collections.Join(id, []byte(voter)))
	if err != nil {
		return pbt.Violf("C12/vote-accepted/no-voter-record", "block %d: vote of %s on dispute %d accepted but no Voter entry exists after the block", h, c12Short(vk), id)
	}
	if rec.Vote != msg.Vote {
		return pbt.Violf("C12/vote-accepted/recorded-choice", "block %d: %s voted %s on dispute %d, recorded %s", h, c12Short(vk), msg.Vote, id, rec.Vote)
	}
	ch := int(msg.Vote)
	if ch < 0 || ch > 2 {
		d.tainted = true
		return nil
	}
	v := &c12Voter{choice: ch, team: new(big.Int), subtracted: new(big.Int), votedAt: h}
	d.voters[vk] = v
	kinds := 0
	if bytes.Equal(voter, team) {
		v.team = c12Big(c12TeamWeight)
		d.counts[3][ch] = big.NewInt(1)
		m.groups["team"] = true
		kinds++
	}
	v.tips = m.tipsUpTo(vk, d.blockNo)
	d.counts[0][ch].Add(d.counts[0][ch], v.tips)
	if v.tips.Sign() > 0 {
		m.groups["tipper"] = true
		kinds++
		if m.tipsUpTo(vk, ^uint64(0)).Cmp(v.tips) != 0 {
			m.classes["voter-tipped-after-dispute-block"] = true
		}
	}
	visible := func(rep string) func(r c12Rec) bool {
		return func(r c12Rec) bool {
			if r.block < uint64(h) {
				return true
			}
			idx, ok := submitIdx[rep+"|"+r.qid]
			return r.block == uint64(h) && ok && idx < i
		}
	}
	cur, has := sel[vk]
	own, rep := new(big.Int), new(big.Int)
	if has {
		v.reporter = cur
		total, o, _, ok := c12Latest(records[cur], d.blockNo, vk, visible(cur))
		// the records are read from the state after the block: a report made before this vote and replaced by a later
		// report of the same reporter and query in the same block no longer shows what the chain saw at vote time
		for key, last := range submitLast {
			if first := submitIdx[key]; strings.HasPrefix(key, cur+"|") && first < i && last > i {
				ok = false
			}
		}
		if !ok {
			m.counters["stake-record-ambiguous"]++
			d.tainted = true
		}
		own = o
		if cur == vk {
			v.isReporter = true
			m.groups["reporter"] = true
			kinds++
			before := d.votedBefore[vk]
			if before == nil {
				before = new(big.Int)
			}
			rep = new(big.Int).Sub(total, before)
			if before.Sign() > 0 {
				m.pairs["selector-first"] = true
			}
			if rep.Sign() < 0 {
				if vv := m.viol("C12/counter-below-zero/reporter-power", "block %d: dispute %d: reporter %s voted with stake %s after its selectors used %s", h, id, c12Short(vk), total, before); vv != nil {
					return vv
				}
				d.tainted = true
			}
		} else {
			m.groups["selector"] = true
			kinds++
			rep = new(big.Int).Set(own)
			if rv := d.voters[cur]; rv != nil {
				m.pairs["reporter-first"] = true
				rv.rep = new(big.Int).Sub(rv.rep, own)
				rv.subtracted = new(big.Int).Add(rv.subtracted, own)
				cell := d.counts[1][rv.choice]
				cell.Sub(cell, own)
				if cell.Sign() < 0 || rv.rep.Sign() < 0 {
					if vv := m.viol("C12/counter-below-zero/reporter-count", "block %d: dispute %d: removing selector %s's %s loya from its reporter's choice takes the count to %s (reporter's own record to %s)",
						h, id, c12Short(vk), own, cell, rv.rep); vv != nil {
						return vv
					}
					d.tainted = true
				}
			} else {
				vb := d.votedBefore[cur]
				if vb == nil {
					vb = new(big.Int)
				}
				d.votedBefore[cur] = vb.Add(vb, own)
				if own.Sign() > 0 {
					m.classes["selector-voted-before-reporter"] = true
				}
			}
		}
	}
	if !selOK {
		d.tainted = true
	}
	v.repAtVote, v.rep = rep, new(big.Int).Set(rep)
	d.counts[1][ch].Add(d.counts[1][ch], rep)
	// did the voter leave the reporter it had at the dispute block?
	var ownThen *big.Int
	if uint64(h) > d.blockNo && !m.selChanged[vk][int64(d.blockNo)] && !v.isReporter {
		then := m.selAt(vk, d.blockNo)
		if then != cur && then != "" && then != vk {
			_, o, _, ok := c12Latest(records[then], d.blockNo, vk, nil)
			if ok && o.Cmp(own) != 0 {
				ownThen = o
				v.switchedOwn = o
				m.classes["vote-of-selector-that-left-its-reporter"] = true
			}
		}
	}
	// token-holder part: liquid balance just before this transaction + own stake part
	bech := msg.Voter
	if balOK(bech) {
		bal := new(big.Int).Add(pre.bal[bech], soFar.of(bech))
		got := rec.TokenholderPower.BigInt()
		cands := []*big.Int{new(big.Int).Add(bal, own)}
		if v.isReporter {
			cands = append(cands, new(big.Int).Add(bal, rep)) // "that stake" read as the reporter's whole reporting stake
		}
		if ownThen != nil {
			cands = append(cands, new(big.Int).Add(bal, ownThen))
		}
		hit := -1
		for k, x := range cands {
			if x.Cmp(got) == 0 {
				hit = k
				break
			}
		}
		if hit < 0 && !d.tainted {
			sig := "C12/vote-power/token-holder"
			if got.Cmp(bal) == 0 {
				sig += "/stake-part-missing"
			}
			if vv := m.viol(sig, "block %d: dispute %d (dispute block %d): voter %s: recorded token-holder power %s; liquid balance before the transaction %s + own stake as of the dispute block %s",
				h, id, d.blockNo, c12Short(vk), got, bal, own); vv != nil {
				return vv
			}
		}
		if v.isReporter && cands[0].Cmp(cands[1]) != 0 {
			m.counters[fmt.Sprintf("reporter-token-part-reading-%d", hit)]++
		}
		if own.Sign() > 0 {
			m.counters["token-part-with-stake-checked"]++
		}
		m.counters["token-part-checked"]++
	} else {
		m.counters["token-part-adopted"]++
	}
	v.tok = rec.TokenholderPower.BigInt()
	d.counts[2][ch].Add(d.counts[2][ch], v.tok)
	if kinds == 0 {
		m.groups["holder"] = true
	}
	return nil
}

func (m *c12Monitor) Classify(info *pbt.CaseInfo) {
	pair := len(m.pairs) > 0
	info.Nontrivial = (m.acceptedVotes >= 3 && len(m.groups) >= 2 && pair) || m.maxRound >= 2
	for k := range m.pairs {
		info.Classes = append(info.Classes, "pair:"+k)
	}
	for k := range m.groups {
		info.Classes = append(info.Classes, "group:"+k)
	}
	for k := range m.classes {
		info.Classes = append(info.Classes, k)
	}
	info.Classes = append(info.Classes, fmt.Sprintf("accepted-votes=%d", min(m.acceptedVotes/3*3, 12)))
	sort.Strings(info.Classes)
}

const c12Rule = "scenario histories on the real application: reporters with selectors, tips by several accounts, reports at several heights, 1-3 disputes funded at once / in parts / never, " +
	"votes by team, tippers, reporters, selectors (before and after their reporter, after switching reporter), delegators and holders in drawn orders with repeated votes, payments and stake changes in between, " +
	"blocks exactly at the 1-, 2- and 3-day deadlines +-1 ms / +-1 s, up to 3 (thorough 4) rounds after votes without quorum with exact / excessive / short round fees; " +
	"non-trivial = (>=3 accepted votes from >=2 voter groups including a selector and its reporter on the same dispute) or a second round; distinct by SHA-256 of the history JSON"

func TestC12_Lifecycle(t *testing.T) {
	c12Run(t, "TestC12_Lifecycle", c12Rule,
		func(rt *rapid.T) History { return c12Gen(rt, pbt.Thorough()) },
		c12NewMonitor)
}
