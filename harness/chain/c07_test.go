package chain

// C07 — reports enter only an open round; each round aggregates exactly once.
//
// The oracle is a reference model written from the property statement and evaluated over
// consecutive committed states (state after block h-1 vs. state after block h) plus the
// per-transaction results of block h:
//
//	(a) guard, one direction: an ACCEPTED report implies: not a bridge-withdrawal query; reporter not
//	    jailed; reporter's bonded stake >= minimum; and - unless the query is a bridge deposit - the query
//	    had a round before the block whose window has not closed (h <= expiration) and that either
//	    carries a tip or is the scheduled cycle-list query. Round conditions are evaluated only for a
//	    report that is the first transaction of its block touching that query (an earlier tip or report
//	    of the same block can legitimately open/extend the round), the stake condition only in blocks
//	    without any staking/reporter/dispute transaction and with identical reference stake before and
//	    after the block. Everything else is counted as "not evaluated".
//	    The converse (unexpected rejections) is only counted, with one exception: a rejection whose
//	    reason is the chain's own "submission window expired" while h <= expiration contradicts the
//	    statement's definition of the window (it closes in the block in which the round aggregates).
//	(b) replacement: the stored reports after block h are those before it overridden by the accepted
//	    submits of h (latest value wins, one entry per round and reporter, nothing lost, nothing
//	    stored without an accepted submit); an aggregate lists every reporter of its round once.
//	(c) exactly once: (c1) every aggregate created at h belongs to a round that existed before EndBlock(h),
//	    has >=1 stored report, was never aggregated before and is gone from the store; (c2) no round with
//	    reports has expiration <= h after block h; (c3) a round that vanished either produced exactly one
//	    aggregate or had neither reports nor a tip.
//	(d) tips stay with the query: after every block the amounts carried by the rounds of a query equal
//	    the (net) tips it received since its last aggregate, and the oracle module account pays out
//	    exactly that amount in the block of the aggregate (and nothing in other blocks).
//	(e) rotation: if the scheduled cycle-list query changed in a block (without a governance
//	    replacement of the list in that block), the old query has no round with expiration > h left and
//	    the new query is the successor of the old one in the key order of the list, wrapping around.

import (
	"bytes"
	"encoding/hex"
	"fmt"
	"math/big"
	"sort"
	"strings"
	"testing"

	"cosmossdk.io/collections"

	sdk "github.com/cosmos/cosmos-sdk/types"
	authtypes "github.com/cosmos/cosmos-sdk/x/auth/types"

	oracletypes "github.com/tellor-io/layer/x/oracle/types"
	reportertypes "github.com/tellor-io/layer/x/reporter/types"

	"pgregory.net/rapid"

	"verif/harness/pbt"
)

// ---------------------------------------------------------------- committed-state snapshot

type c07Round struct {
	Qid    string // hex query id
	ID     uint64
	Amount *big.Int
	Exp    uint64
	Window uint64
	Cycle  bool
}

type c07Report struct {
	Qid      string
	Reporter string
	ID       uint64
	Value    string
	Block    uint64
}

type c07Agg struct {
	MetaID    uint64
	Reporters []string
}

type c07Snap struct {
	Height    uint64
	Rounds    map[string][]c07Round // per query id, ascending round id
	ByID      map[uint64]c07Round
	Reports   map[string]c07Report // key qid|reporter|id
	RepCount  map[uint64]int       // stored reports per round id
	RepQid    map[uint64]string    // round id -> query id (from stored reports)
	CycleKeys []string             // cycle list in key order (hex query ids)
	SeqIdx    uint64
	CurQid    string // scheduled cycle-list query ("" if the index is out of range)
	NextSeq   uint64 // next round id to be handed out
	OracleBal *big.Int
	MinStake  *big.Int
	IsRep     map[string]bool
	Jailed    map[string]bool
	Stake     map[string]*big.Int // reference stake of every registered reporter among the actors
}

func (s *c07Snap) current(q string) (c07Round, bool) {
	rs := s.Rounds[q]
	if len(rs) == 0 {
		return c07Round{}, false
	}
	return rs[len(rs)-1], true
}

// c07RefStake: bonded tokens delegated by all accounts that selected the reporter (an upper bound of
// what the chain counts: selectors that are temporarily locked are included).
func c07RefStake(c *Chain, ctx sdk.Context, rep sdk.AccAddress) *big.Int {
	total := new(big.Int)
	_ = c.App.ReporterKeeper.Selectors.Walk(ctx, nil, func(sel []byte, v reportertypes.Selection) (bool, error) {
		if !bytes.Equal(v.Reporter, rep) {
			return false, nil
		}
		dels, err := c.App.StakingKeeper.GetDelegatorDelegations(ctx, sel, 10000)
		if err != nil {
			return false, nil
		}
		for _, d := range dels {
			va, err := sdk.ValAddressFromBech32(d.ValidatorAddress)
			if err != nil {
				continue
			}
			val, err := c.App.StakingKeeper.GetValidator(ctx, va)
			if err != nil || !val.IsBonded() {
				continue
			}
			total.Add(total, val.TokensFromShares(d.Shares).TruncateInt().BigInt())
		}
		return false, nil
	})
	return total
}

func c07Take(c *Chain) *c07Snap {
	ctx := c.Ctx()
	ok := c.App.OracleKeeper
	s := &c07Snap{Height: uint64(c.Height), Rounds: map[string][]c07Round{}, ByID: map[uint64]c07Round{}, Reports: map[string]c07Report{},
		RepCount: map[uint64]int{}, RepQid: map[uint64]string{}, IsRep: map[string]bool{}, Jailed: map[string]bool{}, Stake: map[string]*big.Int{}}
	_ = ok.Query.Walk(ctx, nil, func(k collections.Pair[[]byte, uint64], v oracletypes.QueryMeta) (bool, error) {
		q := hex.EncodeToString(k.K1())
		r := c07Round{Qid: q, ID: k.K2(), Amount: new(big.Int).Set(v.Amount.BigInt()), Exp: v.Expiration, Window: v.RegistrySpecBlockWindow, Cycle: v.CycleList}
		s.Rounds[q] = append(s.Rounds[q], r)
		s.ByID[r.ID] = r
		return false, nil
	})
	_ = ok.Reports.Walk(ctx, nil, func(k collections.Triple[[]byte, []byte, uint64], v oracletypes.MicroReport) (bool, error) {
		q := hex.EncodeToString(k.K1())
		rep := sdk.AccAddress(k.K2()).String()
		r := c07Report{Qid: q, Reporter: rep, ID: k.K3(), Value: v.Value, Block: v.BlockNumber}
		s.Reports[fmt.Sprintf("%s|%s|%d", q, rep, r.ID)] = r
		s.RepCount[r.ID]++
		s.RepQid[r.ID] = q
		return false, nil
	})
	_ = ok.Cyclelist.Walk(ctx, nil, func(k, _ []byte) (bool, error) {
		s.CycleKeys = append(s.CycleKeys, hex.EncodeToString(k))
		return false, nil
	})
	s.SeqIdx, _ = ok.CyclelistSequencer.Peek(ctx)
	if s.SeqIdx < uint64(len(s.CycleKeys)) {
		s.CurQid = s.CycleKeys[s.SeqIdx]
	}
	s.NextSeq, _ = ok.QuerySequencer.Peek(ctx)
	s.OracleBal = c.App.BankKeeper.GetBalance(ctx, authtypes.NewModuleAddress(oracletypes.ModuleName), BondDenom).Amount.BigInt()
	if p, err := ok.Params.Get(ctx); err == nil {
		s.MinStake = p.MinStakeAmount.BigInt()
	}
	for _, a := range c.Actors {
		r, err := c.App.ReporterKeeper.Reporters.Get(ctx, a.Addr.Bytes())
		if err != nil {
			continue
		}
		addr := a.Addr.String()
		s.IsRep[addr] = true
		s.Jailed[addr] = r.Jailed
		s.Stake[addr] = c07RefStake(c, ctx, a.Addr)
	}
	return s
}

func c07AggsAt(c *Chain, h uint64) []c07Agg {
	var out []c07Agg
	_ = c.App.OracleKeeper.Aggregates.Walk(c.Ctx(), nil, func(_ collections.Pair[[]byte, uint64], v oracletypes.Aggregate) (bool, error) {
		if v.Height != h {
			return false, nil
		}
		a := c07Agg{MetaID: v.MetaId}
		for _, r := range v.Reporters {
			a.Reporters = append(a.Reporters, r.Reporter)
		}
		out = append(out, a)
		return false, nil
	})
	return out
}

// ---------------------------------------------------------------- monitor

type roundsMonitor struct {
	BaseMonitor
	prev       *c07Snap
	owed       map[string]*big.Int // net tips received per query since its last aggregate
	aggregated map[uint64]bool     // round ids that produced an aggregate
	replaceSeq uint64              // next round id right after the latest governance replacement of the cycle list (0 = never)
	kinds      map[string]string   // hex(query data) -> catalog kind

	// statistics
	rotations, exactExpiry, lateByOne, retips, tipOnReported, depositAcc, withdrawTry, jailedTry int
	depositRollover                                                                              int
	submits, accepted, evalRound, skipRound, evalStake, skipStake, evalJail                      int
	aggregates, replacements, unexpectedReject, govListUpdates, windows0, tipKept                int
	rejectWhy                                                                                    map[string]int
	windowsSeen                                                                                  map[uint64]bool
}

func newRoundsMonitor() *roundsMonitor {
	return &roundsMonitor{owed: map[string]*big.Int{}, aggregated: map[uint64]bool{}, kinds: map[string]string{}, rejectWhy: map[string]int{}, windowsSeen: map[uint64]bool{}}
}

func (m *roundsMonitor) Init(c *Chain, w *World) *pbt.Violation {
	for _, q := range w.Catalog {
		m.kinds[hex.EncodeToString(q.Data)] = q.Kind
	}
	m.prev = c07Take(c)
	for q, rs := range m.prev.Rounds {
		for _, r := range rs {
			m.addOwed(q, r.Amount)
		}
	}
	return nil
}

func (m *roundsMonitor) addOwed(q string, x *big.Int) {
	if m.owed[q] == nil {
		m.owed[q] = new(big.Int)
	}
	m.owed[q].Add(m.owed[q], x)
}

// stake of a reporter can move in a block that contains one of these (or through the dispute
// BeginBlocker, which is caught by comparing the reference stake before and after the block)
var c07StakeKinds = map[string]bool{OpDelegate: true, OpUndelegate: true, OpRedelegate: true, OpCancelUnbond: true, OpCreateVal: true, OpUnjailVal: true,
	OpMultiStake: true, OpCreateReporter: true, OpSelectReporter: true, OpSwitchReporter: true, OpRemoveSelector: true, OpPropose: true, OpAddFee: true,
	OpVote: true, OpFeeRefund: true, OpClaimReward: true, OpWithdrawTip: true, OpGov: true, OpPrivDirect: true}

func c07HasEvent(br *BlockResult, typ string) int {
	n := 0
	if br.Finalize != nil {
		for _, ev := range br.Finalize.Events {
			if ev.Type == typ {
				n++
			}
		}
	}
	for _, r := range br.TxResults {
		for _, ev := range r.Events {
			if ev.Type == typ {
				n++
			}
		}
	}
	return n
}

func (m *roundsMonitor) After(c *Chain, w *World, br *BlockResult, outs []TxOutcome) *pbt.Violation {
	if br.Halt != nil {
		return nil // halts belong to C02
	}
	h := uint64(br.Height)
	prev := m.prev
	cur := c07Take(c)
	aggs := c07AggsAt(c, h)

	// ------------------------------------------------------------ per-transaction pass (guard (a), model updates)
	stakeTx := false
	for _, o := range outs {
		if c07StakeKinds[o.Tx.Op.K] {
			stakeTx = true
		}
	}
	touched := map[string]bool{}  // query touched by an earlier tx of this block
	unjailed := map[string]bool{} // reporter that successfully unjailed earlier in this block
	lastVal := map[string]string{}
	accCount := map[string]int{}
	tippedOK := map[string]bool{}
	tipNet := new(big.Int)
	for _, o := range outs {
		if o.Tx.House || len(o.Tx.Msgs) != 1 {
			continue
		}
		switch msg := o.Tx.Msgs[0].(type) {
		case *reportertypes.MsgUnjailReporter:
			if o.OK() {
				unjailed[msg.ReporterAddress] = true
			}
		case *oracletypes.MsgTip:
			q := hex.EncodeToString(queryID(msg.QueryData))
			if o.OK() {
				amt := msg.Amount.Amount.BigInt()
				burn := new(big.Int).Mul(amt, big.NewInt(2))
				burn.Quo(burn, big.NewInt(100))
				net := new(big.Int).Sub(amt, burn)
				m.addOwed(q, net)
				tipNet.Add(tipNet, net)
				tippedOK[q] = true
				if !touched[q] {
					if r, ok := prev.current(q); ok {
						if prev.RepCount[r.ID] == 0 && r.Amount.Sign() > 0 && r.Exp < h {
							m.retips++
						}
						if prev.RepCount[r.ID] > 0 {
							m.tipOnReported++
						}
					}
				}
			}
			touched[q] = true
		case *oracletypes.MsgSubmitValue:
			q := hex.EncodeToString(queryID(msg.QueryData))
			kind := m.kinds[hex.EncodeToString(msg.QueryData)]
			first := !touched[q]
			touched[q] = true
			signer := msg.Creator
			m.submits++
			if kind == "withdraw" {
				m.withdrawTry++
			}
			if prev.Jailed[signer] {
				m.jailedTry++
			}
			r, haveRound := prev.current(q)
			if o.Res == nil {
				continue
			}
			if !o.OK() {
				if kind == "deposit" || kind == "withdraw" || kind == "garbage" || kind == "" || !first || !haveRound {
					continue
				}
				if r.Exp+1 == h {
					m.lateByOne++
				}
				if r.Exp >= h {
					if o.Res.Codespace == oracletypes.ErrSubmissionWindowExpired.Codespace() && o.Res.Code == oracletypes.ErrSubmissionWindowExpired.ABCICode() {
						where := "before-expiry-height"
						if r.Exp == h {
							where = "at-expiry-height"
						}
						return pbt.Violf("C07/guard/window-reported-closed-while-open/"+where,
							"block %d: report for query %s rejected with %q although its round %d expires at height %d (the round still aggregates at its expiry height, so the window closes there, not earlier)",
							h, q[:12], o.Res.Log, r.ID, r.Exp)
					}
					// converse direction: only counted
					if (r.Amount.Sign() > 0 || prev.CurQid == q) && prev.IsRep[signer] && !prev.Jailed[signer] && prev.MinStake != nil && prev.Stake[signer].Cmp(prev.MinStake) >= 0 {
						m.unexpectedReject++
						m.rejectWhy[reason(o)]++
					}
				}
				continue
			}
			// ---- accepted report
			m.accepted++
			lastVal[q+"|"+signer] = msg.Value
			accCount[q+"|"+signer]++
			if kind == "withdraw" {
				return pbt.Violf("C07/guard/withdrawal-report-accepted", "block %d: a report for the bridge-withdrawal query %s was accepted", h, q[:12])
			}
			if !prev.IsRep[signer] && !cur.IsRep[signer] {
				return pbt.Violf("C07/guard/accepted-from-non-reporter", "block %d: report by %s accepted, who is not a registered reporter before or after the block", h, signer)
			}
			if prev.IsRep[signer] && cur.IsRep[signer] {
				m.evalJail++
				if prev.Jailed[signer] && cur.Jailed[signer] && !unjailed[signer] {
					return pbt.Violf("C07/guard/jailed-reporter-accepted", "block %d: report for query %s by reporter %s accepted, who is jailed before and after the block and did not unjail in it", h, q[:12], signer)
				}
			}
			ps, cs := prev.Stake[signer], cur.Stake[signer]
			if !stakeTx && ps != nil && cs != nil && ps.Cmp(cs) == 0 && prev.MinStake != nil {
				m.evalStake++
				if ps.Cmp(prev.MinStake) < 0 {
					return pbt.Violf("C07/guard/understaked-reporter-accepted", "block %d: report by %s accepted with bonded stake %s (all selectors, unchanged across the block) below the minimum %s", h, signer, ps, prev.MinStake)
				}
			} else {
				m.skipStake++
			}
			if kind == "deposit" {
				m.depositAcc++
				if haveRound && first && r.Exp <= h && prev.RepCount[r.ID] > 0 {
					m.depositRollover++ // a deposit round that holds reports is reported to at/after its expiry height
				}
				continue
			}
			if !first {
				m.skipRound++
				continue
			}
			m.evalRound++
			switch {
			case !haveRound:
				return pbt.Violf("C07/guard/accepted-without-round", "block %d: report for non-deposit query %s accepted although no round existed before the block and no earlier transaction of the block touched the query", h, q[:12])
			case h > r.Exp:
				return pbt.Violf("C07/guard/accepted-after-window-closed", "block %d: report for query %s accepted although its round %d expired at height %d (amount %s, cycle flag %v) and no earlier transaction of the block touched the query", h, q[:12], r.ID, r.Exp, r.Amount, r.Cycle)
			case r.Amount.Sign() == 0 && prev.CurQid != q:
				sig := "C07/guard/accepted-untipped-unscheduled"
				if m.replaceSeq > 0 && r.ID < m.replaceSeq {
					sig += "/round-opened-before-governance-replaced-cycle-list"
				}
				return pbt.Violf(sig, "block %d: report for query %s accepted although its round %d carries no tip and the scheduled cycle-list query is %.12s (round: expiration %d, cycle flag %v)", h, q[:12], r.ID, prev.CurQid, r.Exp, r.Cycle)
			}
			if r.Exp == h {
				m.exactExpiry++
			}
			m.windowsSeen[r.Window] = true
		}
	}

	// ------------------------------------------------------------ (b) stored reports = previous reports overridden by accepted submits
	atH := map[string][]c07Report{}
	for _, r := range cur.Reports {
		if r.Block == h {
			k := r.Qid + "|" + r.Reporter
			atH[k] = append(atH[k], r)
		}
	}
	aggNow := map[uint64]bool{}
	for _, a := range aggs {
		aggNow[a.MetaID] = true
	}
	for k, rs := range atH {
		// a report enters a round: the round it is stored under exists after the block, or aggregated in this block
		for _, r := range rs {
			if _, open := cur.ByID[r.ID]; !open && !aggNow[r.ID] {
				return pbt.Violf("C07/report/stored-under-nonexistent-round", "block %d: the accepted report %+v is stored under round id %d, but no such round is stored and none was aggregated in this block (it can never be aggregated)", h, r, r.ID)
			}
		}
		v, ok := lastVal[k]
		if !ok {
			return pbt.Violf("C07/report/stored-without-accepted-submit", "block %d: stored report %+v has this block's height but no submit of that reporter for that query was accepted in it", h, rs[0])
		}
		if len(rs) == 1 && rs[0].Value != v {
			return pbt.Violf("C07/report/later-report-did-not-replace", "block %d: reporter's last accepted value for query %.12s is %q but the stored report holds %q (%d accepted submits in the block)", h, rs[0].Qid, v, rs[0].Value, accCount[k])
		}
	}
	for k := range lastVal {
		if len(atH[k]) == 0 {
			for ck, old := range cur.Reports {
				if strings.HasPrefix(ck, k+"|") {
					_, open := prev.ByID[old.ID]
					if p, ok := prev.Reports[ck]; ok && p == old && open {
						return pbt.Violf("C07/report/later-report-did-not-replace", "block %d: submit %s was accepted (last value %q) but the store still holds the reporter's earlier report %+v and no report of this block", h, k, lastVal[k], old)
					}
				}
			}
			return pbt.Violf("C07/report/accepted-submit-not-stored", "block %d: accepted submit %s left no stored report with this block's height", h, k)
		}
		if accCount[k] > 1 {
			m.replacements++
		}
	}
	for k, p := range prev.Reports {
		n, ok := cur.Reports[k]
		if !ok {
			return pbt.Violf("C07/report/stored-report-lost", "block %d: report %+v stored before the block is gone", h, p)
		}
		if n.Block == h {
			m.replacements++
			continue
		}
		if n.Value != p.Value || n.Block != p.Block {
			return pbt.Violf("C07/report/stored-report-changed", "block %d: report %+v changed to %+v without an accepted submit in this block", h, p, n)
		}
	}

	// ------------------------------------------------------------ (c1) aggregates created in this block
	aggCount := map[uint64]int{}
	for _, a := range aggs {
		aggCount[a.MetaID]++
	}
	for _, a := range aggs {
		m.aggregates++
		pr, existed := prev.ByID[a.MetaID]
		if !existed {
			m.windows0++ // opened (tip), reported and aggregated within one block: a window of 0 blocks
		}
		if m.aggregated[a.MetaID] || aggCount[a.MetaID] > 1 {
			return pbt.Violf("C07/aggregate/round-aggregated-twice", "block %d: round %d produced an aggregate although it already produced one (now %d in this block)", h, a.MetaID, aggCount[a.MetaID])
		}
		if !existed && a.MetaID < prev.NextSeq {
			return pbt.Violf("C07/aggregate/unknown-round", "block %d: aggregate carries round id %d, which neither existed before the block nor was handed out in it (next id before the block: %d)", h, a.MetaID, prev.NextSeq)
		}
		if cur.RepCount[a.MetaID] == 0 {
			return pbt.Violf("C07/aggregate/round-without-reports", "block %d: aggregate for round %d, which has no stored report", h, a.MetaID)
		}
		if _, still := cur.ByID[a.MetaID]; still {
			return pbt.Violf("C07/aggregate/round-not-removed", "block %d: round %d produced an aggregate but is still in the store (expiration %d)", h, a.MetaID, cur.ByID[a.MetaID].Exp)
		}
		if existed && prev.RepCount[pr.ID] > 0 && pr.Exp > h {
			return pbt.Violf("C07/aggregate/before-window-closed", "block %d: round %d aggregated although it had reports and expiration %d before the block", h, a.MetaID, pr.Exp)
		}
		seen := map[string]bool{}
		for _, r := range a.Reporters {
			if seen[r] {
				return pbt.Violf("C07/aggregate/reporter-listed-twice", "block %d: aggregate of round %d lists reporter %s twice", h, a.MetaID, r)
			}
			seen[r] = true
		}
		if len(a.Reporters) != cur.RepCount[a.MetaID] {
			return pbt.Violf("C07/aggregate/reporters-differ-from-stored-reports", "block %d: aggregate of round %d lists %d reporters, the store holds %d reports of that round", h, a.MetaID, len(a.Reporters), cur.RepCount[a.MetaID])
		}
	}
	// (c2) no round with reports is left behind its expiry
	for _, r := range cur.ByID {
		if cur.RepCount[r.ID] > 0 && r.Exp <= h {
			return pbt.Violf("C07/round/expired-round-with-reports-not-aggregated", "after block %d round %d of query %.12s has %d reports and expiration %d but is still open (aggregates of it in this block: %d)", h, r.ID, r.Qid, cur.RepCount[r.ID], r.Exp, aggCount[r.ID])
		}
	}
	// (c3) vanished rounds
	for id, r := range prev.ByID {
		if _, still := cur.ByID[id]; still || aggCount[id] == 1 {
			continue
		}
		if cur.RepCount[id] > 0 {
			return pbt.Violf("C07/round/vanished-with-reports-without-aggregate", "block %d: round %d of query %.12s (%d reports) disappeared without an aggregate", h, id, r.Qid, cur.RepCount[id])
		}
		if r.Amount.Sign() != 0 || tippedOK[r.Qid] {
			return pbt.Violf("C07/round/vanished-with-tip", "block %d: round %d of query %.12s disappeared without an aggregate although it carried %s (tipped in this block: %v)", h, id, r.Qid, r.Amount, tippedOK[r.Qid])
		}
	}

	// ------------------------------------------------------------ (d) tips stay with the query and are paid with its next aggregate
	expectedPaid := new(big.Int)
	paidQ := map[string]bool{}
	for _, a := range aggs {
		q := cur.RepQid[a.MetaID]
		if pr, ok := prev.ByID[a.MetaID]; ok {
			q = pr.Qid
		}
		if !paidQ[q] {
			paidQ[q] = true
			// tips that arrived after the next round of the query was already open (a deposit round rolled over by a
			// report in this very block) stay with that round: what the query's remaining rounds carry is still owed
			remaining := new(big.Int)
			for _, r := range cur.Rounds[q] {
				remaining.Add(remaining, r.Amount)
			}
			if m.owed[q] != nil {
				expectedPaid.Add(expectedPaid, new(big.Int).Sub(m.owed[q], remaining))
				if m.owed[q].Sign() > 0 {
					m.tipKept++
				}
			}
			delete(m.owed, q)
			if remaining.Sign() > 0 {
				m.owed[q] = remaining
			}
		}
	}
	paid := new(big.Int).Add(prev.OracleBal, tipNet)
	paid.Sub(paid, cur.OracleBal)
	if paid.Cmp(expectedPaid) != 0 {
		if len(aggs) == 0 {
			return pbt.Violf("C07/tip/oracle-account-moved-without-aggregate", "block %d: the oracle module account paid out %s (balance %s -> %s, net tips received %s) although no aggregate was created", h, paid, prev.OracleBal, cur.OracleBal, tipNet)
		}
		return pbt.Violf("C07/tip/aggregate-paid-wrong-amount", "block %d: %d aggregate(s) of %d tipped-or-not queries: the oracle module account paid out %s but the aggregated queries received %s in net tips since their previous aggregate", h, len(aggs), len(paidQ), paid, expectedPaid)
	}
	qs := map[string]bool{}
	for q := range m.owed {
		qs[q] = true
	}
	for q := range cur.Rounds {
		qs[q] = true
	}
	for q := range qs {
		sum := new(big.Int)
		for _, r := range cur.Rounds[q] {
			sum.Add(sum, r.Amount)
		}
		ow := m.owed[q]
		if ow == nil {
			ow = new(big.Int)
		}
		if cmp := sum.Cmp(ow); cmp != 0 {
			what := "below"
			if cmp > 0 {
				what = "above"
			}
			ctxs := "round-without-reports"
			if r, ok := cur.current(q); ok && cur.RepCount[r.ID] > 0 {
				ctxs = "round-with-reports"
			} else if !ok {
				ctxs = "no-round"
			}
			return pbt.Violf("C07/tip/query-amount-"+what+"-tips-received/"+ctxs, "after block %d the rounds of query %.12s carry %s but the query received %s in net tips since its last aggregate (tipped in this block: %v)", h, q, sum, ow, tippedOK[q])
		}
	}

	// ------------------------------------------------------------ (f) one open round per query
	// a report enters "the" open round of its query: after a block no query has two rounds whose window is still open
	for q, rs := range cur.Rounds {
		open := 0
		var ids []uint64
		for _, r := range rs {
			if r.Exp > h {
				open++
				ids = append(ids, r.ID)
			}
		}
		if open > 1 {
			return pbt.Violf("C07/round/two-open-rounds", "after block %d query %.12s has %d rounds with an open window (ids %v): reports of one query are split over parallel rounds", h, q, open, ids)
		}
	}

	// ------------------------------------------------------------ (e) rotation
	if c07HasEvent(br, "cyclelist_updated") > 0 {
		m.govListUpdates++
		m.replaceSeq = cur.NextSeq
		// the replacement schedules the first entry of the new list; the rotation that follows in the same EndBlock may
		// leave it only if it has no open window
		if len(cur.CycleKeys) > 1 && cur.CurQid != cur.CycleKeys[0] {
			for _, r := range cur.Rounds[cur.CycleKeys[0]] {
				if r.Exp > h {
					return pbt.Violf("C07/cycle/rotated-while-window-open/after-replacement", "block %d: governance replaced the cycle list; its first entry %.12s has round %d open until height %d (amount %s) but the scheduled query after the block is %.12s", h, cur.CycleKeys[0], r.ID, r.Exp, r.Amount, cur.CurQid)
				}
			}
		}
	} else if prev.CurQid != "" && cur.CurQid != prev.CurQid && strings.Join(prev.CycleKeys, ",") == strings.Join(cur.CycleKeys, ",") {
		m.rotations++
		for _, r := range cur.Rounds[prev.CurQid] {
			if r.Exp > h {
				return pbt.Violf("C07/cycle/rotated-while-window-open", "block %d: the scheduled query moved from %.12s to %.12s although round %d of the old query is open until height %d (amount %s)", h, prev.CurQid, cur.CurQid, r.ID, r.Exp, r.Amount)
			}
		}
		i := sort.SearchStrings(prev.CycleKeys, prev.CurQid)
		want := prev.CycleKeys[(i+1)%len(prev.CycleKeys)]
		if cur.CurQid != want {
			return pbt.Violf("C07/cycle/rotation-out-of-order", "block %d: the scheduled query moved from %.12s (position %d of %d) to %.12s, its successor in key order is %.12s", h, prev.CurQid, i, len(prev.CycleKeys), cur.CurQid, want)
		}
	}

	for _, a := range aggs {
		m.aggregated[a.MetaID] = true
	}
	m.prev = cur
	return nil
}

func (m *roundsMonitor) Classify(info *pbt.CaseInfo) {
	info.Nontrivial = (m.exactExpiry > 0 || m.retips > 0 || m.depositAcc > 0) && m.rotations >= 3
	flag := func(name string, n int) {
		if n > 0 {
			info.Classes = append(info.Classes, name)
		}
	}
	flag("report-at-expiry-height", m.exactExpiry)
	flag("report-at-expiry+1-rejected", m.lateByOne)
	flag("retip-after-expiry", m.retips)
	flag("tip-on-round-with-reports", m.tipOnReported)
	flag("tip-paid-with-aggregate", m.tipKept)
	flag("deposit-report-accepted", m.depositAcc)
	flag("withdrawal-report-attempt", m.withdrawTry)
	flag("jailed-reporter-attempt", m.jailedTry)
	flag("replacement", m.replacements)
	flag("aggregate", m.aggregates)
	flag("round-opened-reported-aggregated-in-one-block", m.windows0)
	for wdw := range m.windowsSeen {
		info.Classes = append(info.Classes, fmt.Sprintf("reported-round-window=%d", min(wdw, 5)))
	}
	flag("gov-cyclelist-replaced", m.govListUpdates)
	flag("rotations>=3", m.rotations/3)
	flag("guard-round-evaluated", m.evalRound)
	flag("guard-round-not-evaluated", m.skipRound)
	flag("guard-stake-evaluated", m.evalStake)
	flag("guard-stake-not-evaluated", m.skipStake)
	flag("guard-jail-evaluated", m.evalJail)
	flag("unexpected-rejection(counted)", m.unexpectedReject)
	for k := range m.rejectWhy {
		info.Classes = append(info.Classes, "unexpected-rejection: "+k)
	}
	info.Classes = append(info.Classes, fmt.Sprintf("accepted-reports>=%d", min(m.accepted/5*5, 30)))
}

// ---------------------------------------------------------------- profile

func roundsProfile() *Profile {
	idx := map[string]int{}
	for i, q := range BuildCatalog() {
		idx[q.Name] = i
	}
	tipTargets := []int{idx["cycle0"], idx["cycle1"], idx["cycle2"], idx["cycle0"], idx["cycle1"], idx["cycle2"], idx["spot-ltc"], idx["verifmed-1"], idx["verifmed-1"],
		idx["verifmode-1"], idx["verifzero-1"], idx["verifmed-2"], idx["deposit-1"], idx["withdraw-1"]}
	w := map[string]int{
		OpTip: 24, OpSubmit: 44, OpRegisterSpec: 1, OpGov: 6, OpPropose: 5, OpUnjailReporter: 2, OpCreateReporter: 2, OpSelectReporter: 2,
		OpUndelegate: 2, OpDelegate: 1, OpVote: 1, OpWithdrawTip: 1,
	}
	p := &Profile{Name: "rounds", Weights: w, MinBlocks: 10, MaxBlocks: 36, MaxOps: 5, AbsentPM: 20, BadVarPM: 40, Setup: true, ThoroughScale: 2,
		GapW: []int{2, 2, 10, 22, 8, 4, 4, 1, 1, 0, 0, 0, 0, 0}}
	lastTip := idx["verifzero-1"] // catalog index of the most recently drawn tip (reset per case by the Genesis hook, which GenHistory calls first)
	p.Genesis = func(t *rapid.T) GenesisCfg {
		lastTip = idx["verifzero-1"]
		g := GenGenesis(t)
		if uni(t, "shortVoting", 4) != 0 {
			g.VotingSecs = 60
		}
		return g
	}
	// every history starts by registering the custom query types (windows 0-4, verifzero always 0) so that the
	// catalog's custom queries can be tipped and reported from the start
	p.Prefix = func(pick func(label string, n int) int) []Block {
		blocks := []Block{{Gap: GapSpec{Kind: 2}, Ops: []Op{
			{K: OpRegisterSpec, A: pick("regActor", 8), R: [3]int{0, pick("winMed", 5), 8}},
			{K: OpRegisterSpec, A: pick("regActor", 8), R: [3]int{1, pick("winMode", 5), 8}},
			{K: OpRegisterSpec, A: pick("regActor", 8), R: [3]int{4, 0, 8}},
		}}}
		if pick("govThenTip", 4) == 0 {
			// one case in four: governance replaces the cycle list by one that starts with a spot-price query, and that
			// query is tipped in (or just before) the block in which the proposal executes: the newly scheduled query
			// then has an open round that was opened by a tip, not by the rotation
			first := 3 + pick("firstOfNewList", 2) // catalog: spot-ltc / spot-xyz
			// (the list is kept in key order, so which entry comes first is not known here: one or both spot queries are tipped)
			tips := []Op{{K: OpTip, A: 100 + pick("tipper", 5), R: [3]int{first, 0, 0}, Amt: Amount{Kind: AmtAbs, N: 1_000_000}}}
			if pick("tipBoth", 2) == 0 {
				tips = append(tips, Op{K: OpTip, A: 100 + pick("tipper2", 5), R: [3]int{7 - first, 0, 0}, Amt: Amount{Kind: AmtAbs, N: 2_000_000}})
			}
			b2 := Block{Gap: GapSpec{Kind: 4}}
			b1 := Block{Gap: GapSpec{Kind: 2}}
			if pick("tipBlock", 2) == 0 {
				b2.Ops = tips
			} else {
				b1.Gap = GapSpec{Kind: 4, Delta: -2000} // 58 s: one block before the voting period ends
				b1.Ops = tips
				b2.Gap = GapSpec{Kind: 3}
			}
			blocks = append(blocks,
				Block{Gap: GapSpec{Kind: 2}, Ops: []Op{{K: OpGov, A: 100 + pick("govActor", 5), V: 2, R: [3]int{0, pick("listLen", 4), first}}}},
				b1, b2)
		}
		return blocks
	}
	p.Shape = func(t *rapid.T, op *Op) {
		switch op.K {
		case OpTip:
			if uni(t, "tipFocus", 8) != 0 {
				op.R[0] = pick(t, "tipTarget", tipTargets)
			}
			lastTip = mod(op.R[0], len(idx))
		case OpSubmit:
			switch uni(t, "submitShape", 12) {
			case 0: // bridge-withdrawal query, plain reference
				op.R[0], op.R[1] = idx["withdraw-1"], 8*uni(t, "val", 8)
			case 1, 2, 3, 4, 5: // prefer the first reportable queries of the catalog (cycle list, tipped spot/custom rounds) over deposits
				op.R[0] = uni(t, "firstOpen", 3)
			case 6, 7: // the query tipped last (often in the same block: a tip that opens the round for this report; the only way into a window of 0 blocks)
				op.R[0], op.R[1] = lastTip, 8*uni(t, "val", 8)
			}
			if uni(t, "jailedToo", 4) == 0 {
				op.R[2] = 1 + 16*uni(t, "rcpt", 4) // signer pool includes jailed reporters
			}
		case OpGov:
			op.V = pick(t, "govVariant", []int{2, 2, 2, 3, 3, 3, 3, 0, 1})
		case OpUndelegate:
			if op.Amt.Kind == AmtOfHeadDn {
				op.Amt = Amount{Kind: AmtOfStake, N: pick(t, "pm", []int64{1000, 500, 999})}
			}
		}
	}
	return p
}

func TestC07_Rounds(t *testing.T) {
	runHistoryProp(t, "C07", "TestC07_Rounds",
		"histories of 10-36 blocks x 0-5 transactions (tips, reports incl. re-reports, deposits with/without tips, withdrawal queries, custom specs with windows 0-4 registered up front, governance replacement of the cycle list and of report windows, disputes that jail reporters, unjail, undelegation), reports placed by late binding on rounds that expire at h-1, h or later; reference round model over consecutive committed states; non-trivial = (>=1 accepted report at exactly the expiry height or >=1 re-tip of an expired unreported round or >=1 accepted deposit report) and >=3 cycle-list rotations; distinct by SHA-256 of the history JSON",
		roundsProfile(), func() Monitor { return newRoundsMonitor() })
}

// ---------------------------------------------------------------- long rounds: untipped bridge-deposit rounds last 2000 blocks

// genLongDeposit places deposit reports around the expiry height of an untipped deposit round (opened by a direct
// report, hard-coded window of 2000 blocks): the blocks in between are operation-free (Block.Idle).
func genLongDeposit(rt *rapid.T) History {
	p := roundsProfile()
	p.MinBlocks, p.MaxBlocks, p.ThoroughScale = 2, 6, 1
	h := GenHistory(rt, p, false)
	nActors := h.Genesis.NumValidators + h.Genesis.NumUsers
	dep := 11 + uni(rt, "depositQuery", 3) // catalog: deposit-1..3
	sub := func(label string) Op {
		return Op{K: OpSubmit, A: uni(rt, label+"Actor", nActors), R: [3]int{dep, 8 * uni(rt, label+"Val", 8), 1 + 2*uni(rt, label+"Rcpt", 3) + 8*uni(rt, label+"Pool", 3)}}
	}
	subs := func(label string, lo, hi int) []Op {
		var ops []Op
		n := rapid.IntRange(lo, hi).Draw(rt, label+"N")
		for i := 0; i < n; i++ {
			ops = append(ops, sub(fmt.Sprintf("%s%d", label, i)))
		}
		return ops
	}
	a := Block{Gap: GapSpec{Kind: 2}, Ops: subs("open", 1, 2)}
	h.Blocks = append(h.Blocks, a)
	n1 := uni(rt, "fillers", 3)
	for i := 0; i < n1; i++ {
		b := Block{Gap: GapSpec{Kind: 2}, Ops: subs(fmt.Sprintf("fill%d", i), 0, 1)}
		if uni(rt, "fillTip", 8) == 0 {
			b.Ops = append(b.Ops, Op{K: OpTip, A: uni(rt, "tipper", nActors), R: [3]int{dep, 8, 0}, Amt: Amount{Kind: AmtAbs, N: 1_000_000}})
		}
		h.Blocks = append(h.Blocks, b)
	}
	delta := []int{-1, 0, 0, 0, 1}[uni(rt, "delta", 5)]
	b := Block{Gap: GapSpec{Kind: 2}, Idle: 1999 - n1 + delta, Ops: subs("edge", 1, 3)}
	if uni(rt, "edgeTip", 8) == 0 {
		b.Ops = append([]Op{{K: OpTip, A: uni(rt, "tipper2", nActors), R: [3]int{dep, 8, 0}, Amt: Amount{Kind: AmtAbs, N: 1_000_000}}}, b.Ops...)
	}
	if uni(rt, "edgeTipAfter", 4) == 0 {
		// a tip that arrives in the edge block after the reports: it belongs to the round that is open then
		b.Ops = append(b.Ops, Op{K: OpTip, A: uni(rt, "tipper3", nActors), R: [3]int{dep, 8, 0}, Amt: Amount{Kind: AmtAbs, N: 1_000_000}})
	}
	h.Blocks = append(h.Blocks, b)
	for i := 0; i < 1+uni(rt, "after", 3); i++ {
		h.Blocks = append(h.Blocks, Block{Gap: GapSpec{Kind: 2}, Ops: subs(fmt.Sprintf("after%d", i), 0, 2)})
	}
	h.Blocks = append(h.Blocks, Block{Gap: GapSpec{Kind: 2}}, Block{Gap: GapSpec{Kind: 2}})
	return h
}

func TestC07_LongDepositRound(t *testing.T) {
	pbt.Run(t, pbt.Prop[History]{Property: "C07", Name: "TestC07_LongDepositRound",
		Rule: "a short generated prefix, then 1-2 direct reports open an untipped bridge-deposit round (window 2000 blocks), ~2000 operation-free blocks, further deposit reports one block before / exactly at / one block after the round's expiry height (sometimes preceded by a tip), more reports afterwards; same reference round model as TestC07_Rounds; non-trivial = >=1 deposit report accepted at or after the expiry height of a round that held reports; distinct by SHA-256 of the history JSON",
		Gen: genLongDeposit,
		Check: func(h History, info *pbt.CaseInfo, st *pbt.Stats) error {
			mon := newRoundsMonitor()
			rs, _, v, err := RunHistory(h, mon)
			if err != nil {
				return err
			}
			mon.Classify(info)
			info.Nontrivial = mon.depositRollover > 0
			if mon.depositRollover > 0 {
				info.Classes = append(info.Classes, "deposit-report-at-or-after-expiry-of-reported-round")
			}
			st.Count("blocks", int64(rs.Blocks))
			st.Count("ops_accepted", int64(rs.OpsOK))
			if rs.HarnessStop {
				st.Count("harness_stops", 1)
			}
			for k, n := range rs.ByKindOK {
				st.Count("ok/"+k, int64(n))
			}
			for k, n := range rs.ByKindFail {
				st.Count("rejected/"+k, int64(n))
			}
			if v != nil {
				return v
			}
			return nil
		}})
}
