package chain

// C05 — the staked-token ledger is always backed by the staking pools.
// Oracle: state invariants recomputed from the store alone after every block (sound by
// construction): pool balances >= what validators and unbonding entries record, the SDK's
// exported staking invariants, and the per-backer records of escrowed stake / fee-from-stake
// summing to their recorded totals and to the amount that actually left the pools.

import (
	"fmt"
	"strings"
	"testing"

	"cosmossdk.io/math"

	authtypes "github.com/cosmos/cosmos-sdk/x/auth/types"
	stakingkeeper "github.com/cosmos/cosmos-sdk/x/staking/keeper"
	stakingtypes "github.com/cosmos/cosmos-sdk/x/staking/types"

	reportertypes "github.com/tellor-io/layer/x/reporter/types"

	"pgregory.net/rapid"

	"verif/harness/pbt"
)

type poolState struct {
	bondedBal, notBondedBal   math.Int
	bondedTokens, notBondedTk math.Int // validator tokens by status
	ubdTotal                  math.Int
}

func readPools(c *Chain) poolState {
	ctx := c.Ctx()
	ps := poolState{bondedTokens: math.ZeroInt(), notBondedTk: math.ZeroInt(), ubdTotal: math.ZeroInt()}
	ps.bondedBal = c.App.BankKeeper.GetBalance(ctx, authtypes.NewModuleAddress(stakingtypes.BondedPoolName), BondDenom).Amount
	ps.notBondedBal = c.App.BankKeeper.GetBalance(ctx, authtypes.NewModuleAddress(stakingtypes.NotBondedPoolName), BondDenom).Amount
	vals, _ := c.App.StakingKeeper.GetAllValidators(ctx)
	for _, v := range vals {
		if v.IsBonded() {
			ps.bondedTokens = ps.bondedTokens.Add(v.Tokens)
		} else {
			ps.notBondedTk = ps.notBondedTk.Add(v.Tokens)
		}
	}
	_ = c.App.StakingKeeper.IterateUnbondingDelegations(ctx, func(_ int64, ubd stakingtypes.UnbondingDelegation) bool {
		for _, e := range ubd.Entries {
			ps.ubdTotal = ps.ubdTotal.Add(e.Balance)
		}
		return false
	})
	return ps
}

func (p poolState) slackBonded() math.Int    { return p.bondedBal.Sub(p.bondedTokens) }
func (p poolState) slackNotBonded() math.Int { return p.notBondedBal.Sub(p.notBondedTk).Sub(p.ubdTotal) }

type stakeMonitor struct {
	BaseMonitor
	escrows, returns, stakingBetween int
	sawEscrow                         bool
	returnedEntries                   int64 // entries put back so far (each may leave one smallest unit in the pool)
	prevRecs                          map[string]int
	knownNegative                     int
	prev                              poolState
}

func (m *stakeMonitor) Init(c *Chain, w *World) *pbt.Violation {
	m.prev = readPools(c)
	return nil
}

// blockTags summarises what happened in a block, for signatures.
func blockTags(br *BlockResult, outs []TxOutcome) string {
	tags := map[string]bool{}
	if br.Finalize != nil {
		for _, ev := range br.Finalize.Events {
			if ev.Type == "dispute_executed" {
				for _, a := range ev.Attributes {
					if a.Key == "vote_result" {
						tags["executed:"+strings.ToLower(a.Value)] = true
					}
				}
			}
		}
	}
	for _, o := range outs {
		if o.OK() && !o.Tx.House {
			switch o.Tx.Op.K {
			case OpPropose, OpAddFee, OpFeeRefund, OpWithdrawTip, OpVote, OpClaimReward:
				tag := o.Tx.Op.K
				if m, ok := o.Tx.Note["frombond"]; ok && m.(bool) {
					tag += ":frombond"
				}
				tags[tag] = true
			}
		}
	}
	var ks []string
	for k := range tags {
		ks = append(ks, k)
	}
	sortStrings(ks)
	if len(ks) == 0 {
		return "no-dispute-activity"
	}
	return strings.Join(ks, "+")
}

func (m *stakeMonitor) After(c *Chain, w *World, br *BlockResult, outs []TxOutcome) *pbt.Violation {
	if br.Halt != nil {
		return nil // halts belong to C02
	}
	ctx := c.Ctx()
	tags := blockTags(br, outs)
	for _, o := range outs {
		if !o.OK() {
			continue
		}
		switch o.Tx.Op.K {
		case OpPropose, OpAddFee:
			m.escrows++
			m.sawEscrow = true
		case OpDelegate, OpUndelegate, OpRedelegate, OpCancelUnbond, OpMultiStake, OpCreateVal:
			if m.sawEscrow {
				m.stakingBetween++
			}
		case OpFeeRefund, OpWithdrawTip:
			m.returns++
		}
	}
	if strings.Contains(tags, "executed:") {
		m.returns++
	}
	// entries put back in this block: the per-backer entries of every stake record (escrowed stake, fee paid from
	// stake) that existed before the block and is gone after it; each may leave one smallest unit in the pool
	recsNow := map[string]int{}
	_ = c.App.ReporterKeeper.DisputedDelegationAmounts.Walk(ctx, nil, func(k []byte, da reportertypes.DelegationsAmounts) (bool, error) {
		recsNow["escrow|"+string(k)] = len(da.TokenOrigins)
		return false, nil
	})
	_ = c.App.ReporterKeeper.FeePaidFromStake.Walk(ctx, nil, func(k []byte, da reportertypes.DelegationsAmounts) (bool, error) {
		recsNow["fee|"+string(k)] = len(da.TokenOrigins)
		return false, nil
	})
	for k, n := range m.prevRecs {
		if _, still := recsNow[k]; !still {
			m.returnedEntries += int64(n)
		}
	}
	// a fee-from-stake record created and returned within one block is in neither snapshot: allowed for by the payment
	for _, o := range outs {
		if o.OK() && (o.Tx.Op.K == OpPropose || o.Tx.Op.K == OpAddFee) {
			if fb, ok := o.Tx.Note["frombond"].(bool); ok && fb {
				m.returnedEntries += 4
			}
		}
	}
	m.prevRecs = recsNow
	ps := readPools(c)
	if ps.slackBonded().IsNegative() {
		return pbt.Violf("C05/bonded-pool-underfunded/"+tags, "block %d: bonded pool holds %s but bonded validators record %s tokens (before the block: %s / %s)",
			br.Height, ps.bondedBal, ps.bondedTokens, m.prev.bondedBal, m.prev.bondedTokens)
	}
	if ps.slackNotBonded().IsNegative() {
		return pbt.Violf("C05/not-bonded-pool-underfunded/"+tags, "block %d: not-bonded pool holds %s but unbonding/unbonded validators record %s and unbonding entries %s (before: %s / %s / %s)",
			br.Height, ps.notBondedBal, ps.notBondedTk, ps.ubdTotal, m.prev.notBondedBal, m.prev.notBondedTk, m.prev.ubdTotal)
	}
	// surplus bound: "at most one smallest unit per returned entry stays in the pool"
	if surplus := ps.slackBonded().Add(ps.slackNotBonded()); surplus.GT(math.NewInt(m.returnedEntries)) {
		return pbt.Violf("C05/pool-surplus/"+tags, "block %d: pools hold %s more than the staking ledger records, but only <=%d entries were returned so far (bonded %s vs %s, not-bonded %s vs %s+%s)",
			br.Height, surplus, m.returnedEntries, ps.bondedBal, ps.bondedTokens, ps.notBondedBal, ps.notBondedTk, ps.ubdTotal)
	}
	for name, inv := range map[string]func() (string, bool){
		"non-negative-power":  func() (string, bool) { return stakingkeeper.NonNegativePowerInvariant(c.App.StakingKeeper)(ctx) },
		"positive-delegation": func() (string, bool) { return stakingkeeper.PositiveDelegationInvariant(c.App.StakingKeeper)(ctx) },
		"delegator-shares":    func() (string, bool) { return stakingkeeper.DelegatorSharesInvariant(c.App.StakingKeeper)(ctx) },
	} {
		if msg, broken := inv(); broken {
			return pbt.Violf("C05/sdk-invariant-"+name+"/"+tags, "block %d: %s", br.Height, msg)
		}
	}
	// per-backer records sum to their recorded total
	var v *pbt.Violation
	check := func(kind string, key []byte, da reportertypes.DelegationsAmounts) {
		sum := math.ZeroInt()
		for _, o := range da.TokenOrigins {
			sum = sum.Add(o.Amount)
			if o.Amount.IsNegative() && v == nil {
				sig := "C05/" + kind + "-negative-origin/" + tags
				if kind == "escrow" && o.Amount.Abs().LTE(math.NewInt(int64(len(da.TokenOrigins)))) {
					// at most one unit per entry below zero: the remainder that EscrowReporterStake books on the last backer
					// after every share was computed against power*10^6 instead of the recorded stake (finding F-C11-1)
					sig = "C05/escrow-negative-origin/rounding-remainder-on-last-backer"
					if pbt.IsKnown("C05", sig) {
						m.knownNegative++
						continue
					}
				}
				v = pbt.Violf(sig, "block %d: %s record %x has a negative per-backer amount %s", br.Height, kind, key, o.Amount)
			}
		}
		if !sum.Equal(da.Total) && v == nil {
			v = pbt.Violf("C05/"+kind+"-record-sum/"+tags, "block %d: %s record %x: per-backer amounts sum to %s but the recorded total is %s", br.Height, kind, key, sum, da.Total)
		}
	}
	_ = c.App.ReporterKeeper.DisputedDelegationAmounts.Walk(ctx, nil, func(k []byte, da reportertypes.DelegationsAmounts) (bool, error) {
		check("escrow", k, da)
		return false, nil
	})
	_ = c.App.ReporterKeeper.FeePaidFromStake.Walk(ctx, nil, func(k []byte, da reportertypes.DelegationsAmounts) (bool, error) {
		check("fee-from-stake", k, da)
		return false, nil
	})
	if v != nil {
		return v
	}
	m.prev = ps
	return nil
}

func (m *stakeMonitor) Classify(info *pbt.CaseInfo) {
	info.Nontrivial = m.escrows > 0 && m.returns > 0 && m.stakingBetween > 0
	if m.escrows > 0 {
		info.Classes = append(info.Classes, "escrow")
	}
	if m.returns > 0 {
		info.Classes = append(info.Classes, "return")
	}
	if m.stakingBetween > 0 {
		info.Classes = append(info.Classes, "staking-event-after-escrow")
	}
	info.Classes = append(info.Classes, fmt.Sprintf("escrows=%d", min(m.escrows, 5)))
}

func stakeProfile() *Profile {
	w := map[string]int{
		OpTip: 8, OpSubmit: 25, OpCreateReporter: 3, OpSelectReporter: 3, OpSwitchReporter: 1, OpWithdrawTip: 5,
		OpPropose: 12, OpAddFee: 6, OpVote: 12, OpFeeRefund: 6, OpClaimReward: 3,
		OpDelegate: 6, OpUndelegate: 8, OpRedelegate: 6, OpCancelUnbond: 3, OpCreateVal: 1, OpUnjailVal: 1, OpUnjailReporter: 3, OpMultiStake: 1,
	}
	p := &Profile{Name: "stake", Weights: w, MinBlocks: 10, MaxBlocks: 35, MaxOps: 5, AbsentPM: 100, BadVarPM: 60, Setup: true, ThoroughScale: 3,
		GapW: []int{2, 2, 8, 20, 3, 3, 2, 2, 6, 6, 6, 1, 2, 0, 5}}
	// validators leaving the bonded set between an escrow / fee payment and its return: in one case of three one or two
	// validators stop signing from a generated block on (they are jailed for downtime after the short signing window
	// and stay out unless a generated unjail brings them back); other blocks keep the occasional absent validator
	doomed, from := []int{}, 0
	scripted, nv := false, 0
	p.Genesis = func(t *rapid.T) GenesisCfg {
		g := GenGenesis(t)
		doomed, from = nil, 0
		scripted, nv = false, g.NumValidators
		if uni(t, "scriptedFeeFromStakeThenJail", 4) == 0 && g.NumValidators >= 5 {
			// scripted start (see Prefix): two backers of one reporter are staked with two small validators, a dispute fee
			// is paid from that stake, both validators are jailed for downtime, the under-funded dispute fails after a
			// day and the fee is refunded to stake whose validators have left the bonded set
			scripted = true
			a := uni(t, "scriptValA", g.NumValidators)
			b := (a + 1 + uni(t, "scriptValB", g.NumValidators-1)) % g.NumValidators
			for i := range g.ValTokens {
				g.ValTokens[i] = 100_000_000
			}
			g.ValTokens[a], g.ValTokens[b] = 20_000_000, 20_000_000
			g.MaxValidators = g.NumValidators + 3
			g.SlashWindow = 2 + int64(uni(t, "slashWindow", 2))
			var ud [][3]int64
			for _, d := range g.UserDelegs {
				if d[0] > 1 {
					ud = append(ud, d)
				}
			}
			g.UserDelegs = append(ud, [3]int64{0, int64(a), 10_000_000}, [3]int64{1, int64(b), 10_000_000})
			doomed, from = []int{a, b}, 0
			return g
		}
		if uni(t, "doomedValidators", 3) == 0 && g.NumValidators >= 4 {
			g.SlashWindow = 2 + int64(uni(t, "slashWindow", 3))
			doomed = append(doomed, uni(t, "doomed0", g.NumValidators))
			if g.NumValidators >= 6 && uni(t, "twoDoomed", 2) == 0 {
				doomed = append(doomed, (doomed[0]+1+uni(t, "doomed1", g.NumValidators-1))%g.NumValidators)
			}
			from = 4 + uni(t, "doomedFrom", 14)
		}
		return g
	}
	p.Prefix = func(pick func(string, int) int) []Block {
		if !scripted {
			return nil
		}
		u0, u1 := nv, nv+1
		absent := []VoteSpec{{Val: doomed[0], Mode: 1}, {Val: doomed[1], Mode: 1}}
		sub := func(i int) Op { return Op{K: OpSubmit, A: pick("scriptReporter", 16), R: [3]int{0, 1 + i, 1 + 2*i}, S: "nodep"} }
		blocks := []Block{
			{Gap: GapSpec{Kind: 2}, Ops: []Op{{K: OpCreateReporter, A: u0, R: [3]int{0, 0, 8}}, sub(0)}},
			{Gap: GapSpec{Kind: 2}, Ops: []Op{{K: OpSelectReporter, A: u1, V: 1, R: [3]int{u0, 0, 8}}, sub(1)}},
			{Gap: GapSpec{Kind: 2}, Ops: []Op{{K: OpSubmit, A: u0, R: [3]int{0, 1, 8}, S: "nodep"}}},
			{Gap: GapSpec{Kind: 2}, Ops: []Op{{K: OpPropose, A: u0, R: [3]int{pick("scriptReport", 4), 0, 3}, V: 1 + pick("scriptCategory", 2), Amt: Amount{Kind: AmtOfNeeded, N: []int64{500, 300, 900}[pick("scriptFeePm", 3)]}}}},
		}
		for i := 0; i < 6; i++ {
			blocks = append(blocks, Block{Gap: GapSpec{Kind: 2}, Votes: absent})
		}
		blocks = append(blocks,
			Block{Gap: GapSpec{Kind: 8, Delta: 1000}}, // a day later the under-funded dispute has failed
			Block{Gap: GapSpec{Kind: 2}, Ops: []Op{{K: OpFeeRefund, A: u0, R: [3]int{0, 0, 8}}}},
			Block{Gap: GapSpec{Kind: 2}})
		return blocks
	}
	p.VoteGen = func(pick func(string, int) int, numVals int, blockIdx int) []VoteSpec {
		var vs []VoteSpec
		if len(doomed) > 0 && blockIdx >= from {
			for _, d := range doomed {
				vs = append(vs, VoteSpec{Val: d, Mode: 1})
			}
		} else if pick("misbehave", 10) == 0 {
			vs = append(vs, VoteSpec{Val: pick("badVal", numVals), Mode: []int{1, 1, 2, 4}[pick("voteMode", 4)]})
		}
		return vs
	}
	return p
}

func TestC05_StakeLedger(t *testing.T) {
	runHistoryProp(t, "C05", "TestC05_StakeLedger",
		"histories mixing delegate/undelegate/redelegate/cancel-unbonding and validator set changes with tips withdrawal, fee-from-stake, slashing in all categories, all dispute outcomes and refunds; pool and record invariants recomputed from the store after every block; non-trivial = >=1 escrow and >=1 return with a staking event of some delegator in between; distinct by SHA-256 of the history JSON",
		stakeProfile(), func() Monitor { return &stakeMonitor{} })
}
