package chain

import (
	"bytes"
	"encoding/hex"
	"fmt"
	"math/big"
	"sort"
	"strconv"
	"strings"
	"time"

	"github.com/ethereum/go-ethereum/accounts/abi"
	"github.com/ethereum/go-ethereum/common"

	"cosmossdk.io/collections"
	"cosmossdk.io/math"

	codectypes "github.com/cosmos/cosmos-sdk/codec/types"
	sdk "github.com/cosmos/cosmos-sdk/types"
	authtypes "github.com/cosmos/cosmos-sdk/x/auth/types"
	banktypes "github.com/cosmos/cosmos-sdk/x/bank/types"
	govtypes "github.com/cosmos/cosmos-sdk/x/gov/types"
	govv1 "github.com/cosmos/cosmos-sdk/x/gov/types/v1"
	slashingtypes "github.com/cosmos/cosmos-sdk/x/slashing/types"
	stakingtypes "github.com/cosmos/cosmos-sdk/x/staking/types"

	bridgetypes "github.com/tellor-io/layer/x/bridge/types"
	disputetypes "github.com/tellor-io/layer/x/dispute/types"
	minttypes "github.com/tellor-io/layer/x/mint/types"
	oracletypes "github.com/tellor-io/layer/x/oracle/types"
	registrytypes "github.com/tellor-io/layer/x/registry/types"
	reportertypes "github.com/tellor-io/layer/x/reporter/types"
)

// ---------------------------------------------------------------- ABI helpers (input construction only)

func mustType(t string) abi.Type {
	ty, err := abi.NewType(t, "", nil)
	if err != nil {
		panic(err)
	}
	return ty
}

func abiPack(types []string, vals ...interface{}) []byte {
	var args abi.Arguments
	for _, t := range types {
		args = append(args, abi.Argument{Type: mustType(t)})
	}
	b, err := args.Pack(vals...)
	if err != nil {
		panic(err)
	}
	return b
}

func QueryData(queryType string, args []byte) []byte {
	return abiPack([]string{"string", "bytes"}, queryType, args)
}

func SpotPriceQuery(asset, cur string) []byte {
	return QueryData("SpotPrice", abiPack([]string{"string", "string"}, asset, cur))
}

func BridgeQuery(toLayer bool, id uint64) []byte {
	return QueryData("TRBBridge", abiPack([]string{"bool", "uint256"}, toLayer, new(big.Int).SetUint64(id)))
}

func CustomQuery(queryType string, n int64) []byte {
	return QueryData(queryType, abiPack([]string{"uint256"}, big.NewInt(n)))
}

func DepositValue(evmSender common.Address, recipient string, amount, tip *big.Int) string {
	return hex.EncodeToString(abiPack([]string{"address", "string", "uint256", "uint256"}, evmSender, recipient, amount, tip))
}

// ---------------------------------------------------------------- catalogs

type QuerySpec struct {
	Name  string
	Data  []byte
	Kind  string // "cycle" | "spot" | "custom" | "deposit" | "withdraw" | "garbage"
	Type  string // query type string
	DepID uint64
}

var customTypes = []string{"verifmed", "verifmode", "VerifMode", "verifbytes", "verifzero"}

func BuildCatalog() []QuerySpec {
	var c []QuerySpec
	for i, d := range oracletypes.InitialCycleList() {
		c = append(c, QuerySpec{Name: fmt.Sprintf("cycle%d", i), Data: d, Kind: "cycle", Type: "SpotPrice"})
	}
	c = append(c, QuerySpec{Name: "spot-ltc", Data: SpotPriceQuery("ltc", "usd"), Kind: "spot", Type: "SpotPrice"})
	c = append(c, QuerySpec{Name: "spot-xyz", Data: SpotPriceQuery("xyz", "abc"), Kind: "spot", Type: "SpotPrice"})
	for _, t := range customTypes {
		c = append(c, QuerySpec{Name: t + "-1", Data: CustomQuery(t, 1), Kind: "custom", Type: t})
	}
	c = append(c, QuerySpec{Name: "verifmed-2", Data: CustomQuery("verifmed", 2), Kind: "custom", Type: "verifmed"})
	for _, id := range []uint64{1, 2, 3, 1<<64 - 1} {
		c = append(c, QuerySpec{Name: fmt.Sprintf("deposit-%d", id), Data: BridgeQuery(true, id), Kind: "deposit", Type: "TRBBridge", DepID: id})
	}
	c = append(c, QuerySpec{Name: "withdraw-1", Data: BridgeQuery(false, 1), Kind: "withdraw", Type: "TRBBridge", DepID: 1})
	c = append(c, QuerySpec{Name: "garbage", Data: []byte{0xde, 0xad, 0xbe, 0xef}, Kind: "garbage"})
	return c
}

// value alphabets -------------------------------------------------------------

func u256hex(n int64) string { return fmt.Sprintf("%064x", n) }

// ValueFor builds a report value for a query; variant selects well-formed / boundary / malformed encodings.
func (w *World) ValueFor(q QuerySpec, op Op) string {
	if op.S != "" && op.V == 99 {
		return op.S // raw value supplied by the generator
	}
	small := int64(op.R[1]%5) + 1 // small alphabet so that duplicates and ties are frequent
	switch q.Kind {
	case "deposit":
		rcpt := w.C.Actors[mod(op.R[2], len(w.C.Actors))].Addr.String()
		amount := new(big.Int).Mul(big.NewInt(small*1_000_000), big.NewInt(1e12)) // small TRB
		tip := new(big.Int).Mul(big.NewInt(int64(op.R[1]%3)*10_000), big.NewInt(1e12))
		evm := common.BytesToAddress([]byte{byte(op.R[2]), 0xee})
		switch op.V {
		case 1: // tip greater than amount
			tip = new(big.Int).Add(amount, big.NewInt(1e12))
		case 2: // amount beyond int64 after /1e12
			amount = new(big.Int).Mul(new(big.Int).Lsh(big.NewInt(1), 63), big.NewInt(1e12))
		case 3: // amount = 2^64 + small, wraps to small positive in int64 arithmetic
			amount = new(big.Int).Mul(new(big.Int).Add(new(big.Int).Lsh(big.NewInt(1), 64), big.NewInt(small*1_000_000)), big.NewInt(1e12))
		case 4:
			rcpt = "tellor1notbech32"
		case 5: // not a multiple of 1e12
			amount.Add(amount, big.NewInt(999_999_999_999))
		case 6: // truncated encoding (still >= 32 bytes so it passes the 'address' validation)
			v := DepositValue(evm, rcpt, amount, tip)
			return v[:128]
		case 7:
			return "0x" + DepositValue(evm, rcpt, amount, tip)
		case 8:
			amount = big.NewInt(0)
			tip = big.NewInt(0)
		}
		return DepositValue(evm, rcpt, amount, tip)
	}
	vt := w.valueTypeOf(q)
	if vt == "string" || vt == "bytes" {
		s := string(rune('a' + small - 1))
		enc := hex.EncodeToString(abiPack([]string{vt}, anyFor(vt, s)))
		switch op.V {
		case 1:
			return "0x" + enc
		case 2:
			return strings.ToUpper(enc)
		case 3:
			return enc[:len(enc)-2]
		}
		return enc
	}
	base := u256hex(small * 1000)
	switch op.V {
	case 1:
		return "0x" + base
	case 2:
		return "0X" + strings.ToUpper(base)
	case 3:
		return strings.ToUpper(u256hex(small*1000 + 0xabcdef))
	case 4:
		return base + u256hex(7) // 64 bytes
	case 5:
		return base[1:] // odd length
	case 6:
		return base[2:] // 31 bytes
	case 7:
		return ""
	case 8:
		return "zz" + base[2:]
	case 9:
		return strings.Repeat("f", 64)
	case 10:
		return "0x"
	}
	return base
}

func anyFor(vt, s string) interface{} {
	if vt == "bytes" {
		return []byte(s)
	}
	return s
}

// ---------------------------------------------------------------- world: what the executor knows at block start

type World struct {
	C       *Chain
	Catalog []QuerySpec
	Reports []oracletypes.MicroReport // stored micro-reports, key order
	Disputes []uint64
	GovProposals []uint64 // proposals in voting period that the validators have not voted on yet (housekeeping)
	Created map[string]bool // validators created by ops (by operator label)
}

func NewWorld(c *Chain) *World {
	return &World{C: c, Catalog: BuildCatalog(), Created: map[string]bool{}}
}

func mod(i, n int) int {
	if n <= 0 {
		return 0
	}
	i %= n
	if i < 0 {
		i += n
	}
	return i
}

// Refresh reads the late-binding tables from the committed state.
func (w *World) Refresh() {
	ctx := w.C.Ctx()
	w.Reports = w.Reports[:0]
	_ = w.C.App.OracleKeeper.Reports.Walk(ctx, nil, func(k collections.Triple[[]byte, []byte, uint64], v oracletypes.MicroReport) (bool, error) {
		w.Reports = append(w.Reports, v)
		return len(w.Reports) >= 400, nil
	})
	w.Disputes = w.Disputes[:0]
	_ = w.C.App.DisputeKeeper.Disputes.Walk(ctx, nil, func(id uint64, _ disputetypes.Dispute) (bool, error) {
		w.Disputes = append(w.Disputes, id)
		return false, nil
	})
}

func (w *World) valueTypeOf(q QuerySpec) string {
	spec, err := w.C.App.RegistryKeeper.GetSpec(w.C.Ctx(), q.Type)
	if err != nil {
		return "uint256"
	}
	return spec.ResponseValueType
}

func (w *World) actor(i int) *Actor { return w.C.Actors[mod(i, len(w.C.Actors))] }

func (w *World) validator(i int) *Validator { return w.C.Validators[mod(i, len(w.C.Validators))] }

func (w *World) query(i int) QuerySpec { return w.Catalog[mod(i, len(w.Catalog))] }

// reporterActors lists actors that are registered reporters, in actor order.
func (w *World) reporterActors() []*Actor {
	ctx := w.C.Ctx()
	var out []*Actor
	for _, a := range w.C.Actors {
		if ok, _ := w.C.App.ReporterKeeper.Reporters.Has(ctx, a.Addr.Bytes()); ok {
			out = append(out, a)
		}
	}
	return out
}

func (w *World) balance(a *Actor) math.Int {
	return w.C.App.BankKeeper.GetBalance(w.C.Ctx(), a.Addr, BondDenom).Amount
}

// resolveAmount turns an amount spec into loya.
func (w *World) resolveAmount(a Amount, signer *Actor, val *Validator, disputeID uint64) math.Int {
	var base math.Int
	ctx := w.C.Ctx()
	switch a.Kind {
	case AmtAbs:
		return math.NewInt(a.N).AddRaw(a.Delta)
	case AmtOfBalance:
		base = w.balance(signer)
	case AmtOfStake:
		base = math.ZeroInt()
		if val != nil {
			if d, err := w.C.App.StakingKeeper.GetDelegation(ctx, signer.Addr, val.ValAddr); err == nil {
				if v, err := w.C.App.StakingKeeper.GetValidator(ctx, val.ValAddr); err == nil {
					base = v.TokensFromShares(d.Shares).TruncateInt()
				}
			}
		}
	case AmtOfHeadUp, AmtOfHeadDn:
		tr, err := w.C.App.ReporterKeeper.Tracker.Get(ctx)
		bonded, _ := w.C.App.StakingKeeper.TotalBondedTokens(ctx)
		if err != nil {
			base = math.ZeroInt()
		} else if a.Kind == AmtOfHeadUp {
			base = tr.Amount.Add(tr.Amount.QuoRaw(20)).Sub(bonded)
		} else {
			base = bonded.Sub(tr.Amount.Sub(tr.Amount.QuoRaw(20)))
		}
		if base.IsNegative() {
			base = math.ZeroInt()
		}
	case AmtOfNeeded:
		base = math.ZeroInt()
		if d, err := w.C.App.DisputeKeeper.Disputes.Get(ctx, disputeID); err == nil {
			if d.DisputeStatus == disputetypes.Prevote {
				base = d.SlashAmount.Sub(d.FeeTotal)
			} else {
				// round fee: 5% * 2^round capped at slash amount
				five := d.SlashAmount.QuoRaw(20)
				f := five.Mul(math.NewIntFromBigInt(new(big.Int).Lsh(big.NewInt(1), uint(d.DisputeRound))))
				if f.GT(d.SlashAmount) {
					f = d.SlashAmount
				}
				base = f
			}
		}
	}
	return base.MulRaw(a.N).QuoRaw(1000).AddRaw(a.Delta)
}

func coin(x math.Int) sdk.Coin {
	if x.IsNegative() {
		// sdk.Coin with a negative amount cannot be constructed by honest clients; keep the raw struct so the chain rejects it
		return sdk.Coin{Denom: BondDenom, Amount: x}
	}
	return sdk.Coin{Denom: BondDenom, Amount: x}
}

// BuiltTx is a transaction together with what the monitors need to know about it.
type BuiltTx struct {
	Op     Op
	Signer *Actor
	Msgs   []sdk.Msg
	Bytes  []byte
	Note   map[string]any
	House  bool // housekeeping tx added by the executor (gov votes), not part of the generated ops
}

func govAuthority() string { return authtypes.NewModuleAddress(govtypes.ModuleName).String() }

// PrivMsg builds one of the privileged messages with the given authority string.
func (w *World) PrivMsg(variant int, authority string, op Op) sdk.Msg {
	switch mod(variant, 7) {
	case 0:
		return &minttypes.MsgInit{Authority: authority}
	case 1:
		p := oracletypes.DefaultParams()
		p.MinStakeAmount = math.NewInt([]int64{1_000_000, 2_000_000, 500_000, 1}[mod(op.R[1], 4)])
		return &oracletypes.MsgUpdateParams{Authority: authority, Params: p}
	case 2:
		// cycle list replacement: subsets / supersets of the catalog (only decodable, registered-type queries unless R[2]%5==4)
		var list [][]byte
		n := mod(op.R[1], 4) + 1
		for i := 0; i < n; i++ {
			q := w.Catalog[mod(op.R[2]+i, 5)]
			list = append(list, q.Data)
		}
		if mod(op.R[2], 7) == 6 {
			list = append(list, CustomQuery("verifmed", 1))
		}
		return &oracletypes.MsgUpdateCyclelist{Authority: authority, Cyclelist: list}
	case 3:
		if op.S == "trbbridge-window" {
			// shorten the report window of tipped bridge-deposit rounds (rounds opened by a direct report keep the
			// hard-coded 2000 blocks): the stored spec with only ReportBlockWindow changed
			if spec, err := w.C.App.RegistryKeeper.GetSpec(w.C.Ctx(), "trbbridge"); err == nil {
				spec.ReportBlockWindow = uint64(mod(op.R[1], 3))
				return &registrytypes.MsgUpdateDataSpec{Authority: authority, QueryType: "TRBBridge", Spec: spec}
			}
		}
		spec := registrytypes.GenesisDataSpec()
		spec.ReportBlockWindow = uint64(mod(op.R[1], 5))
		qt := []string{"SpotPrice", "spotprice", "verifmed", "verifmode"}[mod(op.R[2], 4)]
		if qt == "verifmode" {
			spec.ResponseValueType = "string"
			spec.AggregationMethod = "weighted-mode"
		}
		return &registrytypes.MsgUpdateDataSpec{Authority: authority, QueryType: qt, Spec: spec}
	case 4:
		p := reportertypes.DefaultParams()
		p.MaxSelectors = uint64([]int{100, 1, 2, 3}[mod(op.R[1], 4)])
		p.MinTrb = math.NewInt([]int64{1_000_000, 2_000_000, 1}[mod(op.R[2], 3)])
		return &reportertypes.MsgUpdateParams{Authority: authority, Params: p}
	case 5:
		return &bridgetypes.MsgUpdateSnapshotLimit{Authority: authority, Limit: uint64(mod(op.R[1], 4))}
	default:
		return &disputetypes.MsgUpdateTeam{CurrentTeamAddress: authority, NewTeamAddress: w.actor(op.R[1]).Addr.String()}
	}
}

func (w *World) stakingMsg(kind string, signer *Actor, op Op) sdk.Msg {
	val := w.validator(op.R[0])
	amt := w.resolveAmount(op.Amt, signer, val, 0)
	switch kind {
	case OpDelegate:
		return &stakingtypes.MsgDelegate{DelegatorAddress: signer.Addr.String(), ValidatorAddress: val.ValAddr.String(), Amount: coin(amt)}
	case OpUndelegate:
		return &stakingtypes.MsgUndelegate{DelegatorAddress: signer.Addr.String(), ValidatorAddress: val.ValAddr.String(), Amount: coin(amt)}
	case OpRedelegate:
		dst := w.validator(op.R[1])
		return &stakingtypes.MsgBeginRedelegate{DelegatorAddress: signer.Addr.String(), ValidatorSrcAddress: val.ValAddr.String(), ValidatorDstAddress: dst.ValAddr.String(), Amount: coin(amt)}
	case OpCancelUnbond:
		// creation height: the k-th unbonding entry of (signer,val) if any
		h := int64(op.R[1])
		if ubd, err := w.C.App.StakingKeeper.GetUnbondingDelegation(w.C.Ctx(), signer.Addr, val.ValAddr); err == nil && len(ubd.Entries) > 0 {
			e := ubd.Entries[mod(op.R[1], len(ubd.Entries))]
			h = e.CreationHeight
			if op.Amt.Kind == AmtOfStake {
				amt = e.Balance.MulRaw(op.Amt.N).QuoRaw(1000).AddRaw(op.Amt.Delta)
			}
		}
		return &stakingtypes.MsgCancelUnbondingDelegation{DelegatorAddress: signer.Addr.String(), ValidatorAddress: val.ValAddr.String(), Amount: coin(amt), CreationHeight: h}
	}
	return nil
}

// Build turns one op into a signed transaction, resolving references against the committed state.
func (w *World) Build(op Op) (*BuiltTx, error) {
	c := w.C
	signer := w.smartSigner(op)
	bt := &BuiltTx{Op: op, Signer: signer, Note: map[string]any{}}
	gas := uint64(3_000_000)
	switch op.K {
	case OpTip:
		q := w.query(op.R[0])
		amt := w.resolveAmount(op.Amt, signer, nil, 0)
		bt.Note["query"] = q.Name
		bt.Msgs = []sdk.Msg{&oracletypes.MsgTip{Tipper: signer.Addr.String(), QueryData: q.Data, Amount: coin(amt)}}
	case OpSubmit:
		q := w.smartQuery(op)
		val := w.ValueFor(q, op)
		bt.Note["query"] = q.Name
		bt.Note["value"] = val
		bt.Msgs = []sdk.Msg{&oracletypes.MsgSubmitValue{Creator: signer.Addr.String(), QueryData: q.Data, Value: val}}
	case OpRegisterSpec:
		qt := customTypes[mod(op.R[0], len(customTypes))]
		spec := registrytypes.DataSpec{DocumentHash: "doc", ResponseValueType: "uint256", AggregationMethod: "weighted-median",
			AbiComponents: []*registrytypes.ABIComponent{{Name: "id", FieldType: "uint256"}}, ReportBlockWindow: uint64(mod(op.R[1], 5))}
		switch strings.ToLower(qt) {
		case "verifmode":
			spec.ResponseValueType, spec.AggregationMethod = "string", "weighted-mode"
		case "verifbytes":
			spec.ResponseValueType, spec.AggregationMethod = "bytes", "weighted-mode"
		case "verifzero":
			spec.ReportBlockWindow = 0
		}
		switch op.V {
		case 1:
			spec.AggregationMethod = "Weighted-Median"
		case 2:
			spec.ResponseValueType = "UINT256"
		case 3:
			spec.ReportBlockWindow = 1 << 40
		case 4:
			spec.ResponseValueType = "tuple"
		case 5:
			spec.AggregationMethod = "mean"
		case 6: // mode over a numeric type
			spec.ResponseValueType, spec.AggregationMethod = "uint256", "weighted-mode"
		case 7: // re-registration attempts that differ only by surrounding whitespace / case of the query type
			qt = qt + " "
		case 8:
			qt = " " + strings.ToUpper(qt)
		case 9:
			qt = []string{"SpotPrice ", " spotprice", "TRBBridge\t", "trbbridge\n", "SPOTPRICE"}[mod(op.R[2], 5)]
		case 10:
			qt = strings.ToUpper(qt[:1]) + qt[1:]
		}
		bt.Msgs = []sdk.Msg{&registrytypes.MsgRegisterSpec{Registrar: signer.Addr.String(), QueryType: qt, Spec: spec}}
	case OpCreateReporter:
		rates := []string{"0", "0.05", "0.5", "1", "0.000000000000000001", "1.5", "100", "100.000000000000000001", "-0.1", "0.333333333333333333"}
		rate := math.LegacyMustNewDecFromStr(rates[mod(op.V, len(rates))])
		minTok := math.NewInt([]int64{1_000_000, 2_000_000, 999_999, 5_000_000}[mod(op.R[0], 4)])
		bt.Msgs = []sdk.Msg{&reportertypes.MsgCreateReporter{ReporterAddress: signer.Addr.String(), CommissionRate: rate, MinTokensRequired: minTok}}
	case OpSelectReporter, OpSwitchReporter:
		reps := w.reporterActors()
		target := w.actor(op.R[0])
		if len(reps) > 0 && op.V != 1 {
			target = reps[mod(op.R[0], len(reps))]
		}
		if op.K == OpSelectReporter {
			bt.Msgs = []sdk.Msg{&reportertypes.MsgSelectReporter{SelectorAddress: signer.Addr.String(), ReporterAddress: target.Addr.String()}}
		} else {
			bt.Msgs = []sdk.Msg{&reportertypes.MsgSwitchReporter{SelectorAddress: signer.Addr.String(), ReporterAddress: target.Addr.String()}}
		}
	case OpRemoveSelector:
		bt.Msgs = []sdk.Msg{&reportertypes.MsgRemoveSelector{AnyAddress: signer.Addr.String(), SelectorAddress: w.actor(op.R[0]).Addr.String()}}
	case OpUnjailReporter:
		target := signer
		if op.V == 1 {
			target = w.actor(op.R[0])
		}
		bt.Msgs = []sdk.Msg{&reportertypes.MsgUnjailReporter{ReporterAddress: target.Addr.String()}}
		if op.V == 1 {
			// a message whose signer field names someone else fails signature verification; that is the point
			bt.Note["foreign"] = true
		}
	case OpWithdrawTip:
		val := w.validator(op.R[0])
		sel := signer
		if op.V == 1 {
			sel = w.actor(op.R[1])
		}
		bt.Msgs = []sdk.Msg{&reportertypes.MsgWithdrawTip{SelectorAddress: sel.Addr.String(), ValidatorAddress: val.ValAddr.String()}}
	case OpPropose:
		var rep oracletypes.MicroReport
		if len(w.Reports) > 0 {
			rep = w.Reports[mod(op.R[0], len(w.Reports))]
		} else {
			rep = oracletypes.MicroReport{Reporter: w.actor(op.R[0]).Addr.String(), Power: 1, QueryType: "SpotPrice", QueryId: bytes.Repeat([]byte{1}, 32), Value: u256hex(1), Timestamp: c.Time, BlockNumber: uint64(c.Height)}
		}
		alter := mod(op.R[1], 12)
		switch alter {
		case 1:
			rep.Value = u256hex(424242)
		case 2:
			rep.Power++
		case 3:
			rep.Power *= 10
		case 4:
			if rep.BlockNumber > 0 {
				rep.BlockNumber--
			}
		case 5:
			rep.Reporter = w.actor(op.R[2]).Addr.String()
		case 6:
			rep.Timestamp = rep.Timestamp.Add(time.Second)
		case 7:
			rep.QueryId = bytes.Repeat([]byte{byte(op.R[2])}, 32)
		case 8:
			rep.AggregateMethod = "weighted-mode"
		case 9:
			rep.Cyclelist = !rep.Cyclelist
		case 10:
			if rep.Power > 1 {
				rep.Power--
			}
		}
		bt.Note["alter"] = alter
		cat := disputetypes.DisputeCategory(mod(op.V, 4))
		if cat == disputetypes.Unspecified && op.V < 100 {
			cat = disputetypes.Warning
		}
		// fee: fraction of the category's full fee computed from the (possibly altered) report
		full := math.NewInt(int64(rep.Power)).MulRaw(1_000_000)
		switch cat {
		case disputetypes.Warning:
			full = full.QuoRaw(100)
		case disputetypes.Minor:
			full = full.QuoRaw(20)
		}
		var fee math.Int
		if op.Amt.Kind == AmtOfNeeded {
			fee = full.MulRaw(op.Amt.N).QuoRaw(1000).AddRaw(op.Amt.Delta)
			// a later round of an existing dispute needs the round fee instead
			if d, err := c.App.DisputeKeeper.GetDisputeByReporter(c.Ctx(), rep, cat); err == nil && d.DisputeStatus == disputetypes.Unresolved {
				fee = w.resolveAmount(op.Amt, signer, nil, d.DisputeId)
			}
		} else {
			fee = w.resolveAmount(op.Amt, signer, nil, 0)
		}
		r := rep
		bt.Note["frombond"] = mod(op.R[2], 4) == 3
		bt.Msgs = []sdk.Msg{&disputetypes.MsgProposeDispute{Creator: signer.Addr.String(), Report: &r, DisputeCategory: cat, Fee: coin(fee), PayFromBond: mod(op.R[2], 4) == 3}}
	case OpAddFee:
		id := w.smartDispute(op, "prevote")
		amt := w.resolveAmount(op.Amt, signer, nil, id)
		bt.Note["frombond"] = mod(op.R[1], 4) == 3
		bt.Msgs = []sdk.Msg{&disputetypes.MsgAddFeeToDispute{Creator: signer.Addr.String(), DisputeId: id, Amount: coin(amt), PayFromBond: mod(op.R[1], 4) == 3}}
	case OpVote:
		id := w.smartDispute(op, "voting")
		bt.Msgs = []sdk.Msg{&disputetypes.MsgVote{Voter: signer.Addr.String(), Id: id, Vote: disputetypes.VoteEnum(mod(op.V, 3))}}
	case OpAddEvidence:
		id := w.smartDispute(op, "open")
		var reps []*oracletypes.MicroReport
		if len(w.Reports) > 0 {
			r := w.Reports[mod(op.R[1], len(w.Reports))]
			if op.V == 1 {
				r.Value = u256hex(99)
			}
			reps = append(reps, &r)
		}
		bt.Msgs = []sdk.Msg{&disputetypes.MsgAddEvidence{CallerAddress: signer.Addr.String(), DisputeId: id, Reports: reps}}
	case OpFeeRefund:
		id := w.smartDispute(op, "refundable")
		payer := signer
		if op.V == 1 {
			payer = w.actor(op.R[1])
		}
		bt.Msgs = []sdk.Msg{&disputetypes.MsgWithdrawFeeRefund{CallerAddress: signer.Addr.String(), PayerAddress: payer.Addr.String(), Id: id}}
	case OpClaimReward:
		id := w.smartDispute(op, "resolved")
		bt.Msgs = []sdk.Msg{&disputetypes.MsgClaimReward{CallerAddress: signer.Addr.String(), DisputeId: id}}
	case OpUpdateTeam:
		bt.Msgs = []sdk.Msg{&disputetypes.MsgUpdateTeam{CurrentTeamAddress: signer.Addr.String(), NewTeamAddress: w.actor(op.R[0]).Addr.String()}}
	case OpReqAttest:
		// an aggregate of the referenced query, at a probed timestamp
		q := w.query(op.R[0])
		qid := queryID(q.Data)
		ts := uint64(0)
		var tss []uint64
		_ = c.App.OracleKeeper.Aggregates.Walk(c.Ctx(), collections.NewPrefixedPairRange[[]byte, uint64](qid), func(k collections.Pair[[]byte, uint64], _ oracletypes.Aggregate) (bool, error) {
			tss = append(tss, k.K2())
			return false, nil
		})
		if len(tss) > 0 {
			ts = tss[mod(op.R[1], len(tss))]
		}
		switch op.V {
		case 1:
			ts++
		case 2:
			ts = 0
		}
		tstr := strconv.FormatUint(ts, 10)
		if op.V == 3 {
			tstr = "-1"
		}
		qstr := hex.EncodeToString(qid)
		if op.V == 4 {
			qstr = "zz"
		}
		bt.Msgs = []sdk.Msg{&bridgetypes.MsgRequestAttestations{Creator: signer.Addr.String(), QueryId: qstr, Timestamp: tstr}}
		if op.S == "twice" {
			// the same request twice in one transaction: two identical snapshots requested at one height
			bt.Msgs = append(bt.Msgs, &bridgetypes.MsgRequestAttestations{Creator: signer.Addr.String(), QueryId: qstr, Timestamp: tstr})
		}
	case OpWithdrawTokens:
		amt := w.resolveAmount(op.Amt, signer, nil, 0)
		rcpt := hex.EncodeToString(common.BytesToAddress([]byte{byte(op.R[0]), 0xaa}).Bytes())
		switch op.V {
		case 1:
			rcpt = "0x" + rcpt
		case 2:
			rcpt = rcpt[:10]
		case 3:
			rcpt = ""
		case 4:
			rcpt = strings.Repeat("ab", 40)
		}
		bt.Msgs = []sdk.Msg{&bridgetypes.MsgWithdrawTokens{Creator: signer.Addr.String(), Recipient: rcpt, Amount: coin(amt)}}
	case OpClaimDeposit:
		ids := []uint64{1, 2, 3, 1<<64 - 1}
		id := ids[mod(op.R[0], len(ids))]
		idx := uint64(mod(op.R[1], 3))
		m := &bridgetypes.MsgClaimDepositsRequest{Creator: signer.Addr.String(), DepositIds: []uint64{id}, Indices: []uint64{idx}}
		switch op.V {
		case 1: // batch with the same id twice
			m.DepositIds = []uint64{id, id}
			m.Indices = []uint64{idx, idx}
		case 2: // mismatched arrays
			m.Indices = nil
		case 3: // batch of two ids
			m.DepositIds = []uint64{id, ids[mod(op.R[0]+1, len(ids))]}
			m.Indices = []uint64{idx, uint64(mod(op.R[2], 3))}
		}
		bt.Msgs = []sdk.Msg{m}
	case OpDelegate, OpUndelegate, OpRedelegate, OpCancelUnbond:
		bt.Msgs = []sdk.Msg{w.stakingMsg(op.K, signer, op)}
	case OpMultiStake:
		for _, sub := range op.M {
			sub.A = op.A
			if m := w.stakingMsg(sub.K, signer, sub); m != nil {
				bt.Msgs = append(bt.Msgs, m)
			}
		}
		if len(bt.Msgs) == 0 {
			bt.Msgs = []sdk.Msg{w.stakingMsg(OpDelegate, signer, op)}
		}
		gas = 6_000_000
	case OpCreateVal:
		// the signer becomes operator of a new validator with a harness-held consensus key
		label := fmt.Sprintf("newval-%d", signer.Idx)
		ck := edFromLabel(label)
		amt := w.resolveAmount(op.Amt, signer, nil, 0)
		pkAny, err := codectypes.NewAnyWithValue(ck.PubKey())
		if err != nil {
			return nil, err
		}
		bt.Msgs = []sdk.Msg{&stakingtypes.MsgCreateValidator{
			Description:       stakingtypes.Description{Moniker: label},
			Commission:        stakingtypes.CommissionRates{Rate: math.LegacyNewDecWithPrec(5, 2), MaxRate: math.LegacyNewDecWithPrec(20, 2), MaxChangeRate: math.LegacyNewDecWithPrec(1, 2)},
			MinSelfDelegation: math.OneInt(), ValidatorAddress: sdk.ValAddress(signer.Addr).String(), Pubkey: pkAny, Value: coin(amt)}}
		if !w.Created[label] && signer.Idx >= c.Cfg.NumValidators {
			w.Created[label] = true
			c.RegisterValidator(&Validator{Idx: len(c.Validators), Operator: signer, Cons: ck, ConsAddr: sdk.ConsAddress(ck.PubKey().Address()), ValAddr: sdk.ValAddress(signer.Addr)})
		}
	case OpUnjailVal:
		bt.Msgs = []sdk.Msg{&slashingtypes.MsgUnjail{ValidatorAddr: sdk.ValAddress(signer.Addr).String()}}
	case OpSend:
		amt := w.resolveAmount(op.Amt, signer, nil, 0)
		to := w.actor(op.R[0]).Addr
		if op.V == 1 {
			to = authtypes.NewModuleAddress([]string{"oracle", "dispute", "bridge", "tips_escrow_pool", "time_based_rewards", "bonded_tokens_pool"}[mod(op.R[1], 6)])
		}
		bt.Msgs = []sdk.Msg{&banktypes.MsgSend{FromAddress: signer.Addr.String(), ToAddress: to.String(), Amount: sdk.Coins{coin(amt)}}}
	case OpGov:
		inner := w.PrivMsg(op.V, govAuthority(), op)
		if _, isTeam := inner.(*disputetypes.MsgUpdateTeam); isTeam {
			inner = &minttypes.MsgInit{Authority: govAuthority()}
		}
		m, err := govv1.NewMsgSubmitProposal([]sdk.Msg{inner}, sdk.NewCoins(sdk.NewInt64Coin(BondDenom, 1_000_000)), signer.Addr.String(), "", "verif proposal", "generated", false)
		if err != nil {
			return nil, err
		}
		bt.Msgs = []sdk.Msg{m}
	case OpPrivDirect:
		authority := signer.Addr.String()
		if op.R[0]%3 == 2 {
			authority = govAuthority() // names gov as authority but is signed by the user: signature check must fail
		}
		bt.Msgs = []sdk.Msg{w.PrivMsg(op.V, authority, op)}
		bt.Note["authority"] = authority
	default:
		return nil, fmt.Errorf("unknown op kind %q", op.K)
	}
	for _, m := range bt.Msgs {
		if m == nil {
			return nil, fmt.Errorf("op %s produced a nil message", op.K)
		}
	}
	b, err := c.SignTx(signer, gas, 0, bt.Msgs...)
	if err != nil {
		// a message that cannot even be encoded/signed (e.g. invalid coin) never reaches the chain
		bt.Note["unsignable"] = err.Error()
		c.seqCache[string(signer.Addr)]-- // sequence was not consumed
		return bt, nil
	}
	bt.Bytes = b
	return bt, nil
}

func (w *World) disputeID(ref int) uint64 {
	if len(w.Disputes) == 0 {
		return uint64(mod(ref, 3) + 1)
	}
	// mostly existing ids, sometimes one past the end
	i := mod(ref, len(w.Disputes)+1)
	if i == len(w.Disputes) {
		return w.Disputes[len(w.Disputes)-1] + 1
	}
	return w.Disputes[i]
}

// housekeeping: every validator operator votes yes on proposals in voting period it has not voted on
func (w *World) govVotes() []*BuiltTx {
	c := w.C
	ctx := c.Ctx()
	var out []*BuiltTx
	var props []govv1.Proposal
	_ = c.App.GovKeeper.Proposals.Walk(ctx, nil, func(id uint64, p govv1.Proposal) (bool, error) {
		if p.Status == govv1.StatusVotingPeriod {
			props = append(props, p)
		}
		return false, nil
	})
	sort.Slice(props, func(i, j int) bool { return props[i].Id < props[j].Id })
	for _, p := range props {
		for i := 0; i < c.Cfg.NumValidators; i++ {
			v := c.Validators[i]
			if has, _ := c.App.GovKeeper.Votes.Has(ctx, collections.Join(p.Id, sdk.AccAddress(v.Operator.Addr))); has {
				continue
			}
			msg := govv1.NewMsgVote(v.Operator.Addr, p.Id, govv1.OptionYes, "")
			b, err := c.SignTx(v.Operator, 1_000_000, 0, msg)
			if err != nil {
				continue
			}
			out = append(out, &BuiltTx{Signer: v.Operator, Msgs: []sdk.Msg{msg}, Bytes: b, House: true, Op: Op{K: "govvote"}})
		}
	}
	return out
}

// smartSigner resolves the signer index late: for operations that only make sense for a
// particular population (reporters, selectors, jailed reporters, payers/voters of a dispute)
// the index selects within that population 7 times out of 8 (R[2]%8 != 0), otherwise it is a
// plain actor index. This keeps acceptance rates high without rejection sampling.
func (w *World) smartSigner(op Op) *Actor {
	plain := w.actor(op.A)
	if op.R[2]%8 == 0 {
		return plain
	}
	ctx := w.C.Ctx()
	rk := w.C.App.ReporterKeeper
	var pool []*Actor
	switch op.K {
	case OpSubmit:
		for _, a := range w.C.Actors {
			if r, err := rk.Reporters.Get(ctx, a.Addr.Bytes()); err == nil && (!r.Jailed || op.R[2]%16 == 1) {
				pool = append(pool, a)
			}
		}
	case OpUnjailReporter:
		for _, a := range w.C.Actors {
			if r, err := rk.Reporters.Get(ctx, a.Addr.Bytes()); err == nil && r.Jailed {
				pool = append(pool, a)
			}
		}
	case OpSwitchReporter:
		for _, a := range w.C.Actors {
			if sel, err := rk.Selectors.Get(ctx, a.Addr.Bytes()); err == nil && string(sel.Reporter) != string(a.Addr) {
				pool = append(pool, a)
			}
		}
	case OpSelectReporter, OpCreateReporter:
		for _, a := range w.C.Actors {
			if has, _ := rk.Selectors.Has(ctx, a.Addr.Bytes()); !has {
				pool = append(pool, a)
			}
		}
	case OpWithdrawTip:
		for _, a := range w.C.Actors {
			if tip, err := rk.SelectorTips.Get(ctx, a.Addr.Bytes()); err == nil && tip.IsPositive() {
				pool = append(pool, a)
			}
		}
	case OpFeeRefund:
		id := w.smartDispute(op, "refundable")
		for _, a := range w.C.Actors {
			if has, _ := w.C.App.DisputeKeeper.DisputeFeePayer.Has(ctx, collections.Join(id, a.Addr.Bytes())); has {
				pool = append(pool, a)
			}
		}
	case OpClaimReward:
		id := w.smartDispute(op, "resolved")
		if d, err := w.C.App.DisputeKeeper.Disputes.Get(ctx, id); err == nil {
			for _, a := range w.C.Actors {
				for _, pid := range d.PrevDisputeIds {
					if has, _ := w.C.App.DisputeKeeper.Voter.Has(ctx, collections.Join(pid, a.Addr.Bytes())); has {
						pool = append(pool, a)
						break
					}
				}
			}
		}
	case OpUndelegate, OpRedelegate:
		val := w.validator(op.R[0])
		for _, a := range w.C.Actors {
			if _, err := w.C.App.StakingKeeper.GetDelegation(ctx, a.Addr, val.ValAddr); err == nil {
				pool = append(pool, a)
			}
		}
	case OpCancelUnbond:
		val := w.validator(op.R[0])
		for _, a := range w.C.Actors {
			if _, err := w.C.App.StakingKeeper.GetUnbondingDelegation(ctx, a.Addr, val.ValAddr); err == nil {
				pool = append(pool, a)
			}
		}
	case OpUpdateTeam:
		if p, err := w.C.App.DisputeKeeper.Params.Get(ctx); err == nil {
			for _, a := range w.C.Actors {
				if string(a.Addr) == string(p.TeamAddress) {
					pool = append(pool, a)
				}
			}
		}
	case OpUnjailVal:
		for i, v := range w.C.Validators {
			if sv, err := w.C.App.StakingKeeper.GetValidator(ctx, v.ValAddr); err == nil && sv.Jailed {
				pool = append(pool, w.C.Validators[i].Operator)
			}
		}
	}
	if len(pool) == 0 {
		return plain
	}
	return pool[mod(op.A, len(pool))]
}

// smartQuery resolves a query reference: 7 times out of 8 (R[1]%8 != 0) among the catalog
// queries that can currently take a report (an open round exists, or it is a deposit query),
// otherwise a plain catalog index.
func (w *World) smartQuery(op Op) QuerySpec {
	plain := w.query(op.R[0])
	if op.R[1]%8 == 0 {
		return plain
	}
	ctx := w.C.Ctx()
	var pool []QuerySpec
	for _, q := range w.Catalog {
		if q.Kind == "deposit" {
			if op.S != "nodep" { // profiles that need fast rounds can keep the 2000-block deposit rounds out of the pool
				pool = append(pool, q)
			}
			continue
		}
		if q.Kind == "withdraw" || q.Kind == "garbage" {
			continue
		}
		if cur, err := w.C.App.OracleKeeper.CurrentQuery(ctx, queryID(q.Data)); err == nil {
			if (cur.CycleList || !cur.Amount.IsZero()) && cur.Expiration >= uint64(w.C.Height) {
				pool = append(pool, q)
			}
		}
	}
	if len(pool) == 0 {
		return plain
	}
	return pool[mod(op.R[0], len(pool))]
}

// smartDispute resolves a dispute reference 7 times out of 8 (R[1]%8 != 7) among the disputes in
// the state the operation needs; otherwise (or if there is none) a plain index incl. one past the end.
func (w *World) smartDispute(op Op, want string) uint64 {
	plain := w.disputeID(op.R[0])
	if op.R[1]%8 == 7 {
		return plain
	}
	ctx := w.C.Ctx()
	var pool []uint64
	for _, id := range w.Disputes {
		d, err := w.C.App.DisputeKeeper.Disputes.Get(ctx, id)
		if err != nil {
			continue
		}
		ok := false
		switch want {
		case "prevote":
			ok = d.DisputeStatus == disputetypes.Prevote
		case "voting":
			ok = d.DisputeStatus == disputetypes.Voting
		case "open":
			ok = d.Open
		case "resolved":
			ok = d.DisputeStatus == disputetypes.Resolved
		case "refundable":
			ok = d.DisputeStatus == disputetypes.Resolved || d.DisputeStatus == disputetypes.Failed
		}
		if ok {
			pool = append(pool, id)
		}
	}
	if len(pool) == 0 {
		return plain
	}
	return pool[mod(op.R[0], len(pool))]
}
