package chain

// C13 — dispute settlement pays out exactly what was paid in, once.
//
// Oracle: a conservation ledger kept from what was ACTUALLY moved (bank transfers reported by the
// SDK bank module per transaction / per block, liquid balances and stake values read before and
// after every block), never from the dispute module's own records:
//   - every block: the dispute account's balance change equals the transfers in minus the transfers
//     out and burns seen in the block (accounting sanity), and the stake value of all delegators
//     changes by exactly the coins moved between the staking pools and the dispute account (what is
//     taken from or returned to backers is backed coin for coin; per-origin truncation granted);
//   - execution happens once per dispute id and leaves the vote marked executed;
//   - every fee payer (true cumulative payments over all rounds and both sources) and every voter
//     can claim after settlement, exactly once; a repeat is rejected; nobody else is paid;
//   - refunds are pro rata to true payments (cross-multiplication, one unit per truncation), and
//     so are rewards of voters whose power lies in the token-holder group alone;
//   - no refund / reward claim fails for lack of funds;
//   - after all parties have claimed, what is left in the dispute account is the dust the chain
//     accounts in Dust plus at most one unit per voter claim.
// The settlement percentages (5 %, one half) are deliberately not part of the oracle.

import (
	"fmt"
	"math/big"
	"sort"
	"strings"
	"time"
	"testing"

	"pgregory.net/rapid"

	authtypes "github.com/cosmos/cosmos-sdk/x/auth/types"
	stakingtypes "github.com/cosmos/cosmos-sdk/x/staking/types"

	disputetypes "github.com/tellor-io/layer/x/dispute/types"

	"verif/harness/pbt"
)

type c13Pay struct {
	amt      *big.Int
	fromBond bool
	round    int
}

type c13VoteRec struct {
	id     uint64
	power  *big.Int // liquid balance when voting (token-holder power of an account without stake with a reporter)
	single bool     // power lies in the token-holder group alone
}

type c13Party struct {
	addr string
	idx  int
	// fee payer
	pays          []c13Pay
	paid          *big.Int
	refundTries   int // refund requests after settlement naming an id of the dispute
	refundOK      int
	refundGot     *big.Int // everything that left the dispute account for this payer (liquid + restaked)
	refundReasons []string
	noFunds       bool // a refund / reward request of this party failed for lack of funds (reported on its own)
	// voter
	votes       []c13VoteRec
	claimTries  int
	claimOK     int
	claimGot    *big.Int
	claimReason []string
	tipped      bool // tipped before the dispute was proposed
	teamOnly    bool // voted with nothing but the team's power (no liquid balance)
	isTeam      bool
}

type c13Monitor struct {
	BaseMonitor
	infra    string
	log      []string
	counters map[string]int64
	classes  map[string]bool

	disputeAddr, bondedAddr, notBondedAddr string
	parties                                map[string]*c13Party
	pre                                    c13Hold
	preDispute                             *big.Int
	dust0                                  *big.Int

	// the dispute of this history
	hash         string         // hash id (hex) of the first dispute seen
	ids          []uint64       // its round ids, ascending
	foreign      bool           // a second, unrelated dispute exists: attribution is no longer trivial
	executed     map[uint64]int // dispute id -> number of dispute_executed events
	outcome      string         // vote result of the executed round (lower case)
	failed       bool
	settled      bool
	settledAt    int64
	rounds       int
	in, out      *big.Int // everything that entered / left the dispute account
	burned       *big.Int
	feesIn       *big.Int
	escrowIn     *big.Int
	stakeOut     *big.Int // dispute -> staking pools
	voterClaims  int
	payerClaims  int
	proposedAt   int64
	halted       bool
	tainted      map[string]bool // known findings that occurred in this history
	insufficient bool
	lastStatus   string
}

func newC13Monitor() *c13Monitor {
	return &c13Monitor{counters: map[string]int64{}, classes: map[string]bool{}, parties: map[string]*c13Party{}, executed: map[uint64]int{},
		in: new(big.Int), out: new(big.Int), burned: new(big.Int), feesIn: new(big.Int), escrowIn: new(big.Int), stakeOut: new(big.Int), tainted: map[string]bool{}}
}

func (m *c13Monitor) logf(f string, a ...any) { m.log = append(m.log, fmt.Sprintf(f, a...)) }

func (m *c13Monitor) party(c *Chain, addr string) *c13Party {
	if p, ok := m.parties[addr]; ok {
		return p
	}
	p := &c13Party{addr: addr, idx: -1, paid: new(big.Int), refundGot: new(big.Int), claimGot: new(big.Int)}
	for _, a := range c.Actors {
		if a.Addr.String() == addr {
			p.idx = a.Idx
		}
	}
	p.isTeam = addr == c.TeamActor().Addr.String()
	m.parties[addr] = p
	return p
}

func (m *c13Monitor) dust(c *Chain) *big.Int {
	d, err := c.App.DisputeKeeper.Dust.Get(c.Ctx())
	if err != nil || d.IsNil() {
		return new(big.Int)
	}
	return d.BigInt()
}

func (m *c13Monitor) Init(c *Chain, w *World) *pbt.Violation {
	m.disputeAddr = authtypes.NewModuleAddress(disputetypes.ModuleName).String()
	m.bondedAddr = authtypes.NewModuleAddress(stakingtypes.BondedPoolName).String()
	m.notBondedAddr = authtypes.NewModuleAddress(stakingtypes.NotBondedPoolName).String()
	m.dust0 = m.dust(c)
	return nil
}

func (m *c13Monitor) Before(c *Chain, w *World, txs []*BuiltTx) *pbt.Violation {
	m.pre = c13ReadHold(c)
	m.preDispute = moduleBal(c, disputetypes.ModuleName).BigInt()
	return nil
}

// known reports a violation unless its signature is a recorded finding; then it is counted and the
// history is marked so that checks which the finding makes meaningless are skipped.
func (m *c13Monitor) known(sig, taint, format string, a ...any) *pbt.Violation {
	if pbt.IsKnown("C13", sig) {
		m.counters["known/"+sig]++
		m.classes["known:"+strings.TrimPrefix(sig, "C13/")] = true
		if taint != "" {
			m.tainted[taint] = true
		}
		return nil
	}
	return pbt.Violf(sig, format, a...)
}

func (m *c13Monitor) isPool(a string) bool { return a == m.bondedAddr || a == m.notBondedAddr }

// flows of one ordered move list with respect to the dispute account
type c13Flow struct {
	fromAcct  map[string]*big.Int // account -> dispute
	fromPools []*big.Int          // staking pools -> dispute, in order
	toAcct    map[string]*big.Int // dispute -> account
	toPools   *big.Int            // dispute -> staking pools
	burned    *big.Int
	in, out   *big.Int
}

func (m *c13Monitor) flowOf(moves []c13Move) c13Flow {
	f := c13Flow{fromAcct: map[string]*big.Int{}, toAcct: map[string]*big.Int{}, toPools: new(big.Int), burned: new(big.Int), in: new(big.Int), out: new(big.Int)}
	for _, mv := range moves {
		switch {
		case mv.to == m.disputeAddr && mv.from != m.disputeAddr:
			f.in.Add(f.in, mv.amt)
			if m.isPool(mv.from) {
				f.fromPools = append(f.fromPools, mv.amt)
			} else {
				f.fromAcct[mv.from] = new(big.Int).Add(c13Get(f.fromAcct, mv.from), mv.amt)
			}
		case mv.from == m.disputeAddr && mv.to == "":
			f.burned.Add(f.burned, mv.amt)
			f.out.Add(f.out, mv.amt)
		case mv.from == m.disputeAddr && mv.to != m.disputeAddr:
			f.out.Add(f.out, mv.amt)
			if m.isPool(mv.to) {
				f.toPools.Add(f.toPools, mv.amt)
			} else {
				f.toAcct[mv.to] = new(big.Int).Add(c13Get(f.toAcct, mv.to), mv.amt)
			}
		}
	}
	return f
}

func c13SumBig(xs []*big.Int) *big.Int {
	s := new(big.Int)
	for _, x := range xs {
		s.Add(s, x)
	}
	return s
}

func (m *c13Monitor) refreshDisputes(c *Chain) map[uint64]disputetypes.Dispute {
	all := map[uint64]disputetypes.Dispute{}
	_ = c.App.DisputeKeeper.Disputes.Walk(c.Ctx(), nil, func(id uint64, d disputetypes.Dispute) (bool, error) {
		all[id] = d
		return false, nil
	})
	var ids []uint64
	for id := range all {
		ids = append(ids, id)
	}
	sort.Slice(ids, func(i, j int) bool { return ids[i] < ids[j] })
	m.ids = m.ids[:0]
	for _, id := range ids {
		h := fmt.Sprintf("%x", all[id].HashId)
		if m.hash == "" {
			m.hash = h
		}
		if h == m.hash {
			m.ids = append(m.ids, id)
		} else {
			m.foreign = true
		}
	}
	return all
}

func (m *c13Monitor) isChainID(id uint64) bool {
	for _, x := range m.ids {
		if x == id {
			return true
		}
	}
	return false
}

func (m *c13Monitor) After(c *Chain, w *World, br *BlockResult, outs []TxOutcome) *pbt.Violation {
	if br.Halt != nil {
		m.halted = true
		return nil // halts belong to C02
	}
	post := c13ReadHold(c)
	postDispute := moduleBal(c, disputetypes.ModuleName).BigInt()
	hadDispute := len(m.ids) > 0
	disputes := m.refreshDisputes(c)

	// ---- block-level (BeginBlock / EndBlock) moves
	var blockEvents = br.Finalize.Events
	bmoves, bad := c13ParseMoves(blockEvents)
	if bad {
		m.infra = "unparsable amount in a block event"
		return nil
	}
	bf := m.flowOf(bmoves)
	totalIn, totalOut := new(big.Int).Set(bf.in), new(big.Int).Set(bf.out)
	poolNet := new(big.Int).Sub(bf.toPools, c13SumBig(bf.fromPools)) // dispute -> pools minus pools -> dispute
	m.in.Add(m.in, bf.in)
	m.out.Add(m.out, bf.out)
	m.burned.Add(m.burned, bf.burned)
	m.stakeOut.Add(m.stakeOut, bf.toPools)
	if len(bf.toAcct) > 0 {
		return pbt.Violf("C13/account-paid-outside-a-claim", "block %d: the dispute account paid %v in BeginBlock/EndBlock", br.Height, bf.toAcct)
	}
	// ---- execution events
	for _, ev := range blockEvents {
		if ev.Type != "dispute_executed" {
			continue
		}
		var id uint64
		var res string
		for _, a := range ev.Attributes {
			switch a.Key {
			case "dispute_id":
				fmt.Sscanf(a.Value, "%d", &id)
			case "vote_result":
				res = strings.ToLower(a.Value)
			}
		}
		m.executed[id]++
		m.logf("h=%d executed id=%d result=%s burned=%s toStake=%s", br.Height, id, res, bf.burned, bf.toPools)
		if m.executed[id] > 1 {
			return pbt.Violf("C13/executed-twice", "block %d: dispute %d was executed %d times", br.Height, id, m.executed[id])
		}
		if m.isChainID(id) {
			if m.settled {
				return pbt.Violf("C13/executed-twice", "block %d: a second round id (%d) of an already settled dispute was executed", br.Height, id)
			}
			m.settled, m.settledAt, m.outcome = true, br.Height, res
			v, err := c.App.DisputeKeeper.Votes.Get(c.Ctx(), id)
			if err != nil || !v.Executed {
				return pbt.Violf("C13/executed-flag-not-set/"+res, "block %d: dispute %d emitted dispute_executed (%s) but its vote is not marked executed (err=%v)", br.Height, id, res, err)
			}
		}
	}
	if n := len(m.ids); n > 0 {
		m.lastStatus = disputes[m.ids[n-1]].DisputeStatus.String()
	}
	for _, id := range m.ids {
		if d := disputes[id]; d.DisputeStatus == disputetypes.Failed && !m.settled {
			m.settled, m.settledAt, m.failed, m.outcome = true, br.Height, true, "failed"
			m.logf("h=%d dispute %d failed (under-funded)", br.Height, id)
		}
	}

	// ---- transactions
	for i, o := range outs {
		if o.Tx.House || o.Res == nil {
			continue
		}
		k := o.Tx.Op.K
		signer := o.Tx.Signer.Addr.String()
		if !o.OK() {
			switch k {
			case OpFeeRefund:
				msg := o.Tx.Msgs[0].(*disputetypes.MsgWithdrawFeeRefund)
				if m.settled && m.settledAt < br.Height && m.isChainID(msg.Id) {
					p := m.party(c, msg.PayerAddress)
					p.refundTries++
					p.refundReasons = append(p.refundReasons, reason(o))
				}
				if strings.Contains(o.Res.Log, "insufficient funds") {
					m.insufficient = true
					m.party(c, msg.PayerAddress).noFunds = true
					if v := m.insufficientFunds(br, o); v != nil {
						return v
					}
				}
			case OpClaimReward:
				msg := o.Tx.Msgs[0].(*disputetypes.MsgClaimReward)
				if m.settled && m.settledAt < br.Height && m.isChainID(msg.DisputeId) {
					p := m.party(c, signer)
					p.claimTries++
					p.claimReason = append(p.claimReason, reason(o))
				}
				if strings.Contains(o.Res.Log, "insufficient funds") {
					m.insufficient = true
					m.party(c, signer).noFunds = true
					if v := m.insufficientFunds(br, o); v != nil {
						return v
					}
				}
			}
			continue
		}
		moves, bad := c13ParseMoves(o.Res.Events)
		if bad {
			m.infra = "unparsable amount in a transaction event"
			return nil
		}
		f := m.flowOf(moves)
		totalIn.Add(totalIn, f.in)
		totalOut.Add(totalOut, f.out)
		poolNet.Add(poolNet, f.toPools)
		poolNet.Sub(poolNet, c13SumBig(f.fromPools))
		m.in.Add(m.in, f.in)
		m.out.Add(m.out, f.out)
		m.burned.Add(m.burned, f.burned)
		switch k {
		case OpTip:
			if !hadDispute {
				m.party(c, signer).tipped = true
			}
		case OpPropose, OpAddFee:
			fromBond, _ := o.Tx.Note["frombond"].(bool)
			fee := new(big.Int)
			escrow := new(big.Int)
			if fromBond {
				if len(f.fromPools) > 0 {
					fee.Set(f.fromPools[0])
					escrow = c13SumBig(f.fromPools[1:])
				}
				if len(f.fromAcct) > 0 {
					m.infra = fmt.Sprintf("h=%d: a payment from stake moved liquid coins %v", br.Height, f.fromAcct)
					return nil
				}
			} else {
				fee.Set(c13Get(f.fromAcct, signer))
				escrow = c13SumBig(f.fromPools)
				for a := range f.fromAcct {
					if a != signer {
						return pbt.Violf("C13/fee-taken-from-other-account", "block %d: a fee payment by %s debited %s", br.Height, signer, a)
					}
				}
			}
			round := 1
			if k == OpPropose && hadDispute {
				m.refreshDisputes(c)
				round = len(m.ids)
			}
			if k == OpPropose && !hadDispute {
				m.proposedAt = br.Height
			}
			p := m.party(c, signer)
			p.pays = append(p.pays, c13Pay{amt: fee, fromBond: fromBond, round: round})
			p.paid.Add(p.paid, fee)
			m.feesIn.Add(m.feesIn, fee)
			m.escrowIn.Add(m.escrowIn, escrow)
			m.logf("h=%d %s by a=%d: fee %s (fromBond=%v, round %d), escrowed %s", br.Height, k, p.idx, fee, fromBond, round, escrow)
			if f.out.Sign() != 0 {
				return pbt.Violf("C13/payment-moved-coins-out", "block %d: a fee payment moved %s out of the dispute account", br.Height, f.out)
			}
		case OpVote:
			msg := o.Tx.Msgs[0].(*disputetypes.MsgVote)
			p := m.party(c, signer)
			liquid := c13Get(m.pre.liquid, signer)
			single := !p.tipped && !p.isTeam
			if has, _ := c.App.ReporterKeeper.Selectors.Has(c.Ctx(), o.Tx.Signer.Addr.Bytes()); has {
				single = false
			}
			for j := 0; j < i; j++ { // an earlier transaction of the same account in this block may have changed its balance
				if outs[j].Tx.Signer == o.Tx.Signer && outs[j].OK() {
					single = false
				}
			}
			if liquid.Sign() == 0 {
				single = false
				if p.isTeam {
					p.teamOnly = true
				}
			}
			p.votes = append(p.votes, c13VoteRec{id: msg.Id, power: liquid, single: single})
			if f.in.Sign() != 0 || f.out.Sign() != 0 {
				return pbt.Violf("C13/vote-moved-coins", "block %d: a vote moved coins of the dispute account (in %s, out %s)", br.Height, f.in, f.out)
			}
		case OpFeeRefund:
			msg := o.Tx.Msgs[0].(*disputetypes.MsgWithdrawFeeRefund)
			p := m.party(c, msg.PayerAddress)
			got := new(big.Int).Sub(f.out, f.burned)
			m.logf("h=%d refund for a=%d (id %d): liquid %v, to stake %s, dust burned %s", br.Height, p.idx, msg.Id, f.toAcct, f.toPools, f.burned)
			if !m.settled {
				return pbt.Violf("C13/refund-before-settlement", "block %d: a fee refund was paid (%s) before the dispute was executed or failed", br.Height, got)
			}
			for a := range f.toAcct {
				if a != msg.PayerAddress {
					return pbt.Violf("C13/refund-paid-to-other-account", "block %d: the refund of %s was paid to %s", br.Height, msg.PayerAddress, a)
				}
			}
			if len(p.pays) == 0 && got.Sign() > 0 {
				return pbt.Violf("C13/stranger-refund-paid", "block %d: %s never paid a fee but was refunded %s", br.Height, msg.PayerAddress, got)
			}
			p.refundTries++
			p.refundOK++
			p.refundGot.Add(p.refundGot, got)
			m.stakeOut.Add(m.stakeOut, f.toPools)
			m.payerClaims++
			if p.refundOK > 1 {
				return pbt.Violf("C13/payer-claimed-twice/"+m.outcome, "block %d: payer a=%d was refunded %d times (this time %s)", br.Height, p.idx, p.refundOK, got)
			}
		case OpClaimReward:
			p := m.party(c, signer)
			got := new(big.Int).Sub(f.out, f.burned)
			m.logf("h=%d reward for a=%d: %v", br.Height, p.idx, f.toAcct)
			if !m.settled {
				return pbt.Violf("C13/reward-before-settlement", "block %d: a voter reward was paid (%s) before the dispute was executed", br.Height, got)
			}
			for a := range f.toAcct {
				if a != signer {
					return pbt.Violf("C13/reward-paid-to-other-account", "block %d: the reward of %s was paid to %s", br.Height, signer, a)
				}
			}
			if len(p.votes) == 0 && got.Sign() > 0 {
				return pbt.Violf("C13/stranger-claim-paid", "block %d: %s never voted but was paid a reward of %s", br.Height, signer, got)
			}
			p.claimTries++
			p.claimOK++
			p.claimGot.Add(p.claimGot, got)
			m.voterClaims++
			if p.claimOK > 1 {
				return pbt.Violf("C13/voter-claimed-twice/"+m.outcome, "block %d: voter a=%d was rewarded %d times (this time %s)", br.Height, p.idx, p.claimOK, got)
			}
		default:
			if f.in.Sign() != 0 || f.out.Sign() != 0 {
				m.foreign = true // something else touched the dispute account (e.g. a bank send to it)
			}
		}
	}
	m.rounds = len(m.ids)

	// ---- accounting sanity: the balance change of the dispute account is what the bank events say
	delta := new(big.Int).Sub(postDispute, m.preDispute)
	want := new(big.Int).Sub(totalIn, totalOut)
	if delta.Cmp(want) != 0 {
		m.infra = fmt.Sprintf("h=%d: dispute account changed by %s but the bank events of the block add up to %s", br.Height, delta, want)
		return nil
	}
	// ---- stake backing: what moved between the staking pools and the dispute account is what the delegators' stake changed by
	dStake := new(big.Int).Sub(post.total, m.pre.total)
	short := new(big.Int).Sub(poolNet, dStake) // coins given to the pools that did not become stake (truncation dust)
	tol := int64(len(c.Actors) * len(c.Validators))
	if poolNet.Sign() != 0 || dStake.Sign() != 0 {
		m.counters["stake_checks"]++
		if short.Sign() < 0 || short.Cmp(big.NewInt(tol)) > 0 {
			tags := blockTags(br, outs)
			return pbt.Violf("C13/stake-moved-vs-coins-moved/"+tags, "block %d: %s loya moved from the dispute account to the staking pools (net), but the delegators' stake changed by %s (difference %s, allowed 0..%d)",
				br.Height, poolNet, dStake, short, tol)
		}
	}
	return nil
}

func (m *c13Monitor) insufficientFunds(br *BlockResult, o TxOutcome) *pbt.Violation {
	sig := "C13/claim-failed-insufficient-funds/" + o.Tx.Op.K
	bondPayments := int64(0)
	for _, p := range m.parties {
		for _, pay := range p.pays {
			if pay.fromBond {
				bondPayments++
			}
		}
	}
	// a fee paid from stake is recorded in full although per-selector truncation moves up to one loya per
	// selector less (recorded finding F-C04-1): a shortfall of that size gets its own signature
	var have, need int64
	if i := strings.Index(o.Res.Log, "spendable balance "); i >= 0 {
		fmt.Sscanf(o.Res.Log[i:], "spendable balance %dloya is smaller than %dloya", &have, &need)
	}
	if bondPayments > 0 && need > have && need-have <= 16*bondPayments {
		sig += "/fee-paid-from-stake"
	}
	return m.known(sig, "insufficient", "block %d: %s failed for lack of funds: %s", br.Height, o.Tx.Op.K, o.Res.Log)
}

func (m *c13Monitor) Finish(c *Chain, w *World) *pbt.Violation {
	// "execution happens exactly once per dispute": a round that was tallied (a result is recorded) and whose dispute
	// period is over in the last block must have been executed by that block's BeginBlocker (never zero times)
	if !m.halted && len(m.ids) > 0 && !m.foreign {
		ctx := c.Ctx()
		id := m.ids[len(m.ids)-1]
		d, err1 := c.App.DisputeKeeper.Disputes.Get(ctx, id)
		vt, err2 := c.App.DisputeKeeper.Votes.Get(ctx, id)
		if err1 == nil && err2 == nil && vt.VoteResult != disputetypes.VoteResult_NO_TALLY && !vt.Executed && ctx.BlockTime().After(d.DisputeEndTime) {
			m.counters["execution_checks_failed"]++
			return pbt.Violf("C13/tallied-dispute-never-executed/"+strings.ToLower(vt.VoteResult.String()), "dispute %d (round %d, status %s) has the recorded result %s and its dispute period ended %s, the last block is at %s, but the vote is not executed",
				id, d.DisputeRound, d.DisputeStatus, vt.VoteResult, d.DisputeEndTime.UTC().Format(time.RFC3339Nano), ctx.BlockTime().UTC().Format(time.RFC3339Nano))
		}
		m.counters["execution_checks"]++
	}
	if m.halted || len(m.ids) == 0 || !m.settled || m.foreign {
		return nil
	}
	if m.out.Cmp(m.in) > 0 {
		return pbt.Violf("C13/paid-out-more-than-paid-in", "the dispute account paid out %s (burned %s, to stake %s) but only %s was paid in (fees %s, escrowed stake %s)", m.out, m.burned, m.stakeOut, m.in, m.feesIn, m.escrowIn)
	}
	var payers, voters []*c13Party
	for _, p := range m.parties {
		if p.paid.Sign() > 0 {
			payers = append(payers, p)
		}
		if len(p.votes) > 0 {
			voters = append(voters, p)
		}
	}
	sort.Slice(payers, func(i, j int) bool { return payers[i].idx < payers[j].idx })
	sort.Slice(voters, func(i, j int) bool { return voters[i].idx < voters[j].idx })
	against := strings.Contains(m.outcome, "against")
	support := strings.Contains(m.outcome, "support")
	repeated := false
	bondPayers := 0
	for _, p := range m.parties { // including payers whose payment from stake was recorded but moved nothing
		r1 := 0
		bond := false
		for _, pay := range p.pays {
			if pay.round == 1 {
				r1++
			}
			bond = bond || pay.fromBond
		}
		if r1 > 1 {
			repeated = true
		}
		if bond {
			bondPayers++
		}
	}
	tipperVoted := false
	for _, v := range voters {
		if v.tipped {
			tipperVoted = true
		}
	}
	allTried := true
	// ---- (2) every payer / voter can claim, exactly once
	if !against {
		for _, p := range payers {
			if p.refundTries == 0 {
				allTried = false
				continue
			}
			if p.refundOK == 0 && p.noFunds {
				m.counters["cannot_claim_for_lack_of_funds"]++ // already reported under its own signature
			} else if p.refundOK == 0 {
				sig := "C13/payer-cannot-claim/" + m.outcome
				switch {
				case m.rounds > 1:
					sig = "C13/later-round-payer-cannot-claim"
				case c13PaidNothingFromStake(p):
					sig = "C13/payer-cannot-claim/stake-payment-moved-nothing"
				case bondPayers > 1 && c13HasBond(p):
					sig = "C13/second-stake-payer-cannot-claim"
				}
				if v := m.known(sig, "cannot-claim", "payer a=%d paid %s (%d payments, %d rounds) and asked for its refund %d times after settlement (%s) but was never paid: %v",
					p.idx, p.paid, len(p.pays), m.rounds, p.refundTries, m.outcome, p.refundReasons); v != nil {
					return v
				}
			}
		}
	} else {
		m.counters["against_payers_not_refunded"] += int64(len(payers))
	}
	if !m.failed {
		for _, v := range voters {
			if v.claimTries == 0 {
				allTried = false
				continue
			}
			if v.claimOK == 0 && v.noFunds {
				m.counters["cannot_claim_for_lack_of_funds"]++
			} else if v.claimOK == 0 {
				sig := "C13/voter-cannot-claim/" + m.outcome
				switch {
				case v.teamOnly:
					sig = "C13/team-voter-cannot-claim"
				case m.roundWithoutVotes(voters):
					sig = "C13/voter-cannot-claim/round-without-votes"
				}
				if vi := m.known(sig, "cannot-claim", "voter a=%d voted %d times and claimed %d times after execution (%s) but was never paid: %v", v.idx, len(v.votes), v.claimTries, m.outcome, v.claimReason); vi != nil {
					return vi
				}
			}
		}
	}
	// ---- (3) pro rata
	unit := int64(1)
	if support {
		unit = 2 // a refund plus a share of the reporter's bond: two truncations per claim
	}
	for i := 0; i < len(payers); i++ {
		for j := i + 1; j < len(payers); j++ {
			p, q := payers[i], payers[j]
			if p.refundOK != 1 || q.refundOK != 1 {
				continue
			}
			m.counters["payer_pairs"]++
			l := new(big.Int).Mul(p.refundGot, q.paid)
			r := new(big.Int).Mul(q.refundGot, p.paid)
			diff := new(big.Int).Abs(new(big.Int).Sub(l, r))
			tol := new(big.Int).Mul(big.NewInt(unit), new(big.Int).Add(p.paid, q.paid))
			if diff.Cmp(tol) > 0 {
				sig := "C13/payer-refund-not-pro-rata/" + m.outcome
				switch {
				case m.rounds > 1:
					sig = "C13/payer-refund-not-pro-rata/later-round"
				case len(p.pays) > 1 || len(q.pays) > 1:
					sig = "C13/payer-second-payment-overwritten"
				case c13StakeRoundingExplains(p, q, tol):
					// a fee paid from stake is recorded in full although up to one loya per selector less is moved
					// (recorded finding F-C04-1): the refund follows the record, not the true payment
					sig = "C13/payer-refund-not-pro-rata/fee-paid-from-stake"
				}
				if v := m.known(sig, "pro-rata", "payers a=%d (paid %s in %d payments, got back %s) and a=%d (paid %s in %d payments, got back %s) were not refunded pro rata (%s): |%s - %s| > %s",
					p.idx, p.paid, len(p.pays), p.refundGot, q.idx, q.paid, len(q.pays), q.refundGot, m.outcome, l, r, tol); v != nil {
					return v
				}
			}
		}
	}
	for i := 0; i < len(voters); i++ {
		for j := i + 1; j < len(voters); j++ {
			p, q := voters[i], voters[j]
			if p.claimOK != 1 || q.claimOK != 1 {
				continue
			}
			pw, qw, ok := new(big.Int), new(big.Int), true
			for _, v := range p.votes {
				ok = ok && v.single
				pw.Add(pw, v.power)
			}
			for _, v := range q.votes {
				ok = ok && v.single
				qw.Add(qw, v.power)
			}
			if !ok {
				continue
			}
			m.counters["voter_pairs"]++
			l := new(big.Int).Mul(p.claimGot, qw)
			r := new(big.Int).Mul(q.claimGot, pw)
			diff := new(big.Int).Abs(new(big.Int).Sub(l, r))
			tol := new(big.Int).Add(pw, qw)
			if diff.Cmp(tol) > 0 {
				return pbt.Violf("C13/voter-reward-not-pro-rata/"+m.outcome, "token-holder voters a=%d (power %s, reward %s) and a=%d (power %s, reward %s) were not rewarded pro rata: |%s - %s| > %s",
					p.idx, pw, p.claimGot, q.idx, qw, q.claimGot, l, r, tol)
			}
		}
	}
	// ---- (1)/(4) after everyone has claimed, at most the accounted dust remains
	if !allTried {
		m.counters["not_all_claimed"]++
		return nil
	}
	m.classes["all-claimed"] = true
	if m.tainted["cannot-claim"] || m.tainted["insufficient"] {
		m.counters["residue_check_skipped_known"]++
		return nil
	}
	residue := moduleBal(c, disputetypes.ModuleName).BigInt()
	dustNow := m.dust(c)
	dDust := new(big.Int).Sub(dustNow, m.dust0)
	micro := new(big.Int).Mul(residue, big.NewInt(1_000_000))
	excess := new(big.Int).Sub(micro, dDust) // what remains beyond the dust the chain accounts for, in 10^-6 loya
	allow := big.NewInt(int64(2*m.payerClaims) + 1_000_000*int64(m.voterClaims))
	m.counters["residue_checks"]++
	m.logf("end: in %s (fees %s, escrow %s) out %s (burned %s, to stake %s) residue %s dust %s", m.in, m.feesIn, m.escrowIn, m.out, m.burned, m.stakeOut, residue, dustNow)
	if excess.Sign() < 0 || excess.Cmp(allow) > 0 {
		sig := "C13/residue-after-all-claims/" + m.outcome
		switch {
		case m.failed:
			sig = "C13/failed-dispute-refund-strands-fees"
		case m.rounds > 1:
			sig = "C13/residue-after-all-claims/later-round"
		case repeated && !against:
			sig = "C13/payer-second-payment-overwritten"
		case tipperVoted:
			sig = "C13/residue-after-all-claims/tipper-voted"
		case bondPayers > 0 && !against:
			sig = "C13/residue-after-all-claims/fee-paid-from-stake"
		}
		m.counters["residue_violations"]++
		return m.known(sig, "residue", "after %d payer refunds and %d voter claims (everyone asked; outcome %s, %d rounds) the dispute account still holds %s loya; paid in %s (fees %s + escrowed stake %s), paid out %s (burned %s, to stake %s); Dust accounts for %s micro-loya; allowed beyond the dust: %s micro-loya",
			m.payerClaims, m.voterClaims, m.outcome, m.rounds, residue, m.in, m.feesIn, m.escrowIn, m.out, m.burned, m.stakeOut, dDust, allow)
	}
	if len(m.tainted) == 0 {
		m.classes["clean"] = true // nothing known occurred: every check applied in full
	}
	return nil
}

// roundWithoutVotes reports whether the dispute had several rounds of which at least one received no accepted vote.
func (m *c13Monitor) roundWithoutVotes(voters []*c13Party) bool {
	if len(m.ids) < 2 {
		return false
	}
	seen := map[uint64]bool{}
	for _, v := range voters {
		for _, r := range v.votes {
			seen[r.id] = true
		}
	}
	for _, id := range m.ids {
		if !seen[id] {
			return true
		}
	}
	return false
}

// c13StakeRoundingExplains reports whether the pro-rata relation of two payers would hold if every payment
// made from stake had been up to 16 loya larger than what actually reached the dispute account.
func c13StakeRoundingExplains(p, q *c13Party, tol *big.Int) bool {
	slack := func(x *c13Party) *big.Int {
		n := int64(0)
		for _, pay := range x.pays {
			if pay.fromBond {
				n++
			}
		}
		return big.NewInt(16 * n)
	}
	sp, sq := slack(p), slack(q)
	if sp.Sign() == 0 && sq.Sign() == 0 {
		return false
	}
	// E(dp,dq) = refund_p*(paid_q+dq) - refund_q*(paid_p+dp) is linear: its range over the box is [E(sp,0), E(0,sq)]
	lo := new(big.Int).Sub(new(big.Int).Mul(p.refundGot, q.paid), new(big.Int).Mul(q.refundGot, new(big.Int).Add(p.paid, sp)))
	hi := new(big.Int).Sub(new(big.Int).Mul(p.refundGot, new(big.Int).Add(q.paid, sq)), new(big.Int).Mul(q.refundGot, p.paid))
	t := new(big.Int).Add(tol, new(big.Int).Add(sp, sq))
	return new(big.Int).Sub(lo, t).Sign() <= 0 && new(big.Int).Add(hi, t).Sign() >= 0
}

// c13PaidNothingFromStake reports whether one of the party's accepted payments from stake moved no coins at all.
func c13PaidNothingFromStake(p *c13Party) bool {
	for _, pay := range p.pays {
		if pay.fromBond && pay.amt.Sign() == 0 {
			return true
		}
	}
	return false
}

func c13HasBond(p *c13Party) bool {
	for _, pay := range p.pays {
		if pay.fromBond {
			return true
		}
	}
	return false
}

func (m *c13Monitor) Classify(info *pbt.CaseInfo) {
	payers, voters, repeated := 0, 0, false
	allTried := m.settled
	for _, p := range m.parties {
		if p.paid.Sign() > 0 {
			payers++
			if len(p.pays) > 1 {
				repeated = true
			}
			if p.refundTries == 0 {
				allTried = false
			}
			for _, pay := range p.pays {
				if pay.fromBond {
					m.classes["fee-from-stake"] = true
				}
			}
		}
		if len(p.votes) > 0 {
			voters++
			if p.claimTries == 0 && !m.failed {
				allTried = false
			}
		}
	}
	info.Nontrivial = payers >= 2 && (repeated || m.rounds > 1) && voters >= 2 && allTried && !m.halted
	if m.settled {
		m.classes["outcome:"+m.outcome] = true
	} else if len(m.ids) > 0 {
		m.classes["not-settled:"+strings.ToLower(strings.TrimPrefix(m.lastStatus, "DISPUTE_STATUS_"))] = true
	} else {
		m.classes["no-dispute"] = true
	}
	if m.halted {
		m.classes["halted"] = true
	}
	if repeated {
		m.classes["repeated-payer"] = true
	}
	if m.rounds > 1 {
		m.classes["later-round"] = true
	}
	if voters == 0 && m.settled && !m.failed {
		m.classes["no-voters"] = true
	}
	m.classes[fmt.Sprintf("payers:%d", min(payers, 4))] = true
	m.classes[fmt.Sprintf("voters:%d", min(voters, 6))] = true
	for k := range m.classes {
		info.Classes = append(info.Classes, k)
	}
	sort.Strings(info.Classes)
}

func TestC13_Settlement(t *testing.T) {
	c13Run(t, "C13", "TestC13_Settlement",
		"settlement scenarios: one dispute per history on a stored cycle-list report (warning/minor/major), funded by 1-5 payers in full / partial / repeated / overshooting payments from balance or from stake or left under-funded (1-day expiry), votes by team, tippers, reporters, selectors and token holders in generated order and choices, tally and execution through the 2-day / 3-day time jumps (+-1 ms), optionally a second round, then every payer and voter claims twice and strangers try; conservation ledger from bank transfers and stake values; non-trivial = >=2 payers with a repeated payment or a later round, >=2 voters, everyone claimed; distinct by SHA-256 of the history JSON",
		func(rt *rapid.T) History { return GenC13(rt, pbt.Thorough()) }, newC13Monitor)
}
