package chain

// Shared reference model of C18 (written from the property statement, exact integer/rational
// arithmetic with math/big; nothing here calls the decorator or the reporter keeper's logic).

import (
	"context"
	"math/big"
	"strings"

	"cosmossdk.io/math"

	sdk "github.com/cosmos/cosmos-sdk/types"
	stakingtypes "github.com/cosmos/cosmos-sdk/x/staking/types"

	reportertypes "github.com/tellor-io/layer/x/reporter/types"

	"verif/harness/pbt"
)

// c18Sums is what the statement looks at in one transaction: the combined amount of its
// (top-level) stake-adding messages and the combined amount of its undelegate messages.
type c18Sums struct {
	adds, unds       []*big.Int // per message, in tx order
	addKinds         []string
	sumAdd, sumUnd   *big.Int
	redelegated      *big.Int // part of sumAdd that comes from redelegations (can also lower the bonded total: source side)
	negative, nested bool
}

func (s *c18Sums) staking() bool { return len(s.adds)+len(s.unds) > 0 }

// A side constrains the transaction only if its combined amount is positive: messages of amount 0
// move nothing (and are refused later by the staking handlers); whether they are admitted while the
// bonded total is already outside the band is treated as don't-care and counted.
func (s *c18Sums) hasAdd() bool { return len(s.adds) > 0 && s.sumAdd.Sign() > 0 }
func (s *c18Sums) hasUnd() bool { return len(s.unds) > 0 && s.sumUnd.Sign() > 0 }

// zeroSideOutside: a side with messages but combined amount 0 while bonded is already outside that bound.
func (s *c18Sums) zeroSideOutside(lo, hi, baseline *big.Int) bool {
	return (len(s.adds) > 0 && s.sumAdd.Sign() == 0 && !c18UpperOK(lo, s.sumAdd, baseline)) ||
		(len(s.unds) > 0 && s.sumUnd.Sign() == 0 && !c18LowerOK(hi, s.sumUnd, baseline))
}

func (s *c18Sums) within(lo, hi, baseline *big.Int) bool {
	return (!s.hasAdd() || c18UpperOK(lo, s.sumAdd, baseline)) && (!s.hasUnd() || c18LowerOK(hi, s.sumUnd, baseline))
}

func c18Classify(msgs []sdk.Msg) *c18Sums {
	s := &c18Sums{sumAdd: new(big.Int), sumUnd: new(big.Int), redelegated: new(big.Int)}
	add := func(kind string, a math.Int) {
		if a.IsNil() {
			a = math.ZeroInt()
		}
		if a.IsNegative() {
			s.negative = true
		}
		s.adds = append(s.adds, a.BigInt())
		s.addKinds = append(s.addKinds, kind)
		s.sumAdd.Add(s.sumAdd, a.BigInt())
		if kind == OpRedelegate {
			s.redelegated.Add(s.redelegated, a.BigInt())
		}
	}
	for _, m := range msgs {
		switch m := m.(type) {
		case *stakingtypes.MsgCreateValidator:
			add(OpCreateVal, m.Value.Amount)
		case *stakingtypes.MsgDelegate:
			add(OpDelegate, m.Amount.Amount)
		case *stakingtypes.MsgBeginRedelegate:
			add(OpRedelegate, m.Amount.Amount)
		case *stakingtypes.MsgCancelUnbondingDelegation:
			add(OpCancelUnbond, m.Amount.Amount)
		case *stakingtypes.MsgUndelegate:
			a := m.Amount.Amount
			if a.IsNil() {
				a = math.ZeroInt()
			}
			if a.IsNegative() {
				s.negative = true
			}
			s.unds = append(s.unds, a.BigInt())
			s.sumUnd.Add(s.sumUnd, a.BigInt())
		default:
			if strings.Contains(sdk.MsgTypeURL(m), "MsgExec") || strings.Contains(sdk.MsgTypeURL(m), "MsgSubmitProposal") {
				s.nested = true
			}
		}
	}
	return s
}

// upperOK: bonded + x <= 105% of baseline   <=>   20*(bonded+x) <= 21*baseline
func c18UpperOK(bonded, x, baseline *big.Int) bool {
	l := new(big.Int).Add(bonded, x)
	l.Mul(l, big.NewInt(20))
	r := new(big.Int).Mul(baseline, big.NewInt(21))
	return l.Cmp(r) <= 0
}

// lowerOK: bonded - x >= 95% of baseline   <=>   20*(bonded-x) >= 19*baseline
func c18LowerOK(bonded, x, baseline *big.Int) bool {
	l := new(big.Int).Sub(bonded, x)
	l.Mul(l, big.NewInt(20))
	r := new(big.Int).Mul(baseline, big.NewInt(19))
	return l.Cmp(r) >= 0
}

// c18Verdict evaluates the only-if direction for an ADMITTED transaction.
// lo/hi bracket the bonded total the admission check saw (lo == hi when it is known exactly):
// the add side is certainly violated if even lo + sum exceeds the bound, the undelegate side if
// even hi - sum is below it. crossing reports whether the combined amount of >=2 messages of one
// side crossed a bound that none of them crosses alone (the non-trivial rule).
func c18Verdict(s *c18Sums, lo, hi, baseline *big.Int) (v *pbt.Violation, crossing bool) {
	if s.hasAdd() && !c18UpperOK(lo, s.sumAdd, baseline) {
		single := ""
		for i, a := range s.adds {
			if !c18UpperOK(lo, a, baseline) {
				single = s.addKinds[i]
				break
			}
		}
		if single == "" {
			crossing = true
			v = pbt.Violf("C18/per-message-not-cumulative/add",
				"admitted although bonded %s + combined stake-adding amount %s (%d messages %v, each within the bound alone) > 105%% of the recorded %s", lo, s.sumAdd, len(s.adds), s.adds, baseline)
		} else {
			v = pbt.Violf("C18/admitted-beyond-bound/add/"+single,
				"admitted although bonded %s + stake-adding amount(s) %v (kinds %v) > 105%% of the recorded %s", lo, s.adds, s.addKinds, baseline)
		}
	}
	if s.hasUnd() && !c18LowerOK(hi, s.sumUnd, baseline) {
		single := false
		for _, u := range s.unds {
			if !c18LowerOK(hi, u, baseline) {
				single = true
				break
			}
		}
		if !single {
			crossing = true
			if v == nil {
				v = pbt.Violf("C18/per-message-not-cumulative/undelegate",
					"admitted although bonded %s - combined undelegate amount %s (%d messages %v, each within the bound alone) < 95%% of the recorded %s", hi, s.sumUnd, len(s.unds), s.unds, baseline)
			}
		} else if v == nil {
			v = pbt.Violf("C18/admitted-beyond-bound/undelegate",
				"admitted although bonded %s - undelegate amount(s) %v < 95%% of the recorded %s", hi, s.unds, baseline)
		}
	}
	return v, crossing
}

// c18WouldCross: would the combined amounts cross a bound that no message crosses alone (used for
// the non-trivial rule also when the transaction was rejected).
func c18WouldCross(s *c18Sums, lo, hi, baseline *big.Int) bool {
	if len(s.adds) >= 2 && !c18UpperOK(lo, s.sumAdd, baseline) {
		all := true
		for _, a := range s.adds {
			if !c18UpperOK(lo, a, baseline) {
				all = false
			}
		}
		if all {
			return true
		}
	}
	if len(s.unds) >= 2 && !c18LowerOK(hi, s.sumUnd, baseline) {
		all := true
		for _, u := range s.unds {
			if !c18LowerOK(hi, u, baseline) {
				all = false
			}
		}
		if all {
			return true
		}
	}
	return false
}

// c18BondedStub lets the function-level test choose the "total bonded stake" the decorator sees
// (the decorator takes the staking keeper as an interface and only calls TotalBondedTokens).
type c18BondedStub struct {
	reportertypes.StakingKeeper
	total math.Int
}

func (b c18BondedStub) TotalBondedTokens(context.Context) (math.Int, error) { return b.total, nil }

func c18Big(s string) (*big.Int, bool) { return new(big.Int).SetString(s, 10) }
