package chain

import (
	"pgregory.net/rapid"
)

// Profile concentrates the generated search where a property lives.
type Profile struct {
	Name      string
	Weights   map[string]int // op kind -> weight
	MinBlocks int
	MaxBlocks int
	MaxOps    int   // per block
	GapW      []int // weight per gap kind (index = GapSpec.Kind, 0 = explicit ms)
	AbsentPM  int   // per-mille probability that a block has a misbehaving (absent / nil-vote / garbage-extension) validator
	BadVarPM  int   // per-mille probability that an op uses a non-zero variant (boundary / malformed field)
	Setup     bool  // prepend reporter-creation / selection blocks
	Genesis   func(t *rapid.T) GenesisCfg
	Shape     func(t *rapid.T, op *Op) // property-specific shaping of a drawn op
	ThoroughScale int // multiply block count in the thorough tier
	Prefix    func(pick func(label string, n int) int) []Block // optional property-specific prefix blocks (choices still drawn from rapid)
	VoteGen   func(pick func(label string, n int) int, numVals int, blockIdx int) []VoteSpec // optional per-block vote behaviour generator (replaces AbsentPM)
}

// rapid's integer generators are deliberately biased towards small magnitudes (geometric bit
// length), which is right for sizes but wrong for categorical choices: index 0 of 100 would be
// drawn ten times as often as index 60. uni() turns one (biased, shrinkable) draw into a
// near-uniform index by mixing its bits; every choice is still a pure function of rapid's draws.
func uni(t *rapid.T, label string, n int) int {
	if n <= 1 {
		return 0
	}
	bs := rapid.SliceOfN(rapid.Byte(), 4, 4).Draw(t, label)
	x := uint64(bs[0]) | uint64(bs[1])<<8 | uint64(bs[2])<<16 | uint64(bs[3])<<24
	x += 0x9e3779b97f4a7c15
	x = (x ^ (x >> 30)) * 0xbf58476d1ce4e5b9
	x = (x ^ (x >> 27)) * 0x94d049bb133111eb
	x ^= x >> 31
	return int(x % uint64(n))
}

func pick[T any](t *rapid.T, label string, xs []T) T { return xs[uni(t, label, len(xs))] }

func weighted(t *rapid.T, label string, w []int) int {
	total := 0
	for _, x := range w {
		total += x
	}
	if total == 0 {
		return 0
	}
	r := uni(t, label, total)
	for i, x := range w {
		if r < x {
			return i
		}
		r -= x
	}
	return len(w) - 1
}

func weightedKind(t *rapid.T, w map[string]int) string {
	keys := make([]string, 0, len(w))
	for k := range w {
		keys = append(keys, k)
	}
	sortStrings(keys)
	ws := make([]int, len(keys))
	for i, k := range keys {
		ws[i] = w[k]
	}
	return keys[weighted(t, "kind", ws)]
}

func sortStrings(s []string) {
	for i := 1; i < len(s); i++ {
		for j := i; j > 0 && s[j] < s[j-1]; j-- {
			s[j], s[j-1] = s[j-1], s[j]
		}
	}
}

var defaultGapW = []int{3, 4, 10, 30, 6, 3, 2, 2, 2, 1, 1, 1, 1, 1, 6}

// GenGenesis draws a genesis configuration: 3-7 validators, most users delegating to 1-3 validators.
func GenGenesis(t *rapid.T) GenesisCfg {
	nv := rapid.IntRange(3, 7).Draw(t, "numValidators")
	cfg := GenesisCfg{NumValidators: nv, NumUsers: rapid.IntRange(6, 10).Draw(t, "numUsers"), UserBalance: 1_000_000_000_000,
		SlashWindow: 5, UnbondingSecs: 21 * 24 * 3600, VotingSecs: pick(t, "votingSecs", []int64{60, 3600})}
	equal := uni(t, "equalPowers", 4) == 0
	for i := 0; i < nv; i++ {
		tok := int64(100_000_000)
		if !equal {
			tok = pick(t, "valTokens", []int64{100_000_000, 100_000_000, 50_000_000, 200_000_000, 100_500_000, 7_000_000, 1_000_000})
		}
		cfg.ValTokens = append(cfg.ValTokens, tok)
	}
	cfg.MaxValidators = nv + 3
	if uni(t, "smallMaxVals", 4) == 0 {
		cfg.MaxValidators = rapid.IntRange(2, nv).Draw(t, "maxValidators")
	}
	for u := 0; u < cfg.NumUsers; u++ {
		nd := pick(t, "numDelegs", []int{0, 1, 1, 1, 2, 2, 3})
		for d := 0; d < nd; d++ {
			cfg.UserDelegs = append(cfg.UserDelegs, [3]int64{int64(u), int64(uni(t, "dval", nv)),
				pick(t, "damt", []int64{1_000_000, 2_000_000, 1_500_000, 10_000_000, 3_333_333, 999_999, 20_000_000})})
		}
	}
	return cfg
}

func genAmount(t *rapid.T, kind string) Amount {
	d := pick(t, "delta", []int64{0, 0, 0, 0, 1, -1})
	switch kind {
	case OpTip:
		if uni(t, "ak", 6) == 0 {
			return Amount{Kind: AmtOfBalance, N: pick(t, "pm", []int64{1, 500, 1000, 1001}), Delta: d}
		}
		return Amount{Kind: AmtAbs, N: pick(t, "n", []int64{1, 49, 50, 51, 100, 1000, 10_000, 1_000_000, 3_333_333, 1_000_000_000, 0, -5})}
	case OpDelegate, OpCreateVal:
		switch uni(t, "ak", 4) {
		case 0:
			return Amount{Kind: AmtOfHeadUp, N: pick(t, "pm", []int64{100, 500, 1000, 1000, 600}), Delta: d}
		default:
			return Amount{Kind: AmtAbs, N: pick(t, "n", []int64{1, 1_000_000, 2_000_000, 5_000_000, 1_234_567, 500_000})}
		}
	case OpUndelegate, OpRedelegate, OpCancelUnbond:
		switch uni(t, "ak", 4) {
		case 0:
			return Amount{Kind: AmtOfHeadDn, N: pick(t, "pm", []int64{100, 500, 1000, 600}), Delta: d}
		case 1:
			return Amount{Kind: AmtAbs, N: pick(t, "n", []int64{1, 1_000_000, 500_000, 2_000_000})}
		default:
			return Amount{Kind: AmtOfStake, N: pick(t, "pm", []int64{1000, 500, 100, 999, 1001}), Delta: d}
		}
	case OpPropose, OpAddFee:
		if uni(t, "ak", 7) == 0 {
			return Amount{Kind: AmtAbs, N: pick(t, "n", []int64{1, 9_999, 10_000, 1_000_000, 0})}
		}
		return Amount{Kind: AmtOfNeeded, N: pick(t, "pm", []int64{1000, 1000, 1000, 500, 100, 1001, 333, 1}), Delta: d}
	case OpWithdrawTokens, OpSend:
		if uni(t, "ak", 6) == 0 {
			return Amount{Kind: AmtOfBalance, N: pick(t, "pm", []int64{1, 500, 1000, 1001}), Delta: d}
		}
		return Amount{Kind: AmtAbs, N: pick(t, "n", []int64{1, 1_000_000, 1_000_000_000, 123, 0})}
	}
	return Amount{}
}

func genOp(t *rapid.T, p *Profile, nActors int) Op {
	k := weightedKind(t, p.Weights)
	op := Op{K: k, A: uni(t, "actor", nActors)}
	op.R = [3]int{uni(t, "r0", 64), uni(t, "r1", 64), uni(t, "r2", 64)}
	op.Amt = genAmount(t, k)
	if uni(t, "badvar", 1000) < p.BadVarPM {
		op.V = 1 + uni(t, "variant", 11)
	}
	switch k {
	case OpVote, OpGov, OpPrivDirect, OpCreateReporter:
		op.V = uni(t, "choice", 10)
	case OpPropose:
		op.V = pick(t, "category", []int{1, 1, 2, 2, 3, 3, 0})
		if uni(t, "exact", 4) != 0 {
			op.R[1] = 0 // most disputes name the stored report exactly
		}
	case OpMultiStake:
		n := rapid.IntRange(2, 5).Draw(t, "nmsgs")
		for i := 0; i < n; i++ {
			sk := pick(t, "subkind", []string{OpDelegate, OpDelegate, OpUndelegate, OpRedelegate, OpCancelUnbond})
			sub := Op{K: sk, R: [3]int{uni(t, "sr0", 16), uni(t, "sr1", 16), 0}, Amt: genAmount(t, sk)}
			op.M = append(op.M, sub)
		}
	}
	if p.Shape != nil {
		p.Shape(t, &op)
	}
	return op
}

func genGap(t *rapid.T, p *Profile) GapSpec {
	w := p.GapW
	if w == nil {
		w = defaultGapW
	}
	k := weighted(t, "gapKind", w)
	g := GapSpec{Kind: k}
	if k == 0 {
		g.Ms = pick(t, "gapMs", []int64{1, 2, 500, 999, 1000, 1500, 5000})
	}
	if k == GapToDeadline {
		g.Delta = pick(t, "deadlineDelta", []int64{0, 0, 1, -1, 1, -1, 1000})
	} else if k >= 5 {
		g.Delta = pick(t, "gapDelta", []int64{0, 0, 1, -1, 1000, -1000})
	}
	if uni(t, "jitter", 10) == 0 {
		g.Nanos = rapid.Int64Range(0, 999_999).Draw(t, "gapNanos")
	}
	return g
}

// GenHistory draws a whole history up front.
func GenHistory(t *rapid.T, p *Profile, thorough bool) History {
	var h History
	if p.Genesis != nil {
		h.Genesis = p.Genesis(t)
	} else {
		h.Genesis = GenGenesis(t)
	}
	nActors := h.Genesis.NumValidators + h.Genesis.NumUsers
	if p.Setup {
		// reporters: some users (and sometimes validators' operators) register, others select them
		var b0, b1 Block
		b0.Gap, b1.Gap = GapSpec{Kind: 2}, GapSpec{Kind: 2}
		nrep := rapid.IntRange(1, 4).Draw(t, "setupReporters")
		used := map[int]bool{}
		for i := 0; i < nrep; i++ {
			a := uni(t, "setupRep", nActors)
			if used[a] {
				continue
			}
			used[a] = true
			b0.Ops = append(b0.Ops, Op{K: OpCreateReporter, A: a, V: pick(t, "setupRate", []int{0, 1, 1, 2, 3, 9})})
		}
		nsel := rapid.IntRange(0, 4).Draw(t, "setupSelectors")
		for i := 0; i < nsel; i++ {
			a := uni(t, "setupSel", nActors)
			if used[a] {
				continue
			}
			used[a] = true
			b1.Ops = append(b1.Ops, Op{K: OpSelectReporter, A: a, R: [3]int{uni(t, "setupSelRef", 8), 0, 0}})
		}
		h.Blocks = append(h.Blocks, b0, b1)
	}
	if p.Prefix != nil {
		h.Blocks = append(h.Blocks, p.Prefix(func(label string, n int) int { return uni(t, label, n) })...)
	}
	if p.VoteGen != nil {
		// setup and prefix blocks get generated vote behaviour too (block index -1: "before the generated part")
		for i := range h.Blocks {
			if h.Blocks[i].Votes == nil {
				h.Blocks[i].Votes = p.VoteGen(func(label string, n int) int { return uni(t, label, n) }, h.Genesis.NumValidators, -1)
			}
		}
	}
	maxB := p.MaxBlocks
	if thorough && p.ThoroughScale > 1 {
		maxB *= p.ThoroughScale
	}
	nb := rapid.IntRange(p.MinBlocks, maxB).Draw(t, "numBlocks")
	for i := 0; i < nb; i++ {
		var b Block
		b.Gap = genGap(t, p)
		nops := rapid.IntRange(0, p.MaxOps).Draw(t, "numOps")
		for j := 0; j < nops; j++ {
			b.Ops = append(b.Ops, genOp(t, p, nActors))
		}
		if p.VoteGen != nil {
			b.Votes = p.VoteGen(func(label string, n int) int { return uni(t, label, n) }, h.Genesis.NumValidators, i)
		} else if uni(t, "misbehave", 1000) < p.AbsentPM {
			vs := VoteSpec{Val: uni(t, "badVal", h.Genesis.NumValidators), Mode: pick(t, "voteMode", []int{1, 1, 2, 3, 4})}
			if vs.Mode == 3 {
				vs.Payload = pick(t, "payload", [][]byte{[]byte("null"), []byte("{}"), {}}) // what a failing honest signer sends
			}
			b.Votes = append(b.Votes, vs)
		}
		h.Blocks = append(h.Blocks, b)
	}
	return h
}

// AllOpsWeights is the base weight table: every message type appears.
func AllOpsWeights() map[string]int {
	return map[string]int{
		OpTip: 12, OpSubmit: 25, OpRegisterSpec: 2, OpCreateReporter: 4, OpSelectReporter: 3, OpSwitchReporter: 2, OpRemoveSelector: 1,
		OpUnjailReporter: 2, OpWithdrawTip: 3, OpPropose: 5, OpAddFee: 3, OpVote: 6, OpAddEvidence: 1, OpFeeRefund: 3, OpClaimReward: 3,
		OpUpdateTeam: 1, OpReqAttest: 2, OpWithdrawTokens: 2, OpClaimDeposit: 2, OpDelegate: 4, OpUndelegate: 3, OpRedelegate: 2,
		OpCancelUnbond: 1, OpCreateVal: 1, OpUnjailVal: 1, OpSend: 2, OpGov: 1, OpPrivDirect: 1, OpMultiStake: 1,
	}
}
