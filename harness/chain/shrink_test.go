package chain

// Delta-debugging of a saved failing history (development / triage aid; rapid's own shrinking is bounded by
// -rapid.shrinktime, which thorough-tier histories of ~100 blocks exhaust): VERIF_SHRINK=<violation file>
// VERIF_SHRINK_OUT=<file>; the violation signature is kept fixed.

import (
	"encoding/json"
	"os"
	"testing"

	"verif/harness/pbt"
)

func shrinkMonitorFor(test string) func() Monitor {
	switch test {
	case "TestC02_NoHalt":
		return func() Monitor { return &haltMonitor{} }
	case "TestC03_Supply":
		return func() Monitor { return &supplyMonitor{} }
	case "TestC04_Escrow", "TestC04_EscrowSettlement":
		return func() Monitor { return &escrowMonitor{} }
	case "TestC05_StakeLedger":
		return func() Monitor { return &stakeMonitor{} }
	case "TestC07_Rounds", "TestC07_LongDepositRound":
		return func() Monitor { return newRoundsMonitor() }
	case "TestC08_AggregateHistory":
		return func() Monitor { return &aggHistMonitor{} }
	case "TestC10_ReportingPower":
		return func() Monitor { return &c10Monitor{} }
	case "TestC11_Slashing":
		return func() Monitor { return &slashMonitor{} }
	case "TestC12_Lifecycle":
		return func() Monitor { return c12NewMonitor() }
	case "TestC14_Bridge":
		return func() Monitor { return newC14Monitor() }
	case "TestC13_Settlement":
		return func() Monitor { return newC13Monitor() }
	case "TestC16_ValsetCheckpoints":
		return func() Monitor { return newC16Monitor() }
	case "TestC17_VoteExtensions":
		return func() Monitor { return &voteextMonitor{} }
	case "TestC18_AnteHistory":
		return func() Monitor { return &c18Monitor{} }
	case "TestC19_Authority":
		return func() Monitor { return &c19Monitor{} }
	}
	return nil
}

func TestShrinkHistory(t *testing.T) {
	in := os.Getenv("VERIF_SHRINK")
	if in == "" {
		t.Skip("VERIF_SHRINK not set")
	}
	raw, err := os.ReadFile(in)
	if err != nil {
		t.Fatal(err)
	}
	var rf struct {
		Property string          `json:"property"`
		Test     string          `json:"test"`
		Sig      string          `json:"signature"`
		Msg      string          `json:"message"`
		Case     json.RawMessage `json:"case"`
	}
	if err := json.Unmarshal(raw, &rf); err != nil {
		t.Fatal(err)
	}
	if sg := os.Getenv("VERIF_SHRINK_SIG"); sg != "" {
		rf.Sig = sg // shrink towards another signature the case shows with the known findings active
	}
	mk := shrinkMonitorFor(rf.Test)
	if mk == nil {
		t.Fatalf("no monitor for %s", rf.Test)
	}
	var h History
	if err := json.Unmarshal(rf.Case, &h); err != nil {
		t.Fatal(err)
	}
	runs := 0
	lastMsg := rf.Msg
	fails := func(c History) bool {
		runs++
		_, _, v, err := RunHistory(c, mk())
		if err != nil || v == nil {
			return false
		}
		if v.Sig == rf.Sig && !pbt.IsKnown(rf.Property, "") {
			lastMsg = v.Msg
			return true
		}
		return false
	}
	if !fails(h) {
		t.Fatalf("the case does not reproduce signature %s", rf.Sig)
	}
	clone := func(c History) History {
		b, _ := json.Marshal(c)
		var o History
		_ = json.Unmarshal(b, &o)
		return o
	}
	type pos struct{ b, o int }
	for changed := true; changed; {
		changed = false
		// 1. ddmin over operations
		var all []pos
		for bi, b := range h.Blocks {
			for oi := range b.Ops {
				all = append(all, pos{bi, oi})
			}
		}
		for chunk := (len(all) + 1) / 2; chunk >= 1; chunk /= 2 {
			for start := 0; start < len(all); {
				end := min(start+chunk, len(all))
				drop := map[pos]bool{}
				for _, p := range all[start:end] {
					drop[p] = true
				}
				c := clone(h)
				for bi := range c.Blocks {
					var keep []Op
					for oi, op := range c.Blocks[bi].Ops {
						if !drop[pos{bi, oi}] {
							keep = append(keep, op)
						}
					}
					c.Blocks[bi].Ops = keep
				}
				if fails(c) {
					h = c
					changed = true
					all = all[:0]
					for bi, b := range h.Blocks {
						for oi := range b.Ops {
							all = append(all, pos{bi, oi})
						}
					}
					continue // same start, new list
				}
				start = end
			}
			if chunk == 1 {
				break
			}
		}
		// 2. whole blocks, from the end
		for bi := len(h.Blocks) - 1; bi >= 0; bi-- {
			c := clone(h)
			c.Blocks = append(c.Blocks[:bi], c.Blocks[bi+1:]...)
			if fails(c) {
				h = c
				changed = true
			}
		}
		// 3. votes, gaps, idle
		for bi := range h.Blocks {
			if len(h.Blocks[bi].Votes) > 0 {
				c := clone(h)
				c.Blocks[bi].Votes = nil
				if fails(c) {
					h = c
					changed = true
				}
			}
			if g := h.Blocks[bi].Gap; g.Kind != 2 || g.Delta != 0 || g.Ms != 0 || g.Nanos != 0 {
				c := clone(h)
				c.Blocks[bi].Gap = GapSpec{Kind: 2}
				if fails(c) {
					h = c
					changed = true
				}
			}
		}
		// 4. genesis delegations and users
		for i := len(h.Genesis.UserDelegs) - 1; i >= 0; i-- {
			c := clone(h)
			c.Genesis.UserDelegs = append(c.Genesis.UserDelegs[:i], c.Genesis.UserDelegs[i+1:]...)
			if fails(c) {
				h = c
				changed = true
			}
		}
	}
	cj, _ := json.Marshal(h)
	out, _ := json.MarshalIndent(map[string]any{"property": rf.Property, "test": rf.Test, "signature": rf.Sig, "message": lastMsg, "case": json.RawMessage(cj)}, "", " ")
	dst := os.Getenv("VERIF_SHRINK_OUT")
	if dst == "" {
		dst = in + ".min.json"
	}
	if err := os.WriteFile(dst, out, 0o644); err != nil {
		t.Fatal(err)
	}
	nops := 0
	for _, b := range h.Blocks {
		nops += len(b.Ops)
	}
	t.Logf("shrunk to %d blocks / %d ops in %d runs -> %s", len(h.Blocks), nops, runs, dst)
}
