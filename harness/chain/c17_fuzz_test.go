package chain

import (
	"encoding/json"
	"os"
	"path/filepath"
	"sync"
	"testing"
	"time"

	abci "github.com/cometbft/cometbft/abci/types"
	cmtproto "github.com/cometbft/cometbft/proto/tendermint/types"

	layerapp "github.com/tellor-io/layer/app"
)

// FuzzC17_ExtensionBytes (thorough tier): arbitrary bytes as the vote extension of one validator.
// The handlers must not error or panic; if peers accept the extension, the proposal built from the
// commit that carries it must be accepted by ProcessProposal on the same state, and every
// single-element mutation of its injected data must be rejected. The chain is prepared once per
// fuzz worker and never finalises another block, so every iteration sees the same state.
var (
	fuzzOnce  sync.Once
	fuzzChain *Chain
	fuzzErr   error
)

func fuzzSetup() {
	cfg := DefaultGenesisCfg()
	cfg.NumValidators = 4
	cfg.ValTokens = []int64{100_000_000, 100_000_000, 50_000_000, 70_000_000}
	cfg.UserDelegs = [][3]int64{{0, 0, 5_000_000}, {1, 1, 5_000_000}}
	// validator 3 stays unregistered so that initial signatures in the fuzzed extension matter
	cfg.BootVotes = [][]VoteSpec{{{Val: 3, Mode: 1}}, {{Val: 3, Mode: 1}}}
	c, err := NewChain(cfg)
	if err != nil {
		fuzzErr = err
		return
	}
	w := NewWorld(c)
	for i := 0; i < 2; i++ {
		if br := c.NextBlock(BlockInput{Gap: time.Second, Votes: cfg.BootVotes[i]}); br.Halt != nil {
			fuzzErr = errString(br.Halt.String())
			return
		}
	}
	// a reporter, a tip and a report so that an aggregate and attestation requests exist
	steps := [][]Op{
		{{K: OpCreateReporter, A: 4}, {K: OpCreateReporter, A: 5}},
		{{K: OpSubmit, A: 4, R: [3]int{0, 1, 1}, S: "nodep"}, {K: OpSubmit, A: 5, R: [3]int{0, 2, 1}, S: "nodep"}},
		{}, {}, {},
	}
	for _, ops := range steps {
		w.Refresh()
		var raw [][]byte
		for _, op := range ops {
			bt, err := w.Build(op)
			if err != nil {
				fuzzErr = err
				return
			}
			if bt.Bytes != nil {
				raw = append(raw, bt.Bytes)
			}
		}
		if br := c.NextBlock(BlockInput{Gap: time.Second, Txs: raw, Votes: []VoteSpec{{Val: 3, Mode: 1}}}); br.Halt != nil {
			fuzzErr = errString(br.Halt.String())
			return
		}
	}
	fuzzChain = c
}

type layerappVoteExtTx = layerapp.VoteExtTx

type errString string

func (e errString) Error() string { return string(e) }

func FuzzC17_ExtensionBytes(f *testing.F) {
	f.Add([]byte("{}"), byte(0))
	f.Add([]byte("null"), byte(3))
	f.Add([]byte(`{"InitialSignature":{"SignatureA":"AQ==","SignatureB":"AQ=="}}`), byte(3))
	f.Add([]byte(`{"OracleAttestations":[{"Snapshot":"AA==","Attestation":""}],"ValsetSignature":{"Signature":"AAAA","Timestamp":1}}`), byte(1))
	f.Add([]byte{0xff, 0x00, 0x7b}, byte(2))
	f.Fuzz(func(t *testing.T, ext []byte, which byte) {
		fuzzOnce.Do(fuzzSetup)
		if fuzzErr != nil {
			t.Skip("setup failed: " + fuzzErr.Error())
		}
		c := fuzzChain
		h := c.Height + 1
		vals := c.currentValidators()
		target := vals[int(which)%len(vals)].v
		report := func(sig, msg string) {
			if d := os.Getenv("VERIF_OUT"); d != "" {
				_ = os.MkdirAll(d, 0o755)
				bz, _ := json.MarshalIndent(map[string]any{"property": "C17", "test": "FuzzC17_ExtensionBytes", "signature": sig, "message": msg, "case": map[string]any{"ext": ext, "which": which}}, "", " ")
				_ = os.WriteFile(filepath.Join(d, "FuzzC17_ExtensionBytes.fail.json"), bz, 0o644)
			}
			t.Fatalf("VIOLATION %s: %s", sig, msg)
		}
		var commit abci.ExtendedCommitInfo
		var plain abci.CommitInfo
		for _, sv := range vals {
			e := c.MimicExtension(sv.v, h)
			if sv.v == target {
				e = ext
			}
			var vr *abci.ResponseVerifyVoteExtension
			if hi := guard("VerifyVoteExtension", func() (err error) {
				vr, err = c.App.VerifyVoteExtension(&abci.RequestVerifyVoteExtension{Hash: []byte("fuzz"), ValidatorAddress: sv.v.ConsAddr, Height: h, VoteExtension: e})
				return err
			}); hi != nil {
				report("C17/handler-failed/VerifyVoteExtension", hi.String())
			}
			vi := abci.Validator{Address: sv.v.ConsAddr, Power: sv.power}
			ev := abci.ExtendedVoteInfo{Validator: vi, BlockIdFlag: cmtproto.BlockIDFlagAbsent}
			if vr.Status == abci.ResponseVerifyVoteExtension_ACCEPT {
				ev = abci.ExtendedVoteInfo{Validator: vi, BlockIdFlag: cmtproto.BlockIDFlagCommit, VoteExtension: e, ExtensionSignature: signExt(sv.v, e, h)}
			}
			commit.Votes = append(commit.Votes, ev)
			plain.Votes = append(plain.Votes, abci.VoteInfo{Validator: vi, BlockIdFlag: ev.BlockIdFlag})
		}
		// the fuzzed block would be h+1 carrying the commit of h; Prepare/Process do not change committed state
		t1 := c.Time.Add(2 * time.Second)
		var prep *abci.ResponsePrepareProposal
		if hi := guard("PrepareProposal", func() (err error) {
			prep, err = c.App.PrepareProposal(&abci.RequestPrepareProposal{MaxTxBytes: 22020096, LocalLastCommit: commit, Height: h + 1, Time: t1, ProposerAddress: vals[0].v.ConsAddr})
			return err
		}); hi != nil {
			report("C17/handler-failed/PrepareProposal", hi.String())
		}
		if len(prep.Txs) == 0 || !looksInjected(prep.Txs[0]) {
			report("C17/prepare-handler-panicked", "PrepareProposal returned no injected vote-extension tx (the handler panicked inside baseapp)")
		}
		// the SDK's own validation of the commit decides whether "valid extended commit" applies: it needs +2/3 with extensions
		tot, got := int64(0), int64(0)
		for _, v := range commit.Votes {
			tot += v.Validator.Power
			if v.BlockIdFlag == cmtproto.BlockIDFlagCommit {
				got += v.Validator.Power
			}
		}
		if got < tot*2/3+1 {
			return
		}
		process := func(txs [][]byte) (bool, *HaltInfo) {
			var pr *abci.ResponseProcessProposal
			hi := guard("ProcessProposal", func() (err error) {
				pr, err = c.App.ProcessProposal(&abci.RequestProcessProposal{Txs: txs, ProposedLastCommit: plain, Height: h + 1, Time: t1, ProposerAddress: vals[0].v.ConsAddr, Hash: []byte("fuzz")})
				return err
			})
			if hi != nil {
				return false, hi
			}
			return pr.Status == abci.ResponseProcessProposal_ACCEPT, nil
		}
		ok, hi := process(prep.Txs)
		if hi != nil {
			report("C17/handler-failed/ProcessProposal", hi.String())
		}
		if !ok {
			report("C17/honest-proposal-rejected", "the proposal built from a commit that carries the fuzzed (peer-accepted) extension was rejected by ProcessProposal on the same state")
		}
		var inj layerappVoteExtTx
		if err := json.Unmarshal(prep.Txs[0], &inj); err == nil {
			for _, mu := range mutationsOf(inj) {
				bz, err := json.Marshal(mu.tx)
				if err != nil {
					continue
				}
				ok, hi := process(append([][]byte{bz}, prep.Txs[1:]...))
				if hi != nil {
					report("C17/process-proposal-failed/mutated/"+mu.name, hi.String())
				}
				if ok {
					report("C17/mutated-proposal-accepted/"+mu.name, "a proposal whose injected data differs from the commit was accepted")
				}
			}
		}
	})
}
