package chain

// C19 — privileged changes need governance; messages touch only the signer's assets.
//
// Part 1 (authority): the six governance-gated configurations (oracle params, cycle list, data specs,
// reporter params, start of minting, attestation limit) are snapshotted before every block and must be
// byte-identical afterwards unless a governance proposal carrying the corresponding message was executed
// in that block; every such message sent directly by a user must be rejected. The team address may only
// move through an accepted MsgUpdateTeam signed by the address that is the team address at that point.
// A stored data spec never changes through MsgRegisterSpec (case-insensitively, as the registry keys are).
//
// Part 2 (frame): the profile sends at most one user transaction per block; the holdings vector
// (liquid, delegated + unbonding value, reward credit, selected reporter) of every account that signed
// nothing in the block is compared around the block. Only the three exceptions of the statement may
// reduce/change it; blocks with automatic effects (SDK slashing, dispute execution, reward payout,
// unbonding completion) are excluded for the affected component.

import (
	"fmt"
	"math/big"
	"sort"
	"strings"
	"testing"

	"pgregory.net/rapid"

	govv1 "github.com/cosmos/cosmos-sdk/x/gov/types/v1"

	disputetypes "github.com/tellor-io/layer/x/dispute/types"
	registrytypes "github.com/tellor-io/layer/x/registry/types"
	reportertypes "github.com/tellor-io/layer/x/reporter/types"

	"verif/harness/pbt"
)

type c19RmPre struct {
	known    bool // the named account had a selection and its reporter exists
	belowMin bool // its bonded stake was below the reporter's minimum
	full     bool // the reporter had at least MaxSelectors selectors
	detail   string
}

type c19Monitor struct {
	BaseMonitor
	cfg      c19Cfg
	hold     map[string]*c19Hold
	gov      c19Gov
	disputes map[uint64]disputetypes.Dispute
	rmPre    map[*BuiltTx]c19RmPre
	// statistics
	privAttempts, privRejected, privSigMismatch       int
	govExecuted, govConfigChanges                     int
	teamChanged, teamForeignRejected, teamOwnRejected int
	regAccepted, reregRejected, reregOtherCase        int
	foreignSignerRejected                             int
	foreignAccepted, foreignRejected                  int
	funded, fromBond, rmAccepted, rmRejected          int
	frameBlocks, frameAccounts                        int
	exclStake, exclCredit, exclRm                     int
	refundForeign                                     int
}

func (m *c19Monitor) Init(c *Chain, w *World) *pbt.Violation {
	cfg, err := c19ReadCfg(c)
	if err != nil {
		return nil
	}
	// the registry is case-insensitive by lower-casing its keys: two keys differing only in case must never exist
	seen := map[string]bool{}
	for k := range cfg.specs {
		if seen[strings.ToLower(k)] {
			return pbt.Violf("C19/registry/case-variant-key", "genesis registry holds two keys that differ only in letter case: %q", k)
		}
		seen[strings.ToLower(k)] = true
	}
	return nil
}

func (m *c19Monitor) Before(c *Chain, w *World, txs []*BuiltTx) *pbt.Violation {
	cfg, err := c19ReadCfg(c)
	if err != nil {
		return nil
	}
	m.cfg = cfg
	m.hold = c19ReadHoldings(c)
	m.gov = c19ReadGov(c)
	m.disputes = c19ReadDisputes(c)
	m.rmPre = map[*BuiltTx]c19RmPre{}
	ctx := c.Ctx()
	for _, t := range txs {
		for _, msg := range t.Msgs {
			rm, ok := msg.(*reportertypes.MsgRemoveSelector)
			if !ok {
				continue
			}
			var pre c19RmPre
			h := m.hold[c19Acc(rm.SelectorAddress)]
			if h != nil && h.hasSel {
				if rep, err := c.App.ReporterKeeper.Reporters.Get(ctx, []byte(h.sel)); err == nil {
					if p, err := c.App.ReporterKeeper.Params.Get(ctx); err == nil {
						n := len(c19SelectorsOf(m.hold, h.sel))
						pre.known = true
						pre.belowMin = h.bonded.Cmp(rep.MinTokensRequired.BigInt()) < 0
						pre.full = uint64(n) >= p.MaxSelectors
						pre.detail = fmt.Sprintf("selector bonded stake %s, reporter minimum %s, reporter has %d selectors, MaxSelectors %d", h.bonded, rep.MinTokensRequired, n, p.MaxSelectors)
					}
				}
			}
			m.rmPre[t] = pre
		}
	}
	return nil
}

// userTag describes the user transaction(s) of a block for signatures.
func c19UserTag(outs []TxOutcome, funded bool) string {
	var tags []string
	for _, o := range outs {
		if o.Tx.House || o.Res == nil {
			continue
		}
		t := o.Tx.Op.K
		if fb, ok := o.Tx.Note["frombond"]; ok && fb.(bool) {
			t += ":frombond"
		}
		if !o.OK() {
			t += ":rejected"
		} else if funded && (o.Tx.Op.K == OpPropose || o.Tx.Op.K == OpAddFee) {
			t += ":funded"
		}
		tags = append(tags, t)
	}
	switch len(tags) {
	case 0:
		return "no-user-tx"
	case 1:
		return tags[0]
	}
	sort.Strings(tags)
	return "multi(" + strings.Join(tags, ",") + ")"
}

func (m *c19Monitor) After(c *Chain, w *World, br *BlockResult, outs []TxOutcome) *pbt.Violation {
	if br.Halt != nil {
		return nil // halts belong to C02
	}
	cfgA, err := c19ReadCfg(c)
	if err != nil {
		return nil
	}
	holdA := c19ReadHoldings(c)
	govA := c19ReadGov(c)
	dispA := c19ReadDisputes(c)
	ev := c19BlockEvents(br)

	// ------------------------------------------------------------ governance proposals executed / ended in this block
	allowed := map[string]bool{}     // configuration names a proposal executed in this block may have changed
	allowedSpec := map[string]bool{} // lower-cased query types an executed proposal may have updated
	govEnded := false
	for id, sb := range m.gov.status {
		sa, still := govA.status[id]
		if !still || sa != sb {
			if sb == govv1.StatusVotingPeriod || sb == govv1.StatusDepositPeriod {
				govEnded = govEnded || !still || sa == govv1.StatusPassed || sa == govv1.StatusRejected || sa == govv1.StatusFailed
			}
		}
		if still && sa == govv1.StatusPassed && sb != govv1.StatusPassed {
			m.govExecuted++
			for _, pm := range govA.msgs[id] {
				if k := c19PrivKind(pm); k != "" {
					allowed[k] = true
					if u, ok := pm.(*registrytypes.MsgUpdateDataSpec); ok {
						allowedSpec[strings.ToLower(u.QueryType)] = true
					}
				}
			}
		}
	}

	// ------------------------------------------------------------ part 1a: directly sent privileged messages are rejected
	for _, o := range outs {
		if o.Res == nil {
			continue
		}
		for _, msg := range o.Tx.Msgs {
			k := c19PrivKind(msg)
			if k == "" {
				continue
			}
			m.privAttempts++
			if o.OK() {
				return pbt.Violf("C19/priv/accepted-not-from-governance/"+k, "block %d: %T sent directly by %s (authority field %v) was accepted", br.Height, msg, o.Tx.Signer.Addr, o.Tx.Note["authority"])
			}
			m.privRejected++
			if fs, ok := o.Tx.Note["foreign_signer"]; ok && fs.(bool) {
				m.privSigMismatch++
			}
		}
		if fs, ok := o.Tx.Note["foreign_signer"]; ok && fs.(bool) {
			// the signer field of a message names another account than the one whose key signed
			if o.OK() {
				return pbt.Violf("C19/signer/foreign-signer-accepted/"+o.Tx.Op.K, "block %d: %s signed by %s although its signer field names another account was accepted", br.Height, describeMsgs(o.Tx.Msgs), o.Tx.Signer.Addr)
			}
			m.foreignSignerRejected++
		}
	}

	// ------------------------------------------------------------ part 1b: configurations unchanged without an executed proposal
	for _, k := range []string{c19CfgOracleParams, c19CfgReporterParams, c19CfgMintInit, c19CfgSnapshotLimit} {
		if m.cfg.scalar[k] != cfgA.scalar[k] {
			if allowed[k] {
				m.govConfigChanges++
				continue
			}
			return pbt.Violf("C19/config-changed-without-governance/"+k, "block %d: %s changed from %s to %s and no governance proposal carrying that change was executed in this block", br.Height, k, m.cfg.scalar[k], cfgA.scalar[k])
		}
	}
	if !c19SameMap(m.cfg.cycle, cfgA.cycle) {
		if !allowed[c19CfgCyclelist] {
			return pbt.Violf("C19/config-changed-without-governance/"+c19CfgCyclelist, "block %d: the cycle list changed (%d -> %d entries) and no governance proposal replacing it was executed in this block", br.Height, len(m.cfg.cycle), len(cfgA.cycle))
		}
		m.govConfigChanges++
	}

	// ------------------------------------------------------------ part 1c: team address
	cur := m.cfg.team
	for _, o := range outs {
		if o.Res == nil {
			continue
		}
		for _, msg := range o.Tx.Msgs {
			ut, ok := msg.(*disputetypes.MsgUpdateTeam)
			if !ok {
				continue
			}
			fromTeam := c19Acc(ut.CurrentTeamAddress) == cur && string(o.Tx.Signer.Addr) == cur
			if o.OK() {
				if !fromTeam {
					return pbt.Violf("C19/team/update-accepted-not-from-current-team", "block %d: MsgUpdateTeam{current %s, new %s} signed by %s was accepted while the team address was %s",
						br.Height, ut.CurrentTeamAddress, ut.NewTeamAddress, o.Tx.Signer.Addr, c19Short(cur))
				}
				if nw := c19Acc(ut.NewTeamAddress); nw != cur {
					m.teamChanged++
					cur = nw
				}
			} else if fromTeam {
				m.teamOwnRejected++ // converse direction: counted only
			} else {
				m.teamForeignRejected++
			}
		}
	}
	if cfgA.team != cur {
		return pbt.Violf("C19/team/changed-without-accepted-update", "block %d: team address is %s but the accepted MsgUpdateTeam messages of this block lead from %s to %s",
			br.Height, c19Short(cfgA.team), c19Short(m.cfg.team), c19Short(cur))
	}

	// ------------------------------------------------------------ part 1d: registry
	present := map[string]string{} // lower-cased key -> stored bytes, evolving through the block's registrations
	for k, v := range m.cfg.specs {
		present[strings.ToLower(k)] = v
	}
	registered := map[string]bool{}
	for _, o := range outs {
		if o.Res == nil {
			continue
		}
		for _, msg := range o.Tx.Msgs {
			rs, ok := msg.(*registrytypes.MsgRegisterSpec)
			if !ok {
				continue
			}
			lk := strings.ToLower(rs.QueryType)
			_, was := present[lk]
			if o.OK() {
				m.regAccepted++
				registered[lk] = true
				if was {
					// accepted although registered: it is a replacement iff the stored bytes differ afterwards (checked below);
					// remember nothing here so that the comparison below sees the old bytes
					continue
				}
				present[lk] = "" // new: whatever bytes it stored
			} else if was {
				m.reregRejected++
				if _, exact := m.cfg.specs[rs.QueryType]; !exact {
					m.reregOtherCase++
				}
			}
		}
	}
	for k, vb := range m.cfg.specs {
		va, ok := cfgA.specs[k]
		if ok && va == vb {
			continue
		}
		if allowedSpec[strings.ToLower(k)] {
			m.govConfigChanges++
			continue
		}
		if registered[strings.ToLower(k)] {
			return pbt.Violf("C19/registry/spec-replaced-by-reregistration", "block %d: data spec %q was registered before this block and an accepted MsgRegisterSpec changed it\nbefore: %s\nafter:  %s", br.Height, k, vb, va)
		}
		return pbt.Violf("C19/registry/spec-changed-without-governance", "block %d: data spec %q changed (or vanished) and no governance proposal updating it was executed in this block\nbefore: %s\nafter:  %s", br.Height, k, vb, va)
	}
	for k := range cfgA.specs {
		if _, ok := m.cfg.specs[k]; ok {
			continue
		}
		if other, ok := c19LowerHas(m.cfg.specs, k); ok {
			return pbt.Violf("C19/registry/spec-shadowed-by-case-variant", "block %d: data spec %q was stored next to the registered spec %q which differs only in letter case", br.Height, k, other)
		}
		if !registered[strings.ToLower(k)] {
			return pbt.Violf("C19/registry/spec-added-without-registration", "block %d: data spec %q appeared without an accepted MsgRegisterSpec for it", br.Height, k)
		}
	}

	// ------------------------------------------------------------ part 2: frame
	signers := map[string]bool{}
	users := 0
	for _, o := range outs {
		if o.Res == nil {
			continue
		}
		signers[string(o.Tx.Signer.Addr)] = true
		if !o.Tx.House {
			users++
		}
	}
	// exceptions granted by the accepted transactions of this block
	mayLoseStake := map[string]string{}
	maySelChange := map[string]bool{}
	// (i) a dispute that became funded in this block: the disputed reporter and its backers
	funded := false
	for id, d := range dispA {
		if d.DisputeStatus != disputetypes.Voting {
			continue
		}
		if b, ok := m.disputes[id]; ok && b.DisputeStatus == disputetypes.Voting {
			continue
		}
		funded = true
		rep := c19Acc(d.InitialEvidence.Reporter)
		mayLoseStake[rep] = "disputed reporter"
		for _, a := range c19SelectorsOf(m.hold, rep) {
			mayLoseStake[a] = "selector of the disputed reporter"
		}
		for _, a := range c19ReportBackers(c, d.InitialEvidence) {
			mayLoseStake[a] = "backer of the disputed report"
		}
	}
	fundingTx := false
	for _, o := range outs {
		if !o.OK() {
			if _, ok := m.rmPre[o.Tx]; ok && o.Res != nil {
				m.rmRejected++
			}
			continue
		}
		for _, msg := range o.Tx.Msgs {
			if !o.Tx.House {
				if c19NamesForeign(msg, string(o.Tx.Signer.Addr), m.disputes) {
					m.foreignAccepted++
				}
			}
			switch x := msg.(type) {
			case *disputetypes.MsgProposeDispute:
				fundingTx = true
				if x.PayFromBond {
					m.fromBond++
					for _, a := range c19SelectorsOf(m.hold, string(o.Tx.Signer.Addr)) {
						mayLoseStake[a] = "selector of the reporter paying from its stake"
					}
				}
			case *disputetypes.MsgAddFeeToDispute:
				fundingTx = true
				if x.PayFromBond {
					m.fromBond++
					for _, a := range c19SelectorsOf(m.hold, string(o.Tx.Signer.Addr)) {
						mayLoseStake[a] = "selector of the reporter paying from its stake"
					}
				}
			case *reportertypes.MsgRemoveSelector:
				// (iii) removal of a selector that fell below a full reporter's minimum
				m.rmAccepted++
				pre := m.rmPre[o.Tx]
				sel := c19Acc(x.SelectorAddress)
				if ev.slash || ev.disputeExecuted {
					m.exclRm++ // the begin-blocker moved stake before the message ran: the precondition is not observable from the previous block
				} else if !pre.known {
					return pbt.Violf("C19/remove-selector/no-selection", "block %d: MsgRemoveSelector naming %s was accepted although that account had no selection", br.Height, x.SelectorAddress)
				} else if !pre.belowMin {
					return pbt.Violf("C19/remove-selector/minimum-met", "block %d: MsgRemoveSelector by %s removed the selection of %s although it met its reporter's minimum (%s)", br.Height, x.AnyAddress, x.SelectorAddress, pre.detail)
				} else if !pre.full {
					return pbt.Violf("C19/remove-selector/reporter-not-full", "block %d: MsgRemoveSelector by %s removed the selection of %s although its reporter was not full (%s)", br.Height, x.AnyAddress, x.SelectorAddress, pre.detail)
				}
				maySelChange[sel] = true
			}
		}
	}
	if funded && !fundingTx {
		// a dispute can only become funded through ProposeDispute / AddFeeToDispute
		funded = false
		for k := range mayLoseStake {
			delete(mayLoseStake, k)
		}
	}
	if funded {
		m.funded++
	}
	for _, o := range outs {
		if o.Res != nil && !o.OK() && !o.Tx.House {
			for _, msg := range o.Tx.Msgs {
				if c19NamesForeign(msg, string(o.Tx.Signer.Addr), m.disputes) {
					m.foreignRejected++
				}
			}
		}
	}
	if users >= 1 {
		tag := c19UserTag(outs, funded)
		m.frameBlocks++
		addrs := make([]string, 0, len(m.hold))
		for a := range m.hold {
			addrs = append(addrs, a)
		}
		sort.Strings(addrs)
		for _, a := range addrs {
			if signers[a] {
				continue
			}
			hb, ha := m.hold[a], holdA[a]
			if ha == nil {
				continue
			}
			m.frameAccounts++
			if ha.liquid.Cmp(hb.liquid) < 0 {
				return pbt.Violf("C19/frame/liquid-reduced/"+tag, "block %d: liquid balance of %s, which signed nothing in this block, fell from %s to %s", br.Height, c19Short(a), hb.liquid, ha.liquid)
			}
			// delegated stake (+ unbonding): tolerance one loya per delegation / entry for share rounding
			if ev.slash || ev.disputeExecuted {
				m.exclStake++
			} else if _, exc := mayLoseStake[a]; !exc {
				before, after := new(big.Int).Set(hb.staked), new(big.Int).Set(ha.staked)
				if ev.completedUnbonding[a] {
					// matured unbonding entries became liquid: compare the sum
					before.Add(before, hb.liquid)
					after.Add(after, ha.liquid)
				}
				tol := big.NewInt(hb.entries + 1)
				if new(big.Int).Add(after, tol).Cmp(before) < 0 {
					return pbt.Violf("C19/frame/stake-reduced/"+tag, "block %d: delegated+unbonding stake of %s, which signed nothing in this block and falls under none of the exceptions, fell from %s to %s (tolerance %s)", br.Height, c19Short(a), before, after, tol)
				}
			}
			if ev.aggregate {
				m.exclCredit++
			} else if ha.credit.Cmp(hb.credit) < 0 {
				return pbt.Violf("C19/frame/credit-reduced/"+tag, "block %d: reward credit of %s, which signed nothing in this block, fell from %s to %s (1e-18 loya)", br.Height, c19Short(a), hb.credit, ha.credit)
			}
			if (ha.hasSel != hb.hasSel || ha.sel != hb.sel) && !maySelChange[a] {
				return pbt.Violf("C19/frame/selection-changed/"+tag, "block %d: reporter selection of %s, which signed nothing in this block, changed from (%v,%s) to (%v,%s)", br.Height, c19Short(a), hb.hasSel, c19Short(hb.sel), ha.hasSel, c19Short(ha.sel))
			}
		}
	}

	// ------------------------------------------------------------ a fee refund requested for another payer is paid to the payer, not to the caller
	for _, o := range outs {
		if !o.OK() || users != 1 {
			continue
		}
		for _, msg := range o.Tx.Msgs {
			fr, ok := msg.(*disputetypes.MsgWithdrawFeeRefund)
			if !ok || fr.PayerAddress == fr.CallerAddress {
				continue
			}
			m.refundForeign++
			// what the transaction itself paid to the caller, from the bank events of this transaction (a balance
			// comparison over the whole block also sees staking rewards that x/distribution pays out when the
			// BeginBlocker returns escrowed stake to the caller's delegation)
			moves, bad := c13ParseMoves(o.Res.Events)
			if bad {
				continue
			}
			got := new(big.Int)
			for _, mv := range moves {
				if mv.to == fr.CallerAddress && mv.from != fr.CallerAddress {
					got.Add(got, mv.amt)
				}
			}
			if got.Sign() > 0 {
				return pbt.Violf("C19/frame/refund-paid-to-caller", "block %d: MsgWithdrawFeeRefund by %s for payer %s removed the payer's refund record and paid %s loya to the caller", br.Height, fr.CallerAddress, fr.PayerAddress, got)
			}
		}
	}
	return nil
}

func (m *c19Monitor) Classify(info *pbt.CaseInfo) {
	info.Nontrivial = m.foreignAccepted > 0
	add := func(cond bool, label string) {
		if cond {
			info.Classes = append(info.Classes, label)
		}
	}
	add(m.privRejected > 0, "priv-direct-rejected")
	add(m.privSigMismatch > 0, "priv-direct-names-gov")
	add(m.govExecuted > 0, "gov-proposal-executed")
	add(m.govConfigChanges > 0, "gov-changed-config")
	add(m.teamChanged > 0, "team-changed-by-team")
	add(m.teamForeignRejected > 0, "team-update-foreign-rejected")
	add(m.regAccepted > 0, "spec-registered")
	add(m.reregRejected > 0, "reregistration-rejected")
	add(m.reregOtherCase > 0, "reregistration-other-case-rejected")
	add(m.foreignSignerRejected > 0, "foreign-signer-rejected")
	add(m.funded > 0, "dispute-funded")
	add(m.fromBond > 0, "fee-from-bond")
	add(m.rmAccepted > 0, "selector-removed")
	add(m.rmRejected > 0, "remove-selector-rejected")
	add(m.refundForeign > 0, "refund-for-other-payer")
	add(m.foreignRejected > 0, "foreign-naming-rejected")
	add(m.exclStake > 0, "excluded-automatic-stake-effects")
	info.Classes = append(info.Classes, fmt.Sprintf("foreign-accepted>=%d", min(m.foreignAccepted/5*5, 30)))
	info.Note = map[string]int{"priv_attempts": m.privAttempts, "frame_blocks": m.frameBlocks, "frame_accounts": m.frameAccounts,
		"excl_stake": m.exclStake, "excl_credit": m.exclCredit, "gov_executed": m.govExecuted, "funded": m.funded, "from_bond": m.fromBond,
		"rm_accepted": m.rmAccepted, "team_changed": m.teamChanged}
}

// c19Script is the scripted prefix of one case in five: it reaches the two situations random operations
// almost never reach, the legitimate removal of a selector (a governance proposal lowers MaxSelectors to 1,
// the selector undelegates below the reporter's minimum, anybody removes it) and a fee refund requested by
// somebody else than the payer (a partially paid dispute fails after a day). Entries with an empty kind
// leave the randomly drawn operation in place (they also let block time pass).
func c19Script(nv int) []Op {
	u := func(i int) int { return nv + i }
	payer := u(2)
	if payer%8 == 7 { // R[1] doubles as the dispute selector of the refund operation
		payer = u(3)
	}
	rm := Op{K: OpRemoveSelector, A: u(4), R: [3]int{u(1), 0, 0}}
	refund := Op{K: OpFeeRefund, A: u(4), R: [3]int{0, payer, 0}, V: 1}
	return []Op{
		{K: OpCreateReporter, A: u(0), R: [3]int{0, 0, 0}, V: 1},
		{K: OpSelectReporter, A: u(1), R: [3]int{0, 0, 0}},
		{K: OpSubmit, A: 0, R: [3]int{0, 1, 1}},
		{K: OpGov, A: u(3), R: [3]int{0, 1, 0}, V: 4},
		{K: OpPropose, A: payer, R: [3]int{0, 0, 0}, V: 1, Amt: Amount{Kind: AmtOfNeeded, N: 500}},
		// the selector (not a reporter) tries to add to the fee "from bond": only a reporter may pay from the stake selected to it
		{K: OpAddFee, A: u(1), R: [3]int{0, 3, 0}, Amt: Amount{Kind: AmtAbs, N: 1000}},
		{K: OpUndelegate, A: u(1), R: [3]int{0, 0, 0}, Amt: Amount{Kind: AmtOfStake, N: 1000}},
		{}, rm, refund, {}, {}, rm, refund, {}, {}, rm, refund,
	}
}

// c19Profile: at most one user transaction per block, every message type that names a foreign account,
// the six privileged messages directly and through governance, team updates, (re-)registration of specs.
func c19Profile() *Profile {
	w := map[string]int{
		OpPrivDirect: 12, OpGov: 5, OpUpdateTeam: 6, OpRegisterSpec: 7,
		OpCreateReporter: 3, OpSelectReporter: 4, OpSwitchReporter: 8, OpRemoveSelector: 7, OpUnjailReporter: 3, OpWithdrawTip: 5,
		OpTip: 6, OpSubmit: 22, OpPropose: 10, OpAddFee: 6, OpVote: 6, OpAddEvidence: 1, OpFeeRefund: 6, OpClaimReward: 2,
		OpSend: 4, OpDelegate: 4, OpUndelegate: 5, OpRedelegate: 2, OpCancelUnbond: 1, OpCreateVal: 1,
		OpReqAttest: 1, OpWithdrawTokens: 1, OpClaimDeposit: 1,
	}
	// generation state of the current case (reset by Genesis, which GenHistory calls first): every choice
	// remains a pure function of rapid's draws
	nActors, idx := 0, 0
	var script []Op
	return &Profile{Name: "authz", Weights: w, MinBlocks: 30, MaxBlocks: 80, MaxOps: 1, AbsentPM: 0, BadVarPM: 40, Setup: false, ThoroughScale: 2,
		GapW: []int{2, 2, 6, 18, 10, 4, 3, 3, 5, 4, 3, 1, 1, 0},
		Genesis: func(t *rapid.T) GenesisCfg {
			g := GenGenesis(t)
			if uni(t, "fastGov", 4) != 0 {
				g.VotingSecs = 60
			}
			nActors, idx, script = g.NumValidators+g.NumUsers, 0, nil
			if uni(t, "scripted", 5) == 0 {
				// a genesis in which the scripted accounts can play their parts
				g.VotingSecs = 60
				g.MaxValidators = g.NumValidators + 3
				for i := range g.ValTokens {
					g.ValTokens[i] = 100_000_000
				}
				var ud [][3]int64
				for _, d := range g.UserDelegs {
					if d[0] > 1 {
						ud = append(ud, d)
					}
				}
				g.UserDelegs = append(ud, [3]int64{0, 0, 10_000_000}, [3]int64{1, 0, 2_000_000})
				script = c19Script(g.NumValidators)
				if uni(t, "scriptKeepsMinimum", 2) == 0 {
					// variant: one validator is outside the bonded set from the start; the selector holds the reporter's
					// minimum with a bonded validator and more with the unbonded one, and never undelegates: once the
					// reporter is over the (lowered) cap, every removal attempt by a third party must be refused
					k := uni(t, "unbondedVal", g.NumValidators)
					j := (k + 1 + uni(t, "bondedVal", g.NumValidators-1)) % g.NumValidators
					g.ValTokens[k] = 1_000_000
					g.MaxValidators = g.NumValidators - 1
					g.UserDelegs = append(ud, [3]int64{0, int64(j), 10_000_000}, [3]int64{1, int64(j), 2_000_000}, [3]int64{1, int64(k), 3_000_000})
					for i := range script {
						if script[i].K == OpUndelegate {
							script[i] = Op{}
						}
					}
				}
			}
			return g
		},
		Shape: func(t *rapid.T, op *Op) {
			k := idx
			idx++
			if script != nil {
				if k < len(script) && script[k].K != "" {
					*op = script[k]
					return
				}
			} else if k < 7 {
				// prelude (what Profile.Setup does, one operation per block): reporters, then selectors.
				// The operators of validators 0 and 1 become reporters (they always have stake), then one more account.
				*op = Op{K: OpCreateReporter, A: op.A, R: op.R, V: pick(t, "setupRate", []int{0, 1, 1, 2, 3, 9})}
				op.R[2] = 1 // a signer that has no selection yet
				if k < 2 {
					op.A, op.R[2] = k, 0
				}
				if k >= 3 {
					*op = Op{K: OpSelectReporter, A: op.A, R: [3]int{op.R[0], op.R[1], 1}}
				}
				return
			}
			switch op.K {
			case OpWithdrawTip, OpUnjailReporter, OpFeeRefund:
				// the message names another account than the signer
				if uni(t, "foreign", 3) == 0 {
					op.V = 1
				} else if op.V == 1 {
					op.V = 0
				}
			case OpPropose:
				// sometimes a reporter (the operators of validators 0 and 1 are reporters after the prelude) pays from the stake selected to it
				if uni(t, "fromBond", 5) == 0 {
					op.A, op.R[2] = uni(t, "bondPayer", 2), 3
				}
			case OpAddFee:
				if uni(t, "fromBond", 5) == 0 {
					op.A, op.R[1] = uni(t, "bondPayer", 2), 3
				} else if uni(t, "fromBondByAnybody", 6) == 0 {
					op.R[1] = 3 // whoever signs (often a plain selector or an account without any selection) asks to pay from bond
				}
			case OpSwitchReporter:
				// sometimes a reporter names an arbitrary account (not necessarily a reporter) as the new reporter
				// (the operators of validators 0 and 1 are reporters after the prelude)
				if uni(t, "anyTarget", 3) == 0 {
					op.V = 1
					op.R[2] = 8 * uni(t, "plainSigner", 2)
					if uni(t, "reporterSigner", 2) == 0 {
						op.A, op.R[2] = uni(t, "whichReporter", 2), 0
					}
				}
			case OpUpdateTeam:
				// sometimes an arbitrary account names the (genesis) team address as the new address
				if uni(t, "toTeam", 4) == 0 && nActors > 0 {
					op.R[0] = nActors - 1
					op.R[2] = 8
				}
			case OpRegisterSpec:
				// re-registration attempts whose query type differs from a registered one only by letter case or
				// surrounding whitespace (variants 7-10 of OpRegisterSpec), incl. the genesis types
				if uni(t, "respell", 3) == 0 {
					op.V = 7 + uni(t, "spelling", 4)
				}
			case OpCreateReporter:
				// commission rates above 100% are C09's subject
				if op.V == 5 || op.V == 6 || op.V == 7 {
					op.V = 1
				}
			}
		}}
}

func TestC19_Authority(t *testing.T) {
	runHistoryProp(t, "C19", "TestC19_Authority",
		"histories of 25-70 blocks (x2 thorough) with at most one user transaction per block drawn from all layer messages + staking/bank/gov: the six privileged messages sent directly (own address or the gov address as authority) and through real governance proposals, team updates by team and non-team, (re-)registration of data specs in other letter case, messages naming foreign selectors/payers/reporters; configuration snapshots and per-account holdings compared around every block; non-trivial = >=1 accepted transaction naming an account other than its signer; distinct by SHA-256 of the history JSON",
		c19Profile(), func() Monitor { return &c19Monitor{} })
}
