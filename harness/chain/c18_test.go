package chain

// C18 — staking transactions cannot move bonded stake more than 5% per 12-hour period.
//
// Statement (only-if): a transaction passes the admission checks only if
//   bonded + (combined amount of its create-validator/delegate/redelegate/cancel-unbonding messages) <= 105% of the recorded amount
//   bonded - (combined amount of its undelegate messages)                                           >=  95% of the recorded amount
// (combined over the whole transaction), and the recorded amount is refreshed only after its 12 h.
//
// TestC18_AnteDirect  : the real decorator called directly on a cached context of one real chain,
//                       thousands of generated (baseline, bonded, messages) cases.
// TestC18_AnteHistory : generated block histories of real signed staking transactions through the
//                       full ante chain, plus the tracker-refresh oracle across blocks.
// Both check the only-if direction; rejections of transactions within the bounds are counted only.

import (
	"fmt"
	"math/big"
	"strings"
	"testing"
	"time"

	"cosmossdk.io/math"

	sdk "github.com/cosmos/cosmos-sdk/types"
	"github.com/cosmos/cosmos-sdk/x/authz"
	banktypes "github.com/cosmos/cosmos-sdk/x/bank/types"
	stakingtypes "github.com/cosmos/cosmos-sdk/x/staking/types"

	reporterante "github.com/tellor-io/layer/x/reporter/ante"
	reportertypes "github.com/tellor-io/layer/x/reporter/types"

	"pgregory.net/rapid"

	"verif/harness/pbt"
)

// ---------------------------------------------------------------- function level

type c18Msg struct {
	K   string `json:"k"`   // mkval | delegate | redelegate | cancelunbond | undelegate | send | exec
	Amt string `json:"amt"` // loya, decimal
}

type c18Case struct {
	Real      bool     `json:"real"`  // true: the real staking keeper answers (bonded = chain state + Extra delegated on the cached context); false: stub returning Bonded
	Extra     int64    `json:"extra"` // Real only
	Bonded    string   `json:"bonded"`
	Baseline  string   `json:"baseline"`
	Msgs      []c18Msg `json:"msgs"`
	NoTracker bool     `json:"no_tracker,omitempty"` // recorded amount missing (outside the statement; counted only)
}

func c18GenBaseline(t *rapid.T) *big.Int {
	switch uni(t, "bcat", 7) {
	case 0:
		return big.NewInt(int64(uni(t, "btiny", 42)))
	case 1:
		return big.NewInt(rapid.Int64Range(0, 10_000).Draw(t, "bsmall"))
	case 2:
		return big.NewInt(300_000_000 + rapid.Int64Range(-1000, 1000).Draw(t, "bchain"))
	case 3:
		return big.NewInt(rapid.Int64Range(1, 1_000_000_000_000).Draw(t, "bwide"))
	case 4:
		x := rapid.Int64Range(1, 1_000_000_000).Draw(t, "bmul")
		return big.NewInt(20*x + pick(t, "bres", []int64{0, 1, 19, 10}))
	case 5:
		b, _ := c18Big("1000000000000000000000000") // beyond int64
		return b.Add(b, big.NewInt(rapid.Int64Range(0, 1_000_000).Draw(t, "bhuge")))
	default:
		return big.NewInt(int64(uni(t, "bmid", 4000)) * 1_000_003 % 977_777_777)
	}
}

// c18Split distributes total over n parts (all >= 0).
func c18Split(t *rapid.T, total *big.Int, n int) []*big.Int {
	out := make([]*big.Int, n)
	if n == 1 {
		out[0] = new(big.Int).Set(total)
		return out
	}
	switch uni(t, "split", 3) {
	case 0: // equal parts, remainder to the first
		q, r := new(big.Int).QuoRem(total, big.NewInt(int64(n)), new(big.Int))
		for i := range out {
			out[i] = new(big.Int).Set(q)
		}
		out[0].Add(out[0], r)
	case 1: // one big part, the others one loya
		rest := new(big.Int).Sub(total, big.NewInt(int64(n-1)))
		if rest.Sign() < 0 {
			for i := range out {
				out[i] = new(big.Int)
			}
			out[0].Set(total)
			break
		}
		out[0] = rest
		for i := 1; i < n; i++ {
			out[i] = big.NewInt(1)
		}
	default: // weighted
		ws := make([]int64, n)
		W := int64(0)
		for i := range ws {
			ws[i] = int64(1 + uni(t, "w", 9))
			W += ws[i]
		}
		acc := new(big.Int)
		for i := 0; i < n-1; i++ {
			p := new(big.Int).Mul(total, big.NewInt(ws[i]))
			p.Quo(p, big.NewInt(W))
			out[i] = p
			acc.Add(acc, p)
		}
		out[n-1] = new(big.Int).Sub(total, acc)
	}
	return out
}

// c18Amounts draws the amounts of the n messages of one side relative to the head-room h (>= 0).
func c18Amounts(t *rapid.T, h *big.Int, n int) []*big.Int {
	half := new(big.Int).Quo(h, big.NewInt(2))
	one := big.NewInt(1)
	switch uni(t, "target", 10) {
	case 0: // combined = half the head-room
		return c18Split(t, half, n)
	case 1: // combined = exactly the head-room
		return c18Split(t, h, n)
	case 2, 3: // combined = head-room + 1
		return c18Split(t, new(big.Int).Add(h, one), n)
	case 4: // combined = head-room - 1
		x := new(big.Int).Sub(h, one)
		if x.Sign() < 0 {
			x.SetInt64(0)
		}
		return c18Split(t, x, n)
	case 5: // combined = twice the head-room
		return c18Split(t, new(big.Int).Lsh(h, 1), n)
	case 6: // each message = the whole head-room
		out := make([]*big.Int, n)
		for i := range out {
			out[i] = new(big.Int).Set(h)
		}
		return out
	case 7: // each message = 0.6 x head-room
		out := make([]*big.Int, n)
		for i := range out {
			out[i] = new(big.Int).Quo(new(big.Int).Mul(h, big.NewInt(6)), big.NewInt(10))
		}
		return out
	case 8: // each message = head-room/n + 1
		out := make([]*big.Int, n)
		for i := range out {
			out[i] = new(big.Int).Add(new(big.Int).Quo(h, big.NewInt(int64(n))), one)
		}
		return out
	default: // each message = head-room + 1 (every message alone is too much)
		out := make([]*big.Int, n)
		for i := range out {
			out[i] = new(big.Int).Add(h, one)
		}
		return out
	}
}

func c18GenCase(realBonded int64) func(t *rapid.T) c18Case {
	return func(t *rapid.T) c18Case {
		var cs c18Case
		cs.Real = uni(t, "real", 3) == 0
		k := pick(t, "permille", []int64{0, 0, 0, 0, 10, -10, 25, -25, 30, -30, 45, -45, 49, -49, 50, -50, 51, -51, 60, -60, 100, -100})
		d := pick(t, "off", []int64{0, 0, 0, -1, 1, 7, -7})
		var B, C *big.Int
		if cs.Real {
			cs.Extra = pick(t, "extra", []int64{0, 0, 0, 1, 19, 20, 1_000_003, 50_000_000, 299_999_999})
			C = big.NewInt(realBonded + cs.Extra)
			B = new(big.Int).Mul(C, big.NewInt(1000))
			B.Quo(B, big.NewInt(1000+k))
			B.Add(B, big.NewInt(d))
		} else {
			B = c18GenBaseline(t)
			C = new(big.Int).Mul(B, big.NewInt(k))
			C.Quo(C, big.NewInt(1000))
			C.Add(C, B)
			C.Add(C, big.NewInt(d))
		}
		if B.Sign() < 0 {
			B.SetInt64(0)
		}
		if C.Sign() < 0 {
			C.SetInt64(0)
		}
		cs.Bonded, cs.Baseline = C.String(), B.String()
		// head-rooms for integer amounts: the largest x with 20(C+x) <= 21B is floor(21B/20)-C, the largest y with 20(C-y) >= 19B is C-ceil(19B/20)
		hu := new(big.Int).Mul(B, big.NewInt(21))
		hu.Quo(hu, big.NewInt(20))
		hu.Sub(hu, C)
		c95 := new(big.Int).Mul(B, big.NewInt(19))
		c95.Add(c95, big.NewInt(19))
		c95.Quo(c95, big.NewInt(20))
		hd := new(big.Int).Sub(C, c95)
		if hu.Sign() < 0 {
			hu.SetInt64(0)
		}
		if hd.Sign() < 0 {
			hd.SetInt64(0)
		}
		n := 1 + uni(t, "nmsgs", 6)
		addKinds := []string{OpDelegate, OpDelegate, OpDelegate, OpCreateVal, OpRedelegate, OpRedelegate, OpCancelUnbond}
		var kinds []string
		switch uni(t, "plan", 20) {
		case 0, 1, 2, 3, 4, 5, 6, 7: // stake-adding only
			for i := 0; i < n; i++ {
				kinds = append(kinds, pick(t, "akind", addKinds))
			}
		case 8, 9, 10, 11, 12: // undelegate only
			for i := 0; i < n; i++ {
				kinds = append(kinds, OpUndelegate)
			}
		default:
			for i := 0; i < n; i++ {
				if uni(t, "side", 5) < 2 {
					kinds = append(kinds, OpUndelegate)
				} else {
					kinds = append(kinds, pick(t, "akind", addKinds))
				}
			}
		}
		na, nu := 0, 0
		for _, kd := range kinds {
			if kd == OpUndelegate {
				nu++
			} else {
				na++
			}
		}
		var aa, ua []*big.Int
		if na > 0 {
			aa = c18Amounts(t, hu, na)
		}
		if nu > 0 {
			ua = c18Amounts(t, hd, nu)
		}
		ia, iu := 0, 0
		for _, kd := range kinds {
			if kd == OpUndelegate {
				cs.Msgs = append(cs.Msgs, c18Msg{K: kd, Amt: ua[iu].String()})
				iu++
			} else {
				cs.Msgs = append(cs.Msgs, c18Msg{K: kd, Amt: aa[ia].String()})
				ia++
			}
		}
		// messages the decorator must skip: a bank send, and a delegate wrapped in authz MsgExec (not a message "of the transaction"; counted)
		if uni(t, "withSend", 6) == 0 {
			cs.Msgs = append(cs.Msgs, c18Msg{K: OpSend, Amt: new(big.Int).Lsh(new(big.Int).Add(hu, big.NewInt(1)), 2).String()})
		}
		if uni(t, "withExec", 12) == 0 {
			cs.Msgs = append(cs.Msgs, c18Msg{K: "exec", Amt: new(big.Int).Add(hu, big.NewInt(1)).String()})
		}
		// order of the messages in the transaction
		for i := len(cs.Msgs) - 1; i > 0; i-- {
			j := uni(t, "shuffle", i+1)
			cs.Msgs[i], cs.Msgs[j] = cs.Msgs[j], cs.Msgs[i]
		}
		cs.NoTracker = uni(t, "noTracker", 60) == 0
		return cs
	}
}

func c18BuildMsgs(c *Chain, cs c18Case) ([]sdk.Msg, error) {
	del := c.Actors[c.Cfg.NumValidators].Addr.String()
	v0, v1 := c.Validators[0].ValAddr.String(), c.Validators[1].ValAddr.String()
	var msgs []sdk.Msg
	for _, m := range cs.Msgs {
		a, ok := c18Big(m.Amt)
		if !ok || a.Sign() < 0 {
			return nil, fmt.Errorf("bad amount %q", m.Amt)
		}
		cn := sdk.Coin{Denom: BondDenom, Amount: math.NewIntFromBigInt(a)}
		switch m.K {
		case OpCreateVal:
			msgs = append(msgs, &stakingtypes.MsgCreateValidator{Description: stakingtypes.Description{Moniker: "x"}, MinSelfDelegation: math.OneInt(),
				Commission:       stakingtypes.CommissionRates{Rate: math.LegacyZeroDec(), MaxRate: math.LegacyZeroDec(), MaxChangeRate: math.LegacyZeroDec()},
				ValidatorAddress: sdk.ValAddress(c.Actors[c.Cfg.NumValidators].Addr).String(), Value: cn})
		case OpDelegate:
			msgs = append(msgs, &stakingtypes.MsgDelegate{DelegatorAddress: del, ValidatorAddress: v0, Amount: cn})
		case OpRedelegate:
			msgs = append(msgs, &stakingtypes.MsgBeginRedelegate{DelegatorAddress: del, ValidatorSrcAddress: v0, ValidatorDstAddress: v1, Amount: cn})
		case OpCancelUnbond:
			msgs = append(msgs, &stakingtypes.MsgCancelUnbondingDelegation{DelegatorAddress: del, ValidatorAddress: v0, Amount: cn, CreationHeight: 3})
		case OpUndelegate:
			msgs = append(msgs, &stakingtypes.MsgUndelegate{DelegatorAddress: del, ValidatorAddress: v0, Amount: cn})
		case OpSend:
			msgs = append(msgs, &banktypes.MsgSend{FromAddress: del, ToAddress: c.Actors[0].Addr.String(), Amount: sdk.Coins{cn}})
		case "exec":
			ex := authz.NewMsgExec(c.Actors[0].Addr, []sdk.Msg{&stakingtypes.MsgDelegate{DelegatorAddress: del, ValidatorAddress: v0, Amount: cn}})
			msgs = append(msgs, &ex)
		default:
			return nil, fmt.Errorf("unknown message kind %q", m.K)
		}
	}
	return msgs, nil
}

func c18CheckDirect(c *Chain) func(cs c18Case, info *pbt.CaseInfo, st *pbt.Stats) error {
	return func(cs c18Case, info *pbt.CaseInfo, st *pbt.Stats) error {
		B, ok1 := c18Big(cs.Baseline)
		C, ok2 := c18Big(cs.Bonded)
		if !ok1 || !ok2 {
			return fmt.Errorf("bad case numbers")
		}
		ctx := c.Ctx() // fresh cache on the committed state: nothing written here survives the case
		var sk reportertypes.StakingKeeper = c.App.StakingKeeper
		if cs.Real {
			if cs.Extra > 0 {
				val, err := c.App.StakingKeeper.GetValidator(ctx, c.Validators[0].ValAddr)
				if err != nil {
					return err
				}
				if _, err := c.App.StakingKeeper.Delegate(ctx, c.Actors[c.Cfg.NumValidators+1].Addr, math.NewInt(cs.Extra), stakingtypes.Unbonded, val, true); err != nil {
					return fmt.Errorf("extra delegation: %w", err)
				}
			}
			got, err := c.App.StakingKeeper.TotalBondedTokens(ctx)
			if err != nil {
				return err
			}
			if got.BigInt().Cmp(C) != 0 {
				return fmt.Errorf("case assumes bonded %s but the chain has %s", C, got)
			}
		} else {
			sk = c18BondedStub{StakingKeeper: c.App.StakingKeeper, total: math.NewIntFromBigInt(C)}
		}
		if cs.NoTracker {
			if err := c.App.ReporterKeeper.Tracker.Remove(ctx); err != nil {
				return err
			}
		} else {
			exp := ctx.BlockTime().Add(6 * time.Hour)
			if err := c.App.ReporterKeeper.Tracker.Set(ctx, reportertypes.StakeTracker{Expiration: &exp, Amount: math.NewIntFromBigInt(B)}); err != nil {
				return err
			}
		}
		msgs, err := c18BuildMsgs(c, cs)
		if err != nil {
			return err
		}
		txb := c.TxConfig.NewTxBuilder()
		if err := txb.SetMsgs(msgs...); err != nil {
			return err
		}
		tx := txb.GetTx()
		if len(tx.GetMsgs()) != len(msgs) {
			return fmt.Errorf("tx lost messages")
		}
		dec := reporterante.NewTrackStakeChangesDecorator(c.App.ReporterKeeper, sk)
		called := false
		_, aerr := dec.AnteHandle(ctx, tx, false, func(ctx sdk.Context, _ sdk.Tx, _ bool) (sdk.Context, error) {
			called = true
			return ctx, nil
		})
		// under sdk.ChainAnteDecorators a decorator that returns no error lets the transaction through
		admitted := aerr == nil
		s := c18Classify(msgs)
		info.Classes = append(info.Classes, fmt.Sprintf("msgs=%d", len(s.adds)+len(s.unds)))
		if cs.Real {
			info.Classes = append(info.Classes, "bonded:real-keeper")
		} else {
			info.Classes = append(info.Classes, "bonded:stub")
		}
		if len(s.adds) > 0 && len(s.unds) > 0 {
			info.Classes = append(info.Classes, "mixed-sides")
		}
		if admitted {
			info.Classes = append(info.Classes, "admitted")
		} else {
			info.Classes = append(info.Classes, "rejected")
			if !strings.Contains(aerr.Error(), "exceeds the allowed 5% threshold") {
				st.Count("rejected-with-other-error", 1)
			}
		}
		if cs.NoTracker {
			// no recorded amount: outside the statement
			st.Count("tracker-missing", 1)
			if admitted && !called {
				st.Count("tracker-missing/returns-nil-without-calling-next", 1)
			}
			return nil
		}
		if admitted && !called {
			st.Count("admitted-without-calling-next", 1)
		}
		within := s.within(C, C, B)
		if s.zeroSideOutside(C, C, B) {
			st.Count("dont-care/zero-amount-side-while-bonded-outside-band", 1)
			if admitted {
				st.Count("dont-care/zero-amount-side-while-bonded-outside-band/admitted", 1)
			}
		}
		info.Nontrivial = c18WouldCross(s, C, C, B)
		if info.Nontrivial {
			info.Classes = append(info.Classes, "sum-crosses-none-alone")
		}
		if s.nested {
			st.Count("with-nested-exec", 1)
			if admitted {
				st.Count("nested-exceeding-delegate-admitted", 1)
			}
		}
		if within {
			info.Classes = append(info.Classes, "within-bounds")
			// exact boundary hit?
			if s.hasAdd() && !c18UpperOK(C, new(big.Int).Add(s.sumAdd, big.NewInt(1)), B) {
				info.Classes = append(info.Classes, "exactly-at-upper-bound")
			}
			if s.hasUnd() && !c18LowerOK(C, new(big.Int).Add(s.sumUnd, big.NewInt(1)), B) {
				info.Classes = append(info.Classes, "exactly-at-lower-bound")
			}
			if !admitted { // not required by the statement: counted
				if s.zeroSideOutside(C, C, B) {
					st.Count("converse/rejected-zero-amount-side-while-bonded-outside-band", 1)
				} else {
					st.Count("converse/rejected-within-bounds", 1)
				}
			}
			return nil
		}
		info.Classes = append(info.Classes, "beyond-bounds")
		if admitted {
			v, _ := c18Verdict(s, C, C, B)
			if v != nil {
				return v
			}
		}
		return nil
	}
}

func TestC18_AnteDirect(t *testing.T) {
	c, err := NewChain(DefaultGenesisCfg())
	if err != nil {
		t.Fatal(err)
	}
	defer c.Close()
	for i := 0; i < 5; i++ {
		if br := c.NextBlock(BlockInput{Gap: time.Second}); br.Halt != nil {
			t.Fatalf("bootstrap block %d: %v", br.Height, br.Halt)
		}
	}
	ctx := c.Ctx()
	tr, err := c.App.ReporterKeeper.Tracker.Get(ctx)
	if err != nil {
		t.Fatalf("tracker not set after bootstrap: %v", err)
	}
	bonded, err := c.App.StakingKeeper.TotalBondedTokens(ctx)
	if err != nil || !bonded.IsInt64() || !bonded.IsPositive() || !tr.Amount.Equal(bonded) {
		t.Fatalf("unexpected bootstrap state: bonded %v tracker %v err %v", bonded, tr.Amount, err)
	}
	pbt.Run(t, pbt.Prop[c18Case]{Property: "C18", Name: "TestC18_AnteDirect",
		Rule:  "the real TrackStakeChangesDecorator called on a cached context of a real chain: 1-6 staking messages of any mix (create validator, delegate, redelegate, cancel unbonding, undelegate; plus skipped bank/authz messages), amounts placed at 0.5x / 1x / 1x+1 / 1x-1 / 2x of the head-room and split across the messages, baseline/bonded pairs from 0 to 10^24 incl. bonded at -10%..+10% of baseline (bonded via the real staking keeper or a stub of its interface); oracle: admitted => bonded+sum(adds) <= 1.05*baseline and bonded-sum(undelegates) >= 0.95*baseline (exact integers); non-trivial = >=2 messages of one side whose combined amount crosses a bound that none crosses alone; distinct by SHA-256 of the case JSON",
		Gen:   c18GenCase(bonded.Int64()),
		Check: c18CheckDirect(c)})
}

// ---------------------------------------------------------------- history level

const c18Period = 12 * time.Hour

type c18Monitor struct {
	BaseMonitor
	// state of h-1 read in Before
	base      *big.Int
	expiry    time.Time
	bonded    *big.Int
	haveState bool
	// observed refresh bookkeeping
	lastRefresh     time.Time
	haveLastRefresh bool
	// counters
	evalExact, evalBracket, admittedStaking, rejectedAnte, rejectedWithin, crossingTxs int
	multiTxs, refreshes, exactExpiryHits, justBeforeExpiry, expiredNotRefreshed        int
	unevaluated, slashBlocks, nestedTxs, okStaking, knownHits, pastExpiryTxs           int
	rejectedZeroSide                                                                   int
	known                                                                              *pbt.Violation
}

func (m *c18Monitor) Finish(c *Chain, w *World) *pbt.Violation { return m.known }

func (m *c18Monitor) readState(c *Chain) error {
	ctx := c.Ctx()
	tr, err := c.App.ReporterKeeper.Tracker.Get(ctx)
	if err != nil {
		return err
	}
	b, err := c.App.StakingKeeper.TotalBondedTokens(ctx)
	if err != nil {
		return err
	}
	if tr.Expiration == nil {
		return fmt.Errorf("tracker without expiration")
	}
	m.base, m.expiry, m.bonded, m.haveState = tr.Amount.BigInt(), *tr.Expiration, b.BigInt(), true
	return nil
}

func (m *c18Monitor) Init(c *Chain, w *World) *pbt.Violation {
	if err := m.readState(c); err != nil {
		m.haveState = false
	}
	return nil
}

func (m *c18Monitor) Before(c *Chain, w *World, txs []*BuiltTx) *pbt.Violation {
	if err := m.readState(c); err != nil {
		m.haveState = false
	}
	return nil
}

// c18Admitted: the transaction got past the whole ante chain. A transaction that fails inside a
// message handler (log carries "message index:") has passed admission; anything else that failed is
// treated as not admitted (sound for an only-if check).
func c18Admitted(r *TxResult) bool {
	return r != nil && (r.Code == 0 || strings.Contains(r.Log, "message index:"))
}

func (m *c18Monitor) After(c *Chain, w *World, br *BlockResult, outs []TxOutcome) *pbt.Violation {
	if br.Halt != nil {
		return nil // halts belong to C02
	}
	if !m.haveState {
		m.unevaluated += len(outs)
		return nil
	}
	B, exp0 := m.base, m.expiry
	// ---- admission oracle. lo/hi bracket the bonded total seen by the admission check of each tx:
	// exact for the first transaction (state of h-1; BeginBlock does not move bonded tokens unless it
	// slashes, which this monitor detects and then skips the block), widened by the amounts of the
	// successfully executed staking messages before it (a message moves the bonded pool by at most its amount).
	slashed := false
	if br.Finalize != nil {
		for _, ev := range br.Finalize.Events {
			if ev.Type == "slash" {
				slashed = true
			}
		}
	}
	if slashed {
		m.slashBlocks++
	}
	lo, hi := new(big.Int).Set(m.bonded), new(big.Int).Set(m.bonded)
	inPeriod := br.Time.Before(exp0)
	for _, o := range outs {
		if o.Res == nil || o.Tx == nil {
			continue
		}
		s := c18Classify(o.Tx.Msgs)
		if s.nested {
			m.nestedTxs++
		}
		if !s.staking() {
			if o.Res.Code == 0 && !o.Tx.House && o.Tx.Op.K != OpSend {
				// an unknown successful transaction kind may have moved bonded tokens: stop evaluating this block
				slashed = true
			}
			continue
		}
		if len(s.adds)+len(s.unds) >= 2 {
			m.multiTxs++
		}
		admitted := c18Admitted(o.Res)
		if !inPeriod {
			// the block's time is at or past the expiry of the recorded amount (it is refreshed at the end of
			// this very block): the transaction is not "within" the tracking period of that amount; counted
			m.pastExpiryTxs++
		} else if s.negative || slashed {
			m.unevaluated++
		} else {
			exact := lo.Cmp(hi) == 0
			if c18WouldCross(s, lo, hi, B) {
				m.crossingTxs++
			}
			if admitted {
				m.admittedStaking++
				if exact {
					m.evalExact++
				} else {
					m.evalBracket++
				}
				if v, _ := c18Verdict(s, lo, hi, B); v != nil {
					v.Msg = fmt.Sprintf("block %d (time %s, tracker expiry %s), tx %s of actor %d: %s [bonded before this tx in [%s,%s]]",
						br.Height, br.Time.Format(time.RFC3339Nano), exp0.Format(time.RFC3339Nano), o.Tx.Op.K, o.Tx.Signer.Idx, v.Msg, lo, hi)
					if !pbt.IsKnown("C18", v.Sig) {
						return v
					}
					// a listed known finding must not end the history: remember the first one (reported by Finish,
					// where the runner counts it as a known hit) and keep checking the rest of the history
					m.knownHits++
					if m.known == nil {
						m.known = v
					}
				}
			} else {
				if strings.Contains(o.Res.Log, "exceeds the allowed 5% threshold") {
					m.rejectedAnte++
					if exact && s.within(lo, hi, B) {
						if s.zeroSideOutside(lo, hi, B) {
							m.rejectedZeroSide++
						} else {
							m.rejectedWithin++ // converse, not required by the statement
						}
					}
				}
			}
		}
		if o.Res.Code == 0 {
			m.okStaking++
			hi.Add(hi, s.sumAdd)
			lo.Sub(lo, s.sumUnd)
			lo.Sub(lo, s.redelegated) // a redelegation can take its amount out of the bonded pool (bonded source, unbonded destination)
		}
	}
	// ---- tracker oracle
	prevBase, prevExp := m.base, m.expiry
	if err := m.readState(c); err != nil {
		m.haveState = false
		return nil
	}
	changed := prevBase.Cmp(m.base) != 0 || !prevExp.Equal(m.expiry)
	due := !br.Time.Before(prevExp)
	if br.Time.Equal(prevExp) {
		m.exactExpiryHits++
	}
	if d := prevExp.Sub(br.Time); d > 0 && d <= time.Millisecond {
		m.justBeforeExpiry++
	}
	if changed {
		m.refreshes++
		if !due {
			return pbt.Violf("C18/tracker-refreshed-early", "block %d at %s changed the recorded amount %s -> %s (expiry %s -> %s) although its expiry had not been reached",
				br.Height, br.Time.Format(time.RFC3339Nano), prevBase, m.base, prevExp.Format(time.RFC3339Nano), m.expiry.Format(time.RFC3339Nano))
		}
		if m.haveLastRefresh && br.Time.Sub(m.lastRefresh) < c18Period {
			return pbt.Violf("C18/tracker-refreshed-within-12h", "block %d at %s refreshed the recorded amount only %s after the previous refresh at %s",
				br.Height, br.Time.Format(time.RFC3339Nano), br.Time.Sub(m.lastRefresh), m.lastRefresh.Format(time.RFC3339Nano))
		}
		if m.base.Cmp(m.bonded) != 0 {
			return pbt.Violf("C18/tracker-refresh-wrong-amount", "block %d refreshed the recorded amount to %s but the bonded total at the end of the block is %s", br.Height, m.base, m.bonded)
		}
		if want := br.Time.Add(c18Period); !m.expiry.Equal(want) {
			return pbt.Violf("C18/tracker-refresh-wrong-period", "block %d at %s refreshed the recorded amount with expiry %s, expected block time + 12h = %s",
				br.Height, br.Time.Format(time.RFC3339Nano), m.expiry.Format(time.RFC3339Nano), want.Format(time.RFC3339Nano))
		}
		m.lastRefresh, m.haveLastRefresh = br.Time, true
	} else if due {
		m.expiredNotRefreshed++ // the statement only says "only after"; counted
	}
	return nil
}

func (m *c18Monitor) Classify(info *pbt.CaseInfo) {
	info.Nontrivial = m.crossingTxs > 0
	if m.crossingTxs > 0 {
		info.Classes = append(info.Classes, "sum-crosses-none-alone")
	}
	if m.refreshes > 0 {
		info.Classes = append(info.Classes, "period-rollover")
	}
	if m.refreshes > 1 {
		info.Classes = append(info.Classes, "several-rollovers")
	}
	if m.exactExpiryHits > 0 {
		info.Classes = append(info.Classes, "block-time==expiry")
	}
	if m.justBeforeExpiry > 0 {
		info.Classes = append(info.Classes, "block-time==expiry-1ms")
	}
	if m.rejectedAnte > 0 {
		info.Classes = append(info.Classes, "rejected-by-5%-check")
	}
	if m.evalBracket > 0 {
		info.Classes = append(info.Classes, "evaluated-after-earlier-staking-tx")
	}
	if m.multiTxs > 0 {
		info.Classes = append(info.Classes, "multi-message-tx")
	}
	if m.pastExpiryTxs > 0 {
		info.Classes = append(info.Classes, "dont-care:staking-tx-in-block-past-expiry")
	}
	if m.rejectedWithin > 0 {
		info.Classes = append(info.Classes, "converse:rejected-within-bounds")
	}
	if m.rejectedZeroSide > 0 {
		info.Classes = append(info.Classes, "dont-care:zero-amount-side-rejected-while-bonded-outside-band")
	}
	if m.expiredNotRefreshed > 0 {
		info.Classes = append(info.Classes, "counted:expired-not-refreshed")
	}
	info.Note = map[string]int{"eval_exact": m.evalExact, "eval_bracket": m.evalBracket, "admitted_staking": m.admittedStaking, "ok_staking": m.okStaking,
		"rejected_by_check": m.rejectedAnte, "converse_rejected_within": m.rejectedWithin, "crossing": m.crossingTxs, "refreshes": m.refreshes,
		"expired_not_refreshed": m.expiredNotRefreshed, "unevaluated": m.unevaluated, "past_expiry_txs": m.pastExpiryTxs}
}

func c18UpAmount(t *rapid.T) Amount {
	if uni(t, "upAbs", 8) == 0 {
		return Amount{Kind: AmtAbs, N: pick(t, "upN", []int64{1, 1_000_000, 2_000_000, 5_000_000})}
	}
	return Amount{Kind: AmtOfHeadUp, N: pick(t, "upPM", []int64{500, 1000, 600, 500, 1000, 600, 334, 250, 100}), Delta: pick(t, "upD", []int64{0, 0, 1})}
}

func c18DnAmount(t *rapid.T) Amount {
	if uni(t, "dnAbs", 8) == 0 {
		return Amount{Kind: AmtAbs, N: pick(t, "dnN", []int64{1, 1_000_000, 2_000_000, 5_000_000})}
	}
	return Amount{Kind: AmtOfHeadDn, N: pick(t, "dnPM", []int64{500, 1000, 600, 500, 1000, 600, 334, 250, 100}), Delta: pick(t, "dnD", []int64{0, 0, 1})}
}

// c18Shape places every staking amount relative to the head-room of the 5% rule and rebuilds
// multi-message transactions with 1-6 messages; signers of undelegations are mostly validator
// operators undelegating from their own validator (they hold enough stake for 5% of the total).
func c18Shape(t *rapid.T, op *Op) {
	switch op.K {
	case OpDelegate, OpCreateVal, OpRedelegate:
		op.Amt = c18UpAmount(t)
	case OpCancelUnbond:
		if uni(t, "cancelAll", 2) == 0 {
			op.Amt = Amount{Kind: AmtOfStake, N: 1000}
		} else {
			op.Amt = c18UpAmount(t)
		}
	case OpUndelegate:
		op.Amt = c18DnAmount(t)
	case OpMultiStake:
		op.M = nil
		own := uni(t, "ownVal", 4) != 0
		if own {
			op.A = uni(t, "operator", 3)
		}
		n := 1 + uni(t, "nsub", 6)
		plan := uni(t, "mplan", 10) // 0-4 adds only, 5-7 undelegates only, 8-9 mixed
		for i := 0; i < n; i++ {
			var sk string
			switch {
			case plan <= 4:
				sk = pick(t, "sub", []string{OpDelegate, OpDelegate, OpDelegate, OpRedelegate, OpCancelUnbond})
			case plan <= 7:
				sk = OpUndelegate
			default:
				sk = pick(t, "sub", []string{OpDelegate, OpDelegate, OpUndelegate, OpUndelegate, OpRedelegate, OpCancelUnbond})
			}
			sub := Op{K: sk, R: [3]int{uni(t, "sr0", 16), uni(t, "sr1", 16), 0}}
			if own && (sk == OpUndelegate || sk == OpRedelegate || sk == OpCancelUnbond) {
				sub.R[0] = op.A
			}
			switch sk {
			case OpUndelegate:
				sub.Amt = c18DnAmount(t)
			case OpCancelUnbond:
				if uni(t, "cancelAll", 2) == 0 {
					sub.Amt = Amount{Kind: AmtOfStake, N: 1000}
				} else {
					sub.Amt = c18UpAmount(t)
				}
			default:
				sub.Amt = c18UpAmount(t)
			}
			op.M = append(op.M, sub)
		}
	}
}

func c18Profile() *Profile {
	w := map[string]int{OpMultiStake: 45, OpDelegate: 14, OpUndelegate: 14, OpRedelegate: 8, OpCancelUnbond: 6, OpCreateVal: 3, OpSend: 2}
	return &Profile{Name: "ante", Weights: w, MinBlocks: 6, MaxBlocks: 22, MaxOps: 3, AbsentPM: 0, BadVarPM: 0, Setup: false, ThoroughScale: 3,
		Shape: c18Shape,
		//          ms 1ms 1s  6s  1m 10m 1h 12h 24h
		GapW: []int{2, 3, 8, 10, 2, 1, 3, 12, 1}}
}

func TestC18_AnteHistory(t *testing.T) {
	runHistoryProp(t, "C18", "TestC18_AnteHistory",
		"histories of 6-22 blocks (x3 thorough) x 0-3 real signed staking transactions (single create-validator/delegate/redelegate/cancel-unbonding/undelegate and 1-6-message transactions of any mix) with amounts at 0.1x..1x(+1) of the current head-room of the 5% rule, block gaps of ms/seconds/1h/12h(+-1ms,+-1s)/24h within and across tracking periods, through the full ante chain; oracle per admitted tx (passed ante, incl. those failing later in a handler) of a block whose time is before the expiry of the recorded amount: bonded+sum(adds) <= 1.05*recorded and bonded-sum(undelegates) >= 0.95*recorded with the bonded total bracketed from the state of h-1 and the earlier successful staking txs of the block; tracker oracle: (amount, expiry) change only in a block with time >= old expiry and >= 12h after the previous refresh, to (bonded after the block, time+12h); non-trivial = >=1 tx with >=2 messages of one side whose combined amount crosses a bound that none crosses alone; distinct by SHA-256 of the history JSON",
		c18Profile(), func() Monitor { return &c18Monitor{} })
}
