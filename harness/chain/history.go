package chain

import (
	"time"
)

// A History is a plain value: drawn entirely up front by one generator, executed
// afterwards, replayable from JSON without the library. Operations contain only
// indexes and amount specs; the executor resolves them against the state reached.

type History struct {
	Genesis GenesisCfg `json:"genesis"`
	Blocks  []Block    `json:"blocks"`
}

type Block struct {
	Gap   GapSpec    `json:"gap"`
	Votes []VoteSpec `json:"votes,omitempty"`
	Ops   []Op       `json:"ops,omitempty"`
	Idle  int        `json:"idle,omitempty"` // operation-free blocks (1 s apart, honest votes) executed before this block
}

// GapSpec is a block-time gap; Kind selects a named boundary constant, Ms is used for Kind 0.
type GapSpec struct {
	Kind  int   `json:"k"`
	Ms    int64 `json:"ms,omitempty"`
	Delta int64 `json:"d,omitempty"` // added milliseconds (-1, 0, +1)
	Nanos int64 `json:"ns,omitempty"`
}

var gapConsts = []time.Duration{
	0:  0, // explicit Ms
	1:  time.Millisecond,
	2:  time.Second,
	3:  6 * time.Second,
	4:  time.Minute,
	5:  10 * time.Minute,
	6:  time.Hour,
	7:  12 * time.Hour,
	8:  24 * time.Hour,
	9:  48 * time.Hour,
	10: 72 * time.Hour,
	11: 14 * 24 * time.Hour,
	12: 21 * 24 * time.Hour,
	13: 30 * 24 * time.Hour,
	14: 0, // late-bound: jump to the earliest pending deadline of the chain state (+Delta ms); see Chain.deadlineGap
}

// GapToDeadline is the gap kind that the executor resolves against the state: the next block is placed at
// the earliest upcoming deadline (vote end, dispute end, fee deadline, stake-tracker expiry, jail release,
// unbonding maturity, gov voting end, 12 h after the newest aggregate, two weeks after the last checkpoint)
// plus Delta milliseconds (-1, 0, +1).
const GapToDeadline = 14

func (g GapSpec) Duration() time.Duration {
	var d time.Duration
	if g.Kind <= 0 || g.Kind >= len(gapConsts) {
		d = time.Duration(g.Ms) * time.Millisecond
	} else {
		d = gapConsts[g.Kind]
	}
	d += time.Duration(g.Delta)*time.Millisecond + time.Duration(g.Nanos)
	if d < time.Millisecond {
		d = time.Millisecond
	}
	return d
}

// Amount spec: what fraction of which quantity, plus a +-delta in loya.
type Amount struct {
	Kind  int   `json:"k"` // see amt* constants
	N     int64 `json:"n"` // absolute loya (Kind 0) or per-mille (other kinds)
	Delta int64 `json:"d,omitempty"`
}

const (
	AmtAbs       = 0 // N loya
	AmtOfBalance = 1 // N/1000 of the signer's liquid balance
	AmtOfStake   = 2 // N/1000 of the signer's delegation to the referenced validator
	AmtOfHeadUp  = 3 // N/1000 of the ante head-room upwards (1.05*baseline - bonded)
	AmtOfHeadDn  = 4 // N/1000 of the ante head-room downwards (bonded - 0.95*baseline)
	AmtOfNeeded  = 5 // N/1000 of what the referenced dispute still needs (slash - fee total) or of the round fee
)

// Op kinds.
const (
	OpTip            = "tip"
	OpSubmit         = "submit"
	OpRegisterSpec   = "regspec"
	OpCreateReporter = "mkreporter"
	OpSelectReporter = "select"
	OpSwitchReporter = "switch"
	OpRemoveSelector = "rmselector"
	OpUnjailReporter = "unjailrep"
	OpWithdrawTip    = "wtip"
	OpPropose        = "propose"
	OpAddFee         = "addfee"
	OpVote           = "vote"
	OpAddEvidence    = "evidence"
	OpFeeRefund      = "refund"
	OpClaimReward    = "claim"
	OpUpdateTeam     = "team"
	OpReqAttest      = "attest"
	OpWithdrawTokens = "bwithdraw"
	OpClaimDeposit   = "bclaim"
	OpDelegate       = "delegate"
	OpUndelegate     = "undelegate"
	OpRedelegate     = "redelegate"
	OpCancelUnbond   = "cancelunbond"
	OpCreateVal      = "mkval"
	OpUnjailVal      = "unjailval"
	OpSend           = "send"
	OpGov            = "gov"     // privileged message through a real governance proposal
	OpPrivDirect     = "privdir" // privileged message sent directly by a user (must be rejected)
	OpMultiStake     = "multistake" // one tx with several staking messages (C18)
)

// Op is one user operation = one signed transaction.
type Op struct {
	K   string `json:"k"`
	A   int    `json:"a"`           // signer actor index
	R   [3]int `json:"r"`           // late-bound references (meaning per kind)
	Amt Amount `json:"amt"`
	V   int    `json:"v,omitempty"` // variant
	S   string `json:"s,omitempty"` // string payload
	M   []Op   `json:"m,omitempty"` // sub-operations (OpMultiStake)
}
