package chain

import (
	"testing"
	"time"
)

func TestSmoke(t *testing.T) {
	c, err := NewChain(DefaultGenesisCfg())
	if err != nil {
		t.Fatal(err)
	}
	defer c.Close()
	t0 := time.Now()
	for i := 0; i < 6; i++ {
		r := c.NextBlock(BlockInput{Gap: time.Second})
		if r.Halt != nil {
			t.Fatalf("block %d halted: %v\n%s", r.Height, r.Halt, r.Halt.Stack)
		}
	}
	t.Logf("6 blocks in %v", time.Since(t0))
	ctx := c.Ctx()
	for _, v := range c.Validators {
		a, err := c.App.BridgeKeeper.GetEVMAddressByOperator(ctx, v.ValAddr.String())
		t.Logf("val %d evm %x err %v", v.Idx, a, err)
	}
	idx, err := c.App.BridgeKeeper.GetLatestCheckpointIndex(ctx)
	t.Logf("checkpoint idx %d err %v", idx, err)
}
