package chain

import (
	"context"
	"crypto/sha256"
	"encoding/hex"
	"encoding/json"
	"fmt"
	"sync"
	"time"

	abci "github.com/cometbft/cometbft/abci/types"
	"github.com/spf13/viper"

	"github.com/cosmos/cosmos-sdk/crypto/keyring"
	sdk "github.com/cosmos/cosmos-sdk/types"

	layerapp "github.com/tellor-io/layer/app"
)

// InitialSigs returns the two initial bridge signatures a validator's signer produces
// (the keyring signs sha256(msg), so the signed digest is sha256(sha256(text))).
func InitialSigs(a *Actor) (sigA, sigB []byte) {
	hA := sha256.Sum256([]byte("TellorLayer: Initial bridge signature A"))
	hB := sha256.Sum256([]byte("TellorLayer: Initial bridge signature B"))
	sigA, _ = a.Priv.Sign(hA[:])
	sigB, _ = a.Priv.Sign(hB[:])
	return
}

// MimicExtension builds what an honest validator's ExtendVoteHandler produces for height h
// (state of h-1): initial signatures while unregistered, one attestation per request of
// height h-1, and the signature over the latest checkpoint if it sits in the previous set
// and has not signed yet. It mirrors app/extend_vote.go using the keeper's getters; it is an
// *input* to the system under test (what honest validators send), not an oracle.
func (c *Chain) MimicExtension(v *Validator, h int64) []byte {
	ext := layerapp.BridgeVoteExtension{}
	if h <= 1 {
		a, b := InitialSigs(v.Operator)
		ext.InitialSignature = layerapp.InitialSignature{SignatureA: a, SignatureB: b}
		bz, _ := json.Marshal(ext)
		return bz
	}
	ctx := c.Ctx()
	bk := c.App.BridgeKeeper
	op := v.ValAddr.String()
	if _, err := bk.GetEVMAddressByOperator(ctx, op); err != nil {
		a, b := InitialSigs(v.Operator)
		ext.InitialSignature = layerapp.InitialSignature{SignatureA: a, SignatureB: b}
	}
	if reqs, err := bk.GetAttestationRequestsByHeight(ctx, uint64(h-1)); err == nil {
		for _, r := range reqs.Requests {
			sig, err := v.Operator.Priv.Sign(r.Snapshot)
			if err != nil {
				break
			}
			ext.OracleAttestations = append(ext.OracleAttestations, layerapp.OracleAttestation{Snapshot: r.Snapshot, Attestation: sig})
		}
	}
	// checkpoint signature
	func() {
		idx, err := bk.GetLatestCheckpointIndex(ctx)
		if err != nil {
			return
		}
		ts, err := bk.GetValidatorTimestampByIdxFromStorage(ctx, idx)
		if err != nil {
			return
		}
		did, valIdx, err := bk.GetValidatorDidSignCheckpoint(ctx, op, ts.Timestamp)
		if err != nil || did || valIdx < 0 {
			return
		}
		params, err := bk.GetValidatorCheckpointParamsFromStorage(ctx, ts.Timestamp)
		if err != nil {
			return
		}
		cp, err := hex.DecodeString(hex.EncodeToString(params.Checkpoint))
		if err != nil {
			return
		}
		sig, err := v.Operator.Priv.Sign(cp)
		if err != nil {
			return
		}
		ext.ValsetSignature = layerapp.BridgeValsetSignature{Signature: sig, Timestamp: ts.Timestamp}
	}()
	bz, _ := json.Marshal(ext)
	return bz
}

var viperMu sync.Mutex

// realExtendVote calls the application's real ExtendVoteHandler through ABCI with the
// validator's key selected via viper (test keyring backend in the chain's home dir).
func (c *Chain) realExtendVote(v *Validator, h int64, t time.Time, txs [][]byte) (*abci.ResponseExtendVote, error) {
	viperMu.Lock()
	defer viperMu.Unlock()
	if err := c.ensureKeyring(); err != nil {
		return nil, err
	}
	viper.Set("keyring-backend", "test")
	viper.Set("keyring-dir", c.homeDir)
	viper.Set("key-name", v.Operator.Label)
	defer viper.Set("key-name", "")
	return c.App.ExtendVote(context.Background(), &abci.RequestExtendVote{Hash: []byte("blockhash-" + fmt.Sprint(h)), Height: h, Time: t, Txs: txs, ProposerAddress: c.proposerAddr()})
}

var keyringDone = map[string]bool{}

func (c *Chain) ensureKeyring() error {
	if keyringDone[c.homeDir] {
		return nil
	}
	kr, err := keyring.New(sdk.KeyringServiceName(), "test", c.homeDir, nil, c.App.AppCodec())
	if err != nil {
		return err
	}
	for _, v := range c.Validators {
		if err := kr.ImportPrivKeyHex(v.Operator.Label, hex.EncodeToString(v.Operator.Priv.Bytes()), "secp256k1"); err != nil {
			return err
		}
	}
	keyringDone[c.homeDir] = true
	return nil
}

// MutateExtension applies one structure-aware mutation to an honest extension. kind selects the
// mutation, arg parameterises it; both come from the generated case.
func (c *Chain) MutateExtension(honest []byte, v *Validator, kind, arg int) []byte {
	var ext layerapp.BridgeVoteExtension
	_ = json.Unmarshal(honest, &ext)
	lens := []int{0, 1, 32, 63, 64, 65, 66, 200}
	cut := func(b []byte, n int) []byte {
		out := make([]byte, n)
		copy(out, b)
		return out
	}
	other := c.Validators[mod(arg, len(c.Validators))]
	switch mod(kind, 16) {
	case 0: // initial signature A of a hostile length
		a, b := InitialSigs(v.Operator)
		ext.InitialSignature = layerapp.InitialSignature{SignatureA: cut(a, lens[mod(arg, len(lens))]), SignatureB: b}
	case 1: // initial signature B of a hostile length
		a, b := InitialSigs(v.Operator)
		ext.InitialSignature = layerapp.InitialSignature{SignatureA: a, SignatureB: cut(b, lens[mod(arg, len(lens))])}
	case 2: // replay another validator's initial signatures
		a, b := InitialSigs(other.Operator)
		ext.InitialSignature = layerapp.InitialSignature{SignatureA: a, SignatureB: b}
	case 3: // A from self, B from another validator
		a, _ := InitialSigs(v.Operator)
		_, b := InitialSigs(other.Operator)
		ext.InitialSignature = layerapp.InitialSignature{SignatureA: a, SignatureB: b}
	case 4: // re-send initial signatures although (possibly) registered
		a, b := InitialSigs(v.Operator)
		ext.InitialSignature = layerapp.InitialSignature{SignatureA: a, SignatureB: b}
	case 5: // valset signature of a hostile length / wrong timestamp
		ext.ValsetSignature.Signature = cut(ext.ValsetSignature.Signature, lens[mod(arg, len(lens))])
		if arg%2 == 1 {
			ext.ValsetSignature.Timestamp += uint64(arg)
		}
	case 6: // valset signature by a foreign key over the right checkpoint timestamp
		if idx, err := c.App.BridgeKeeper.GetLatestCheckpointIndex(c.Ctx()); err == nil {
			if ts, err := c.App.BridgeKeeper.GetValidatorTimestampByIdxFromStorage(c.Ctx(), idx); err == nil {
				if p, err := c.App.BridgeKeeper.GetValidatorCheckpointParamsFromStorage(c.Ctx(), ts.Timestamp); err == nil {
					sig, _ := other.Operator.Priv.Sign(p.Checkpoint)
					ext.ValsetSignature = layerapp.BridgeValsetSignature{Signature: sig, Timestamp: ts.Timestamp}
				}
			}
		}
	case 7: // duplicate the attestations
		ext.OracleAttestations = append(ext.OracleAttestations, ext.OracleAttestations...)
	case 8: // foreign snapshot
		ext.OracleAttestations = append(ext.OracleAttestations, layerapp.OracleAttestation{Snapshot: []byte(fmt.Sprintf("foreign-snapshot-%d", arg)), Attestation: cut([]byte{1, 2, 3}, lens[mod(arg, len(lens))])})
	case 9: // attestation signatures of hostile lengths, nil snapshot
		for i := range ext.OracleAttestations {
			ext.OracleAttestations[i].Attestation = cut(ext.OracleAttestations[i].Attestation, lens[mod(arg+i, len(lens))])
		}
		if arg%3 == 0 {
			ext.OracleAttestations = append(ext.OracleAttestations, layerapp.OracleAttestation{})
		}
	case 10: // drop everything
		ext = layerapp.BridgeVoteExtension{}
	case 11: // truncated JSON
		bz, _ := json.Marshal(ext)
		if len(bz) > 0 {
			return bz[:mod(arg*7, len(bz))]
		}
		return bz
	case 12: // not JSON at all
		return [][]byte{[]byte("null"), []byte("[]"), []byte("\"x\""), {}, {0xff, 0xfe}, []byte("{\"OracleAttestations\":null,\"InitialSignature\":null,\"ValsetSignature\":null}"), []byte("123"), []byte("{\"InitialSignature\":{\"SignatureA\":\"AQ==\",\"SignatureB\":\"AQ==\"}}")}[mod(arg, 8)]
	case 13: // oversized attestation list
		for i := 0; i < 50; i++ {
			ext.OracleAttestations = append(ext.OracleAttestations, layerapp.OracleAttestation{Snapshot: []byte{byte(i)}, Attestation: []byte{byte(arg)}})
		}
	case 14: // huge base64 field
		ext.ValsetSignature.Signature = make([]byte, 5000)
	case 15: // honest, unchanged
	}
	bz, _ := json.Marshal(ext)
	return bz
}
