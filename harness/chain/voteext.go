package chain

import (
	"context"
	"crypto/sha256"
	"encoding/hex"
	"encoding/json"
	"fmt"
	"sync"
	"time"

	abci "github.com/cometbft/cometbft/abci/types"
	"github.com/spf13/viper"

	"github.com/cosmos/cosmos-sdk/crypto/keyring"
	sdk "github.com/cosmos/cosmos-sdk/types"

	layerapp "github.com/tellor-io/layer/app"
)

// InitialSigs returns the two initial bridge signatures a validator's signer produces
// (the keyring signs sha256(msg), so the signed digest is sha256(sha256(text))).
func InitialSigs(a *Actor) (sigA, sigB []byte) {
	hA := sha256.Sum256([]byte("TellorLayer: Initial bridge signature A"))
	hB := sha256.Sum256([]byte("TellorLayer: Initial bridge signature B"))
	sigA, _ = a.Priv.Sign(hA[:])
	sigB, _ = a.Priv.Sign(hB[:])
	return
}

// MimicExtension builds what an honest validator's ExtendVoteHandler produces for height h
// (state of h-1): initial signatures while unregistered, one attestation per request of
// height h-1, and the signature over the latest checkpoint if it sits in the previous set
// and has not signed yet. It mirrors app/extend_vote.go using the keeper's getters; it is an
// *input* to the system under test (what honest validators send), not an oracle.
func (c *Chain) MimicExtension(v *Validator, h int64) []byte {
	ext := layerapp.BridgeVoteExtension{}
	if h <= 1 {
		a, b := InitialSigs(v.Operator)
		ext.InitialSignature = layerapp.InitialSignature{SignatureA: a, SignatureB: b}
		bz, _ := json.Marshal(ext)
		return bz
	}
	ctx := c.Ctx()
	bk := c.App.BridgeKeeper
	op := v.ValAddr.String()
	if _, err := bk.GetEVMAddressByOperator(ctx, op); err != nil {
		a, b := InitialSigs(v.Operator)
		ext.InitialSignature = layerapp.InitialSignature{SignatureA: a, SignatureB: b}
	}
	if reqs, err := bk.GetAttestationRequestsByHeight(ctx, uint64(h-1)); err == nil {
		for _, r := range reqs.Requests {
			sig, err := v.Operator.Priv.Sign(r.Snapshot)
			if err != nil {
				break
			}
			ext.OracleAttestations = append(ext.OracleAttestations, layerapp.OracleAttestation{Snapshot: r.Snapshot, Attestation: sig})
		}
	}
	// checkpoint signature
	func() {
		idx, err := bk.GetLatestCheckpointIndex(ctx)
		if err != nil {
			return
		}
		ts, err := bk.GetValidatorTimestampByIdxFromStorage(ctx, idx)
		if err != nil {
			return
		}
		did, valIdx, err := bk.GetValidatorDidSignCheckpoint(ctx, op, ts.Timestamp)
		if err != nil || did || valIdx < 0 {
			return
		}
		params, err := bk.GetValidatorCheckpointParamsFromStorage(ctx, ts.Timestamp)
		if err != nil {
			return
		}
		cp, err := hex.DecodeString(hex.EncodeToString(params.Checkpoint))
		if err != nil {
			return
		}
		sig, err := v.Operator.Priv.Sign(cp)
		if err != nil {
			return
		}
		ext.ValsetSignature = layerapp.BridgeValsetSignature{Signature: sig, Timestamp: ts.Timestamp}
	}()
	bz, _ := json.Marshal(ext)
	return bz
}

var viperMu sync.Mutex

// realExtendVote calls the application's real ExtendVoteHandler through ABCI with the
// validator's key selected via viper (test keyring backend in the chain's home dir).
func (c *Chain) realExtendVote(v *Validator, h int64, t time.Time, txs [][]byte) (*abci.ResponseExtendVote, error) {
	viperMu.Lock()
	defer viperMu.Unlock()
	if err := c.ensureKeyring(); err != nil {
		return nil, err
	}
	viper.Set("keyring-backend", "test")
	viper.Set("keyring-dir", c.homeDir)
	viper.Set("key-name", v.Operator.Label)
	defer viper.Set("key-name", "")
	return c.App.ExtendVote(context.Background(), &abci.RequestExtendVote{Hash: []byte("blockhash-" + fmt.Sprint(h)), Height: h, Time: t, Txs: txs, ProposerAddress: c.proposerAddr()})
}

var keyringDone = map[string]bool{}

func (c *Chain) ensureKeyring() error {
	if keyringDone[c.homeDir] {
		return nil
	}
	kr, err := keyring.New(sdk.KeyringServiceName(), "test", c.homeDir, nil, c.App.AppCodec())
	if err != nil {
		return err
	}
	for _, v := range c.Validators {
		if err := kr.ImportPrivKeyHex(v.Operator.Label, hex.EncodeToString(v.Operator.Priv.Bytes()), "secp256k1"); err != nil {
			return err
		}
	}
	keyringDone[c.homeDir] = true
	return nil
}
