package chain

// C04 — escrow accounts always cover what the chain says it owes.
// Oracle: state invariants recomputed from the store after every block, plus the
// claim-failure guard. No operation is modelled, so the invariants are sound by construction.

import (
	"fmt"

	"pgregory.net/rapid"
	"strings"
	"testing"

	"cosmossdk.io/math"

	authtypes "github.com/cosmos/cosmos-sdk/x/auth/types"

	disputetypes "github.com/tellor-io/layer/x/dispute/types"
	oracletypes "github.com/tellor-io/layer/x/oracle/types"
	reportertypes "github.com/tellor-io/layer/x/reporter/types"

	"verif/harness/pbt"
)

type escrowMonitor struct {
	BaseMonitor
	payoutsMultiOrigin int
	withdrawals        int
	payouts            int
	creditsBefore      math.LegacyDec
	fromBondPayments   int64
	knownRounding      int
	knownRate          int
	escrowBefore       math.Int
	claimedOf          map[uint64]math.Int // dispute id -> voter rewards paid out so far
	escrowSeen         map[string]math.Int // dispute hash -> recorded escrow total (previous block)
	fromStakeSeen      map[string]math.Int // dispute hash -> recorded fee-from-stake total (previous block)
	escrowShort        map[string]math.Int // dispute hash -> amount recorded as taken from stake but never moved into the dispute account
	knownShort         int
	shortEver          math.Int // sum of all such shortfalls so far (settled disputes keep their gap: it is paid out of the other disputes' funds)
	potChecks          int
}

func sumSelectorTips(c *Chain) math.LegacyDec {
	total := math.LegacyZeroDec()
	_ = c.App.ReporterKeeper.SelectorTips.Walk(c.Ctx(), nil, func(_ []byte, v math.LegacyDec) (bool, error) {
		total = total.Add(v)
		return false, nil
	})
	return total
}

func (m *escrowMonitor) Before(c *Chain, w *World, txs []*BuiltTx) *pbt.Violation {
	m.creditsBefore = sumSelectorTips(c)
	m.escrowBefore = moduleBal(c, reportertypes.TipsEscrowPool)
	return nil
}

func (m *escrowMonitor) After(c *Chain, w *World, br *BlockResult, outs []TxOutcome) *pbt.Violation {
	if br.Halt != nil {
		return nil
	}
	tags := blockTags(br, outs)
	// (1) oracle account == sum of unpaid tips on open queries (exact)
	return m.after2(c, br, outs, tags, math.ZeroInt())
}

func (m *escrowMonitor) after2(c *Chain, br *BlockResult, outs []TxOutcome, tags string, tips math.Int) *pbt.Violation {
	ctx := c.Ctx()
	iter, err := c.App.OracleKeeper.Query.Iterate(ctx, nil)
	if err == nil {
		vals, _ := iter.Values()
		for _, q := range vals {
			tips = tips.Add(q.Amount)
		}
	}
	oracleBal := moduleBal(c, oracletypes.ModuleName)
	if !oracleBal.Equal(tips) {
		return pbt.Violf("C04/oracle-account-vs-open-tips", "block %d: oracle account holds %s, open queries carry %s in unpaid tips", br.Height, oracleBal, tips)
	}
	// (2) tips escrow pool >= sum of credited, not yet withdrawn rewards
	credits := sumSelectorTips(c)
	escrowBal := moduleBal(c, reportertypes.TipsEscrowPool)
	negative := false
	_ = c.App.ReporterKeeper.SelectorTips.Walk(ctx, nil, func(k []byte, v math.LegacyDec) (bool, error) {
		if v.IsNegative() {
			negative = true
		}
		return false, nil
	})
	rateAboveOne := false
	_ = c.App.ReporterKeeper.Reporters.Walk(ctx, nil, func(_ []byte, r reportertypes.OracleReporter) (bool, error) {
		if r.CommissionRate.GT(math.LegacyOneDec()) || r.CommissionRate.IsNegative() {
			rateAboveOne = true
		}
		return false, nil
	})
	if (negative || math.LegacyNewDecFromInt(escrowBal).LT(credits)) && rateAboveOne {
		// CreateReporter accepts commission rates up to 100 but DivvyingTips uses the rate as a fraction:
		// a rate above 1 gives the selectors negative shares (and, by truncation toward zero, 10^-18 excess)
		sig := "C04/credits-vs-escrow/commission-rate-outside-0-1"
		if !pbt.IsKnown("C04", sig) {
			return pbt.Violf(sig, "block %d: a reporter with a commission rate outside [0,1] exists; negative credit=%v, escrow %s vs credits %s", br.Height, negative, escrowBal, credits)
		}
		m.knownRate++
	} else if negative {
		return pbt.Violf("C04/negative-credit", "block %d: a selector's reward credit is negative", br.Height)
	} else if math.LegacyNewDecFromInt(escrowBal).LT(credits) {
		detail := ""
		_ = c.App.ReporterKeeper.SelectorTips.Walk(ctx, nil, func(k []byte, v math.LegacyDec) (bool, error) {
			detail += fmt.Sprintf(" %x=%s", k[:4], v)
			return false, nil
		})
		return pbt.Violf("C04/tips-escrow-underfunded", "block %d: tips escrow pool holds %s but selectors are credited %s (before the block: %s / %s); credits:%s", br.Height, escrowBal, credits, m.escrowBefore, m.creditsBefore, detail)
	}
	// (3) dispute account >= fees + escrowed stake of unsettled disputes (latest round per dispute hash)
	type agg struct {
		round uint64
		owed  math.Int
	}
	latest := map[string]agg{}
	_ = c.App.DisputeKeeper.Disputes.Walk(ctx, nil, func(id uint64, d disputetypes.Dispute) (bool, error) {
		key := string(d.HashId)
		if cur, ok := latest[key]; ok && cur.round >= d.DisputeRound {
			return false, nil
		}
		owed := math.ZeroInt()
		settled := d.DisputeStatus == disputetypes.Failed
		if v, err := c.App.DisputeKeeper.Votes.Get(ctx, id); err == nil && v.Executed {
			settled = true
		}
		if !settled {
			owed = d.FeeTotal
			if esc, err := c.App.ReporterKeeper.DisputedDelegationAmounts.Get(ctx, d.HashId); err == nil {
				owed = owed.Add(esc.Total)
			}
		}
		latest[key] = agg{d.DisputeRound, owed}
		return false, nil
	})
	owedTotal := math.ZeroInt()
	for _, a := range latest {
		owedTotal = owedTotal.Add(a.owed)
	}
	disputeBal := moduleBal(c, disputetypes.ModuleName)
	// what the stake records say was taken in this block vs. what the staking pools actually sent to the dispute account
	// (bank events of the block's transactions; escrow and fee-from-stake happen in ProposeDispute/AddFeeToDispute only)
	if m.escrowSeen == nil {
		m.escrowSeen, m.fromStakeSeen, m.escrowShort = map[string]math.Int{}, map[string]math.Int{}, map[string]math.Int{}
	}
	recordedIn := math.ZeroInt()
	var newHashes []string
	escrowNow, fromStakeNow := map[string]math.Int{}, map[string]math.Int{}
	_ = c.App.ReporterKeeper.DisputedDelegationAmounts.Walk(ctx, nil, func(k []byte, da reportertypes.DelegationsAmounts) (bool, error) {
		escrowNow[string(k)] = da.Total
		if _, ok := m.escrowSeen[string(k)]; !ok {
			recordedIn = recordedIn.Add(da.Total)
			newHashes = append(newHashes, string(k))
		}
		return false, nil
	})
	_ = c.App.ReporterKeeper.FeePaidFromStake.Walk(ctx, nil, func(k []byte, da reportertypes.DelegationsAmounts) (bool, error) {
		fromStakeNow[string(k)] = da.Total
		prev, ok := m.fromStakeSeen[string(k)]
		if !ok {
			prev = math.ZeroInt()
		}
		if da.Total.GT(prev) {
			recordedIn = recordedIn.Add(da.Total.Sub(prev))
		}
		return false, nil
	})
	m.escrowSeen, m.fromStakeSeen = escrowNow, fromStakeNow
	movedIn := math.ZeroInt()
	disputeAcc := authtypes.NewModuleAddress(disputetypes.ModuleName).String()
	bondedAcc, notBondedAcc := authtypes.NewModuleAddress("bonded_tokens_pool").String(), authtypes.NewModuleAddress("not_bonded_tokens_pool").String()
	for _, o := range outs {
		if !o.OK() {
			continue
		}
		moves, _ := c13ParseMoves(o.Res.Events)
		for _, mv := range moves {
			if mv.to == disputeAcc && (mv.from == bondedAcc || mv.from == notBondedAcc) {
				movedIn = movedIn.Add(math.NewIntFromBigInt(mv.amt))
			}
		}
	}
	if short := recordedIn.Sub(movedIn); short.IsPositive() && len(newHashes) > 0 {
		for _, hsh := range newHashes { // cannot be told apart within one block: attributed to every escrow record created in it
			m.escrowShort[hsh] = short
		}
		if m.shortEver.IsNil() {
			m.shortEver = math.ZeroInt()
		}
		m.shortEver = m.shortEver.Add(short)
	}
	if m.shortEver.IsNil() {
		m.shortEver = math.ZeroInt()
	}
	shortOpen := math.ZeroInt()
	for hsh, a := range latest {
		if a.owed.IsPositive() {
			if sh, ok := m.escrowShort[hsh]; ok {
				shortOpen = shortOpen.Add(sh)
			}
		}
	}
	for _, o := range outs {
		if o.OK() && (o.Tx.Op.K == OpPropose || o.Tx.Op.K == OpAddFee) {
			if fb, ok := o.Tx.Note["frombond"].(bool); ok && fb {
				m.fromBondPayments++
			}
		}
	}
	if short := owedTotal.Sub(disputeBal); short.IsPositive() && short.LTE(math.NewInt(100*m.fromBondPayments)) {
		// a fee paid from stake is recorded in full but per-selector truncation moves up to one loya per
		// selector less into the dispute account (x/reporter/keeper/withdraw.go FeefromReporterStake)
		sig := "C04/dispute-account-underfunded/fee-from-stake-rounding"
		if !pbt.IsKnown("C04", sig) {
			return pbt.Violf(sig, "block %d: dispute account holds %s but unsettled disputes account for %s in fees and escrowed stake (%d fee payments from stake so far)", br.Height, disputeBal, owedTotal, m.fromBondPayments)
		}
		m.knownRounding++
	} else if disputeBal.LT(owedTotal) && shortOpen.IsPositive() && disputeBal.Add(shortOpen).Add(math.NewInt(100*m.fromBondPayments)).GTE(owedTotal) {
		// the escrow record of an open dispute says more was taken from the reporter's stake than the staking pools sent
		// (EscrowReporterStake records the requested amount even when the stake, or the chase after a redelegation, held less)
		sig := "C04/dispute-account-underfunded/escrow-record-exceeds-taken"
		if !pbt.IsKnown("C04", sig) {
			return pbt.Violf(sig, "block %d: dispute account holds %s but unsettled disputes account for %s in fees and escrowed stake; the stake records of open disputes claim %s more than the staking pools sent to the dispute account", br.Height, disputeBal, owedTotal, shortOpen)
		}
		m.knownShort++
	} else if disputeBal.LT(owedTotal) && m.shortEver.IsPositive() && disputeBal.Add(m.shortEver).Add(math.NewInt(100*m.fromBondPayments)).GTE(owedTotal) {
		// consequence of the same defect: a dispute with such a gap was settled in full, at the expense of the others
		sig := "C04/dispute-account-underfunded/after-settled-escrow-shortfall"
		if !pbt.IsKnown("C04", sig) {
			return pbt.Violf(sig, "block %d: dispute account holds %s but unsettled disputes account for %s in fees and escrowed stake; earlier disputes, settled since, had recorded %s more escrowed stake than was taken", br.Height, disputeBal, owedTotal, m.shortEver)
		}
		m.knownShort++
	} else if disputeBal.LT(owedTotal) {
		return pbt.Violf("C04/dispute-account-underfunded/"+tags, "block %d: dispute account holds %s but unsettled disputes account for %s in fees and escrowed stake", br.Height, disputeBal, owedTotal)
	}
	// (4) bridge account holds nothing
	if b := moduleBal(c, "bridge"); !b.IsZero() {
		return pbt.Violf("C04/bridge-account-nonzero", "block %d: bridge account holds %s", br.Height, b)
	}
	// (5) no entitled withdrawal/claim fails for lack of funds
	for _, o := range outs {
		if o.Res == nil || o.Res.Code == 0 {
			continue
		}
		switch o.Tx.Op.K {
		case OpWithdrawTip, OpFeeRefund, OpClaimReward:
			if strings.Contains(o.Res.Log, "insufficient funds") {
				// consequence of known finding F-C04-1: the dispute account is short by the loya lost to
				// per-selector truncation of fees paid from stake, so the last refund/claim of such a dispute fails
				var have, need int64
				if i := strings.Index(o.Res.Log, "spendable balance "); i >= 0 {
					fmt.Sscanf(o.Res.Log[i:], "spendable balance %dloya is smaller than %dloya", &have, &need)
				}
				if o.Tx.Op.K != OpWithdrawTip && m.fromBondPayments > 0 && need > have && need-have <= 100*m.fromBondPayments &&
					pbt.IsKnown("C04", "C04/dispute-account-underfunded/fee-from-stake-rounding") {
					m.knownRounding++
					continue
				}
				if o.Tx.Op.K != OpWithdrawTip && m.shortEver.IsPositive() && need > have && math.NewInt(need-have).LTE(m.shortEver.Add(math.NewInt(100*m.fromBondPayments))) {
					sig := "C04/claim-failed-insufficient-funds/" + o.Tx.Op.K + "/after-escrow-shortfall"
					if !pbt.IsKnown("C04", sig) {
						return pbt.Violf(sig, "block %d: %s failed for lack of funds (%s); disputes had recorded %s more escrowed stake than was taken", br.Height, o.Tx.Op.K, o.Res.Log, m.shortEver)
					}
					m.knownShort++
					continue
				}
				return pbt.Violf("C04/claim-failed-insufficient-funds/"+o.Tx.Op.K, "block %d: %s failed for lack of funds: %s", br.Height, o.Tx.Op.K, o.Res.Log)
			}
		}
	}
	// (6) credits handed out in this block never exceed what was paid into the escrow pool in this block
	withdrawn := math.ZeroInt()
	for _, o := range outs {
		if o.OK() && o.Tx.Op.K == OpWithdrawTip {
			m.withdrawals++
			for _, ev := range o.Res.Events {
				if ev.Type == "tip_withdrawn" {
					for _, a := range ev.Attributes {
						if a.Key == "amount" {
							if x, ok := math.NewIntFromString(a.Value); ok {
								withdrawn = withdrawn.Add(x)
							}
						}
					}
				}
			}
		}
	}
	inflow := escrowBal.Sub(m.escrowBefore).Add(withdrawn)
	newCredits := credits.Sub(m.creditsBefore).Add(math.LegacyNewDecFromInt(withdrawn))
	if newCredits.GT(math.LegacyNewDecFromInt(inflow).Add(math.LegacyNewDecWithPrec(1, 12))) {
		return pbt.Violf("C04/credits-exceed-paid-in", "block %d: selectors were credited %s but only %s was paid into the tips escrow pool", br.Height, newCredits, inflow)
	}
	// (7) the voter rewards paid out of a dispute never exceed the pot set aside for them at execution
	disputeAddr := authtypes.NewModuleAddress(disputetypes.ModuleName).String()
	for _, o := range outs {
		if !o.OK() || o.Tx.Op.K != OpClaimReward || len(o.Tx.Msgs) != 1 {
			continue
		}
		msg, ok := o.Tx.Msgs[0].(*disputetypes.MsgClaimReward)
		if !ok {
			continue
		}
		moves, _ := c13ParseMoves(o.Res.Events)
		paid := math.ZeroInt()
		for _, mv := range moves {
			if mv.from == disputeAddr && mv.to == msg.CallerAddress {
				paid = paid.Add(math.NewIntFromBigInt(mv.amt))
			}
		}
		if m.claimedOf == nil {
			m.claimedOf = map[uint64]math.Int{}
		}
		if _, ok := m.claimedOf[msg.DisputeId]; !ok {
			m.claimedOf[msg.DisputeId] = math.ZeroInt()
		}
		m.claimedOf[msg.DisputeId] = m.claimedOf[msg.DisputeId].Add(paid)
		if d, err := c.App.DisputeKeeper.Disputes.Get(ctx, msg.DisputeId); err == nil {
			m.potChecks++
			if m.claimedOf[msg.DisputeId].GT(d.VoterReward) {
				return pbt.Violf("C04/voter-rewards-exceed-pot", "block %d: voters have been paid %s out of dispute %d whose voter pot is %s (this claim: %s to %s)",
					br.Height, m.claimedOf[msg.DisputeId], msg.DisputeId, d.VoterReward, paid, msg.CallerAddress)
			}
		}
	}
	if br.Finalize != nil {
		for _, ev := range br.Finalize.Events {
			if ev.Type == "aggregate_report" && inflow.IsPositive() {
				m.payouts++
				break
			}
		}
	}
	return nil
}

func (m *escrowMonitor) Classify(info *pbt.CaseInfo) {
	info.Nontrivial = m.payouts > 0 && m.withdrawals > 0
	if m.payouts > 0 {
		info.Classes = append(info.Classes, "payout")
	}
	if m.withdrawals > 0 {
		info.Classes = append(info.Classes, "tip-withdrawal")
	}
	if m.knownRounding > 0 {
		info.Classes = append(info.Classes, "known:fee-from-stake-rounding")
	}
}

func escrowProfile() *Profile {
	w := map[string]int{
		OpTip: 20, OpSubmit: 30, OpCreateReporter: 4, OpSelectReporter: 5, OpSwitchReporter: 2, OpRemoveSelector: 1, OpWithdrawTip: 12,
		OpPropose: 5, OpAddFee: 2, OpVote: 5, OpFeeRefund: 3, OpClaimReward: 3, OpRegisterSpec: 2,
		OpDelegate: 4, OpUndelegate: 2, OpRedelegate: 2, OpSend: 1, OpGov: 1, OpWithdrawTokens: 1,
	}
	p := &Profile{Name: "escrow", Weights: w, MinBlocks: 10, MaxBlocks: 35, MaxOps: 5, AbsentPM: 30, BadVarPM: 100, Setup: true, ThoroughScale: 3,
		GapW: []int{3, 4, 12, 30, 4, 2, 2, 2, 3, 3, 3, 1, 1, 0, 4}}
	p.Prefix = mintInitPrefix
	// known finding F-C04-2 (commission rate outside [0,1]) is excluded by construction so that the
	// search continues behind it: rates are drawn from the in-range part of the accepted set
	if pbt.IsKnown("C04", "C04/credits-vs-escrow/commission-rate-outside-0-1") {
		p.Shape = func(t *rapid.T, op *Op) {
			if op.K == OpCreateReporter {
				op.V = []int{0, 1, 2, 3, 4, 9}[mod(op.V, 6)]
			}
		}
	}
	return p
}

func TestC04_Escrow(t *testing.T) {
	runHistoryProp(t, "C04", "TestC04_Escrow",
		"histories of tips, reports, payouts (tips and time-based rewards), selector joins/leaves, tip withdrawals and disputes over generated reporter/selector topologies and every commission rate CreateReporter accepts; escrow invariants recomputed from the store after every block; non-trivial = >=1 reward payout and >=1 accepted tip withdrawal; distinct by SHA-256 of the history JSON",
		escrowProfile(), func() Monitor { return &escrowMonitor{} })
}

// TestC04_EscrowSettlement runs the same escrow invariants over the settlement scenarios of C13 (multi-payer,
// multi-round disputes in which every payer and voter claims twice and strangers try): the histories in which the
// dispute account is drawn on most often.
func TestC04_EscrowSettlement(t *testing.T) {
	pbt.Run(t, pbt.Prop[History]{Property: "C04", Name: "TestC04_EscrowSettlement",
		Rule: "settlement scenarios (generator of C13: one dispute per history with 1-5 payers from balance or stake, votes of all groups, optional second round, every payer and voter claims twice, strangers try) under the escrow invariants; non-trivial = >=1 accepted fee refund or reward claim after an executed dispute; distinct by SHA-256 of the history JSON",
		Gen: func(rt *rapid.T) History { return GenC13(rt, pbt.Thorough()) },
		Check: func(h History, info *pbt.CaseInfo, st *pbt.Stats) error {
			mon := &escrowMonitor{}
			rs, _, v, err := RunHistory(h, mon)
			if err != nil {
				return err
			}
			claims := rs.ByKindOK[OpFeeRefund] + rs.ByKindOK[OpClaimReward]
			info.Nontrivial = claims > 0
			if claims > 0 {
				info.Classes = append(info.Classes, "claims-paid")
			}
			if claims > 3 {
				info.Classes = append(info.Classes, "claims>3")
			}
			st.Count("blocks", int64(rs.Blocks))
			st.Count("ops_accepted", int64(rs.OpsOK))
			st.Count("known_rounding_tolerated", int64(mon.knownRounding))
			st.Count("voter_pot_checks", int64(mon.potChecks))
			for k, n := range rs.ByKindOK {
				st.Count("ok/"+k, int64(n))
			}
			for k, n := range rs.ByKindFail {
				st.Count("rejected/"+k, int64(n))
			}
			if v != nil {
				return v
			}
			return nil
		}})
}
