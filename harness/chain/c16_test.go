package chain

// C16 — validator-set checkpoints form a chain an EVM light client can always follow.
//
// Oracle (recomputed from the property statement, never through the keeper functions under test):
//   - expected set = staking validators with a registered EVM address and consensus power > 0
//     (⌊tokens/10^6⌋ when bonded, 0 otherwise), ordered by power desc, address bytes asc;
//   - a checkpoint is recorded at a block IFF the expected set is non-empty and (none exists yet, or
//     Σ|Δpower| over the union of addresses ≥ 5 % of the LAST CHECKPOINT's total (exact rationals), or
//     the last checkpoint is older than two weeks); ages in [2w-1s, 2w] are don't-care;
//   - a new checkpoint stores exactly the expected set, the reference hash / ⌊2·total/3⌋ / checkpoint
//     (evmref, extracted from BlobstreamO.sol), timestamp = block time in ms; indexes contiguous from 0,
//     timestamps strictly increasing, the five maps mutually consistent and immutable afterwards;
//   - the signature array of checkpoint i has one slot per member of set i-1 (set 0 for i = 0) and every
//     stored signature verifies (contract convention) against the member of set i-1 in the same slot;
//   - whenever the stored signers hold > 2/3 of set i-1's power, a BlobstreamO model initialised at
//     checkpoint i-1 accepts updateValidatorSet to checkpoint i with exactly the stored material.

import (
	"bytes"
	"fmt"
	"math/big"
	"sort"
	"testing"
	"time"

	"pgregory.net/rapid"

	stakingtypes "github.com/cosmos/cosmos-sdk/x/staking/types"

	bridgetypes "github.com/tellor-io/layer/x/bridge/types"

	"verif/harness/evmref"
	"verif/harness/pbt"
)

const (
	c16TwoWeeksMs = int64(14 * 24 * 3600 * 1000)
	c16BandMs     = int64(1000)
)

// c16Checkpoint is the monitor's own record of one checkpoint (the reference chain).
type c16Checkpoint struct {
	idx    uint64
	ts     uint64
	height int64
	set    []evmref.Validator
	total  *big.Int
	thr    uint64
	hash   [32]byte
	cp     [32]byte

	sigKey      string // last evaluated signature vector
	signedCount int
	accepted    bool
}

type c16Monitor struct {
	BaseMonitor
	spec *evmref.Spec
	cps  []*c16Checkpoint

	// classification
	byCause          map[string]int
	memberChanges    int // checkpoints whose address set differs from the previous checkpoint's
	orderChanges     int // same members, different order
	sizeChanges      int // len(set i) != len(set i-1)
	stepsAccepted    int // contract steps exercised (signers > 2/3) and accepted
	partialAccepted  int // ... of which with a strict subset of the members having signed
	stepsNeverSigned int // at Finish: checkpoints i>=1 whose signers never reached > 2/3
	dcStaleBand      int // blocks in the don't-care staleness band
	exclContractOld  int // steps excluded: gap to previous checkpoint beyond the contract's unbonding period
	exclSmallTotal   int // steps excluded: total power < 2 (outside the quantifier)
	exactFive        int // decisions with Σ|Δ| exactly 5 % of the previous total
	nearFive         int // decisions with shift in [4 %, 6 %]
	keptUnder        int // blocks with a changed set kept because shift < 5 % and not stale
	joinsLate        int // members that were not in checkpoint 0's set
	memberLeft       int // checkpoints in which a member of the previous set is gone
	memberJoined     int // checkpoints in which a non-member of the previous set appears
	blocks           int
	halted           bool
}

func newC16Monitor() *c16Monitor { return &c16Monitor{byCause: map[string]int{}} }

// ---------------------------------------------------------------- reference: expected set

func c16ExpectedSet(c *Chain) ([]evmref.Validator, *pbt.Violation) {
	ctx := c.Ctx()
	vals, err := c.App.StakingKeeper.GetAllValidators(ctx)
	if err != nil {
		return nil, pbt.Violf("C16/infra/staking-read", "GetAllValidators: %v", err)
	}
	million := big.NewInt(1_000_000)
	var out []evmref.Validator
	for _, v := range vals {
		evm, err := c.App.BridgeKeeper.OperatorToEVMAddressMap.Get(ctx, v.OperatorAddress)
		if err != nil {
			continue // no registered EVM address
		}
		if v.Status != stakingtypes.Bonded {
			continue // consensus power 0
		}
		p := new(big.Int).Quo(v.Tokens.BigInt(), million)
		if p.Sign() <= 0 {
			continue
		}
		if !p.IsUint64() {
			return nil, pbt.Violf("C16/infra/power-range", "validator %s power %s beyond uint64", v.OperatorAddress, p)
		}
		if len(evm.EVMAddress) != 20 {
			return nil, pbt.Violf("C16/registered-address-not-20-bytes/expected-set", "operator %s registered EVM address %x", v.OperatorAddress, evm.EVMAddress)
		}
		var a [20]byte
		copy(a[:], evm.EVMAddress)
		out = append(out, evmref.Validator{Addr: a, Power: p.Uint64()})
	}
	sort.SliceStable(out, func(i, j int) bool {
		if out[i].Power != out[j].Power {
			return out[i].Power > out[j].Power
		}
		return bytes.Compare(out[i].Addr[:], out[j].Addr[:]) < 0
	})
	return out, nil
}

func c16FromStored(s bridgetypes.BridgeValidatorSet) ([]evmref.Validator, bool) {
	out := make([]evmref.Validator, 0, len(s.BridgeValidatorSet))
	for _, v := range s.BridgeValidatorSet {
		if v == nil || len(v.EthereumAddress) != 20 {
			return nil, false
		}
		var a [20]byte
		copy(a[:], v.EthereumAddress)
		out = append(out, evmref.Validator{Addr: a, Power: v.Power})
	}
	return out, true
}

func c16SameSet(a, b []evmref.Validator) bool {
	if len(a) != len(b) {
		return false
	}
	for i := range a {
		if a[i] != b[i] {
			return false
		}
	}
	return true
}

func c16Fmt(s []evmref.Validator) string {
	var b bytes.Buffer
	b.WriteString("[")
	for i, v := range s {
		if i > 0 {
			b.WriteString(" ")
		}
		fmt.Fprintf(&b, "%x:%d", v.Addr[:4], v.Power)
	}
	b.WriteString("]")
	return b.String()
}

func c16FmtStored(s bridgetypes.BridgeValidatorSet) string {
	var b bytes.Buffer
	b.WriteString("[")
	for i, v := range s.BridgeValidatorSet {
		if i > 0 {
			b.WriteString(" ")
		}
		if v == nil {
			b.WriteString("nil")
			continue
		}
		n := len(v.EthereumAddress)
		if n > 4 {
			n = 4
		}
		fmt.Fprintf(&b, "%x:%d", v.EthereumAddress[:n], v.Power)
	}
	b.WriteString("]")
	return b.String()
}

// c16Shift returns Σ|Δpower| over the union of addresses and the previous total.
func c16Shift(prev, cur []evmref.Validator) (delta, total *big.Int) {
	type pair struct{ a, b *big.Int }
	m := map[[20]byte]*pair{}
	var order [][20]byte
	get := func(k [20]byte) *pair {
		p, ok := m[k]
		if !ok {
			p = &pair{new(big.Int), new(big.Int)}
			m[k] = p
			order = append(order, k)
		}
		return p
	}
	total = new(big.Int)
	for _, v := range prev {
		p := get(v.Addr)
		p.a.Add(p.a, new(big.Int).SetUint64(v.Power))
		total.Add(total, new(big.Int).SetUint64(v.Power))
	}
	for _, v := range cur {
		p := get(v.Addr)
		p.b.Add(p.b, new(big.Int).SetUint64(v.Power))
	}
	delta = new(big.Int)
	for _, k := range order {
		d := new(big.Int).Sub(m[k].a, m[k].b)
		delta.Add(delta, d.Abs(d))
	}
	return delta, total
}

func c16Members(s []evmref.Validator) map[[20]byte]bool {
	m := map[[20]byte]bool{}
	for _, v := range s {
		m[v.Addr] = true
	}
	return m
}

// ---------------------------------------------------------------- monitor

func (m *c16Monitor) Init(c *Chain, w *World) *pbt.Violation {
	sp, err := evmref.Default()
	if err != nil {
		return pbt.Violf("C16/infra/evmref", "cannot load the contract reference: %v", err)
	}
	m.spec = sp
	return m.observe(c, c.Height, c.Time)
}

func (m *c16Monitor) After(c *Chain, w *World, br *BlockResult, outs []TxOutcome) *pbt.Violation {
	if br.Halt != nil {
		m.halted = true
		return nil // halts belong to C02
	}
	m.blocks++
	return m.observe(c, br.Height, br.Time)
}

func (m *c16Monitor) Finish(c *Chain, w *World) *pbt.Violation {
	if m.halted || c.Halted != nil || m.spec == nil {
		return nil
	}
	if v := m.checkStore(c, "finish"); v != nil {
		return v
	}
	if v := m.checkSignatures(c, "finish", true); v != nil {
		return v
	}
	for i := 1; i < len(m.cps); i++ {
		if !m.cps[i].accepted {
			m.stepsNeverSigned++
		}
	}
	return nil
}

// observe is the oracle after one committed block (height h ≥ 2, block time t).
func (m *c16Monitor) observe(c *Chain, h int64, t time.Time) *pbt.Violation {
	ctx := c.Ctx()
	bk := c.App.BridgeKeeper
	E, v := c16ExpectedSet(c)
	if v != nil {
		return v
	}
	nowMs := t.UnixMilli()

	// what the chain did
	latest, err := bk.LatestCheckpointIdx.Get(ctx)
	have := err == nil
	recorded := false
	if len(m.cps) == 0 {
		if have {
			if latest.Index != 0 {
				return pbt.Violf("C16/index-not-contiguous/first", "block %d: first checkpoint has index %d", h, latest.Index)
			}
			recorded = true
		}
	} else {
		last := m.cps[len(m.cps)-1]
		if !have {
			return pbt.Violf("C16/latest-index-lost/later", "block %d: LatestCheckpointIdx unreadable after %d checkpoints: %v", h, len(m.cps), err)
		}
		switch latest.Index {
		case last.idx:
		case last.idx + 1:
			recorded = true
		default:
			return pbt.Violf("C16/index-not-contiguous/later", "block %d: latest checkpoint index went from %d to %d", h, last.idx, latest.Index)
		}
	}

	// what the property demands
	cause := ""
	dontCare := false
	if len(E) > 0 {
		if len(m.cps) == 0 {
			cause = "first"
		} else {
			last := m.cps[len(m.cps)-1]
			delta, total := c16Shift(last.set, E)
			// delta/total >= 5/100  <=>  100*delta >= 5*total (total > 0: stored sets are non-empty with positive powers)
			l := new(big.Int).Mul(delta, big.NewInt(100))
			r := new(big.Int).Mul(total, big.NewInt(5))
			shifted := total.Sign() > 0 && l.Cmp(r) >= 0
			if total.Sign() > 0 && l.Cmp(r) == 0 {
				m.exactFive++
			}
			if total.Sign() > 0 && new(big.Int).Mul(delta, big.NewInt(100)).Cmp(new(big.Int).Mul(total, big.NewInt(4))) >= 0 &&
				new(big.Int).Mul(delta, big.NewInt(100)).Cmp(new(big.Int).Mul(total, big.NewInt(6))) <= 0 {
				m.nearFive++
			}
			age := nowMs - int64(last.ts)
			switch {
			case shifted:
				cause = "power-shift"
			case age > c16TwoWeeksMs:
				cause = "stale"
			case age >= c16TwoWeeksMs-c16BandMs:
				dontCare = true
				m.dcStaleBand++
			default:
				if !c16SameSet(last.set, E) {
					m.keptUnder++
				}
			}
		}
	}
	if !dontCare {
		if cause != "" && !recorded {
			msg := fmt.Sprintf("block %d (t=%d ms): a checkpoint is due (%s) but none was recorded; expected set %s", h, nowMs, cause, c16Fmt(E))
			if n := len(m.cps); n > 0 {
				d, tot := c16Shift(m.cps[n-1].set, E)
				msg += fmt.Sprintf("; last checkpoint #%d at %d ms set %s; shift %s/%s; age %d ms", m.cps[n-1].idx, m.cps[n-1].ts, c16Fmt(m.cps[n-1].set), d, tot, nowMs-int64(m.cps[n-1].ts))
			}
			return pbt.Violf("C16/checkpoint-not-recorded/"+cause, "%s", msg)
		}
		if cause == "" && recorded {
			why := "set-below-5pct-and-fresh"
			if len(E) == 0 {
				why = "empty-expected-set"
			}
			msg := fmt.Sprintf("block %d (t=%d ms): checkpoint #%d recorded without cause; expected set %s", h, nowMs, latest.Index, c16Fmt(E))
			if n := len(m.cps); n > 0 {
				d, tot := c16Shift(m.cps[n-1].set, E)
				msg += fmt.Sprintf("; last checkpoint #%d at %d ms set %s; shift %s/%s; age %d ms", m.cps[n-1].idx, m.cps[n-1].ts, c16Fmt(m.cps[n-1].set), d, tot, nowMs-int64(m.cps[n-1].ts))
			}
			return pbt.Violf("C16/checkpoint-recorded-without-cause/"+why, "%s", msg)
		}
	}
	if recorded {
		if cause == "" {
			cause = "stale-band"
		}
		if v := m.admit(c, h, t, latest.Index, E, cause); v != nil {
			return v
		}
	}
	if v := m.checkStore(c, "after-block"); v != nil {
		return v
	}
	return m.checkSignatures(c, "after-block", false)
}

// admit verifies a freshly recorded checkpoint against the reference and appends it to the reference chain.
func (m *c16Monitor) admit(c *Chain, h int64, t time.Time, idx uint64, E []evmref.Validator, cause string) *pbt.Violation {
	ctx := c.Ctx()
	bk := c.App.BridgeKeeper
	where := "later"
	if idx == 0 {
		where = "first"
	}
	tsRec, err := bk.ValidatorCheckpointIdxMap.Get(ctx, idx)
	if err != nil {
		return pbt.Violf("C16/index-map-missing/"+where, "block %d: ValidatorCheckpointIdxMap[%d]: %v", h, idx, err)
	}
	ts := tsRec.Timestamp
	if int64(ts) != t.UnixMilli() {
		return pbt.Violf("C16/timestamp-not-block-time/"+where, "block %d: checkpoint #%d timestamp %d, block time %d ms", h, idx, ts, t.UnixMilli())
	}
	if n := len(m.cps); n > 0 && ts <= m.cps[n-1].ts {
		return pbt.Violf("C16/timestamp-not-increasing/"+where, "block %d: checkpoint #%d timestamp %d <= previous %d", h, idx, ts, m.cps[n-1].ts)
	}
	stored, err := bk.BridgeValsetByTimestampMap.Get(ctx, ts)
	if err != nil {
		return pbt.Violf("C16/valset-by-timestamp-missing/"+where, "block %d: BridgeValsetByTimestampMap[%d]: %v", h, ts, err)
	}
	ss, ok := c16FromStored(stored)
	if !ok || !c16SameSet(ss, E) {
		kind := "membership"
		if ok && len(ss) == len(E) {
			kind = "powers"
			sm, em := c16Members(ss), c16Members(E)
			same := true
			for a := range sm {
				if !em[a] {
					same = false
				}
			}
			if !same {
				kind = "membership"
			} else {
				// same members: order or powers?
				pw := map[[20]byte]uint64{}
				for _, x := range E {
					pw[x.Addr] = x.Power
				}
				eq := true
				for _, x := range ss {
					if pw[x.Addr] != x.Power {
						eq = false
					}
				}
				if eq {
					kind = "order"
				}
			}
		}
		return pbt.Violf("C16/stored-set-differs/"+kind, "block %d: checkpoint #%d stores %s, expected %s (registered EVM address, power > 0, power desc then address asc)", h, idx, c16FmtStored(stored), c16Fmt(E))
	}
	total := evmref.TotalPower(E)
	thrB := evmref.Threshold(total)
	if !thrB.IsUint64() {
		return pbt.Violf("C16/infra/threshold-range", "threshold %s", thrB)
	}
	hash, err := m.spec.ValsetHash(E)
	if err != nil {
		return pbt.Violf("C16/infra/evmref", "ValsetHash: %v", err)
	}
	cp, err := m.spec.Checkpoint(thrB, new(big.Int).SetUint64(ts), hash)
	if err != nil {
		return pbt.Violf("C16/infra/evmref", "Checkpoint: %v", err)
	}
	rec := &c16Checkpoint{idx: idx, ts: ts, height: h, set: E, total: total, thr: thrB.Uint64(), hash: hash, cp: cp}
	// slot count at creation
	sigs, err := bk.BridgeValsetSignaturesMap.Get(ctx, ts)
	if err != nil {
		return pbt.Violf("C16/signature-array-missing/"+where, "block %d: BridgeValsetSignaturesMap[%d]: %v", h, ts, err)
	}
	want := len(E)
	if n := len(m.cps); n > 0 {
		want = len(m.cps[n-1].set)
	}
	if len(sigs.Signatures) != want {
		return pbt.Violf("C16/slot-count/"+where, "block %d: checkpoint #%d has %d signature slots, the previous set has %d members (new set %d)", h, idx, len(sigs.Signatures), want, len(E))
	}
	// classification
	m.byCause[cause]++
	if n := len(m.cps); n > 0 {
		prev := m.cps[n-1]
		pm, em := c16Members(prev.set), c16Members(E)
		changed := false
		for a := range em {
			if !pm[a] {
				changed = true
				m.memberJoined++
				break
			}
		}
		for a := range pm {
			if !em[a] {
				changed = true
				m.memberLeft++
				break
			}
		}
		if changed {
			m.memberChanges++
		} else {
			for i := range E {
				if E[i].Addr != prev.set[i].Addr {
					m.orderChanges++
					break
				}
			}
		}
		if len(prev.set) != len(E) {
			m.sizeChanges++
		}
		first := c16Members(m.cps[0].set)
		for a := range em {
			if !first[a] && !pm[a] {
				m.joinsLate++
			}
		}
	}
	m.cps = append(m.cps, rec)
	return nil
}

// checkStore compares every stored record with the reference chain: the five maps are mutually
// consistent, contain nothing else, and earlier checkpoints never change.
func (m *c16Monitor) checkStore(c *Chain, when string) *pbt.Violation {
	ctx := c.Ctx()
	bk := c.App.BridgeKeeper
	n := len(m.cps)
	if n == 0 {
		return nil
	}
	latest, err := bk.LatestCheckpointIdx.Get(ctx)
	if err != nil || latest.Index != m.cps[n-1].idx {
		return pbt.Violf("C16/latest-index-wrong/"+when, "LatestCheckpointIdx = %v (err %v), reference chain has %d checkpoints", latest.Index, err, n)
	}
	count := func(name string, walk func(func(uint64)) error) *pbt.Violation {
		k := 0
		if err := walk(func(uint64) { k++ }); err != nil {
			return pbt.Violf("C16/infra/walk", "%s: %v", name, err)
		}
		if k != n {
			return pbt.Violf("C16/map-entry-count/"+name, "%s: %s has %d entries, %d checkpoints were recorded", when, name, k, n)
		}
		return nil
	}
	if v := count("ValidatorCheckpointIdxMap", func(f func(uint64)) error {
		return bk.ValidatorCheckpointIdxMap.Walk(ctx, nil, func(k uint64, _ bridgetypes.CheckpointTimestamp) (bool, error) { f(k); return false, nil })
	}); v != nil {
		return v
	}
	if v := count("ValsetTimestampToIdxMap", func(f func(uint64)) error {
		return bk.ValsetTimestampToIdxMap.Walk(ctx, nil, func(k uint64, _ bridgetypes.CheckpointIdx) (bool, error) { f(k); return false, nil })
	}); v != nil {
		return v
	}
	if v := count("BridgeValsetByTimestampMap", func(f func(uint64)) error {
		return bk.BridgeValsetByTimestampMap.Walk(ctx, nil, func(k uint64, _ bridgetypes.BridgeValidatorSet) (bool, error) { f(k); return false, nil })
	}); v != nil {
		return v
	}
	if v := count("ValidatorCheckpointParamsMap", func(f func(uint64)) error {
		return bk.ValidatorCheckpointParamsMap.Walk(ctx, nil, func(k uint64, _ bridgetypes.ValidatorCheckpointParams) (bool, error) { f(k); return false, nil })
	}); v != nil {
		return v
	}
	if v := count("BridgeValsetSignaturesMap", func(f func(uint64)) error {
		return bk.BridgeValsetSignaturesMap.Walk(ctx, nil, func(k uint64, _ bridgetypes.BridgeValsetSignatures) (bool, error) { f(k); return false, nil })
	}); v != nil {
		return v
	}
	for i, r := range m.cps {
		where := "earlier"
		if i == n-1 {
			where = "latest"
		}
		if r.idx != uint64(i) {
			return pbt.Violf("C16/index-not-contiguous/reference", "reference checkpoint %d has index %d", i, r.idx)
		}
		if i > 0 && r.ts <= m.cps[i-1].ts {
			return pbt.Violf("C16/timestamp-not-increasing/"+where, "checkpoint #%d at %d after #%d at %d", i, r.ts, i-1, m.cps[i-1].ts)
		}
		tsRec, err := bk.ValidatorCheckpointIdxMap.Get(ctx, r.idx)
		if err != nil || tsRec.Timestamp != r.ts {
			return pbt.Violf("C16/index-map-inconsistent/"+where, "%s: ValidatorCheckpointIdxMap[%d] = %d (err %v), recorded at %d", when, r.idx, tsRec.Timestamp, err, r.ts)
		}
		ix, err := bk.ValsetTimestampToIdxMap.Get(ctx, r.ts)
		if err != nil || ix.Index != r.idx {
			return pbt.Violf("C16/timestamp-to-index-inconsistent/"+where, "%s: ValsetTimestampToIdxMap[%d] = %d (err %v), want %d", when, r.ts, ix.Index, err, r.idx)
		}
		st, err := bk.BridgeValsetByTimestampMap.Get(ctx, r.ts)
		ss, ok := c16FromStored(st)
		if err != nil || !ok || !c16SameSet(ss, r.set) {
			return pbt.Violf("C16/stored-set-changed/"+where, "%s: BridgeValsetByTimestampMap[%d] = %s (err %v), checkpoint #%d was recorded with %s", when, r.ts, c16FmtStored(st), err, r.idx, c16Fmt(r.set))
		}
		p, err := bk.ValidatorCheckpointParamsMap.Get(ctx, r.ts)
		if err != nil {
			return pbt.Violf("C16/params-missing/"+where, "%s: ValidatorCheckpointParamsMap[%d]: %v", when, r.ts, err)
		}
		if p.Timestamp != r.ts {
			return pbt.Violf("C16/params-timestamp/"+where, "%s: checkpoint #%d params carry timestamp %d, key and block time are %d", when, r.idx, p.Timestamp, r.ts)
		}
		if !bytes.Equal(p.ValsetHash, r.hash[:]) {
			return pbt.Violf("C16/params-valset-hash/"+where, "%s: checkpoint #%d stores valset hash %x, keccak256(abi.encode(set)) of the stored set %s is %x", when, r.idx, p.ValsetHash, c16Fmt(r.set), r.hash)
		}
		if p.PowerThreshold != r.thr {
			return pbt.Violf("C16/params-threshold/"+where, "%s: checkpoint #%d stores threshold %d, floor(2*%s/3) = %d", when, r.idx, p.PowerThreshold, r.total, r.thr)
		}
		if !bytes.Equal(p.Checkpoint, r.cp[:]) {
			return pbt.Violf("C16/params-checkpoint/"+where, "%s: checkpoint #%d stores digest %x, the contract's domain-separated hash of (threshold %d, timestamp %d, valset hash %x) is %x", when, r.idx, p.Checkpoint, r.thr, r.ts, r.hash, r.cp)
		}
	}
	last := m.cps[n-1]
	cur, err := bk.BridgeValset.Get(ctx)
	cs, ok := c16FromStored(cur)
	if err != nil || !ok || !c16SameSet(cs, last.set) {
		return pbt.Violf("C16/current-set-differs-from-latest-checkpoint/"+when, "BridgeValset = %s (err %v), latest checkpoint #%d has %s", c16FmtStored(cur), err, last.idx, c16Fmt(last.set))
	}
	vc, err := bk.ValidatorCheckpoint.Get(ctx)
	if err != nil || !bytes.Equal(vc.Checkpoint, last.cp[:]) {
		return pbt.Violf("C16/current-checkpoint-differs-from-latest/"+when, "ValidatorCheckpoint = %x (err %v), latest checkpoint #%d digest is %x", vc.Checkpoint, err, last.idx, last.cp)
	}
	return nil
}

// checkSignatures: slot ↔ member correspondence and contract acceptance for every checkpoint after the first.
func (m *c16Monitor) checkSignatures(c *Chain, when string, final bool) *pbt.Violation {
	ctx := c.Ctx()
	bk := c.App.BridgeKeeper
	for i, r := range m.cps {
		sigs, err := bk.BridgeValsetSignaturesMap.Get(ctx, r.ts)
		if err != nil {
			return pbt.Violf("C16/signature-array-missing/"+when, "BridgeValsetSignaturesMap[%d] (checkpoint #%d): %v", r.ts, r.idx, err)
		}
		members := r.set
		if i > 0 {
			members = m.cps[i-1].set
		}
		if len(sigs.Signatures) != len(members) {
			return pbt.Violf("C16/slot-count/"+when, "checkpoint #%d has %d signature slots, the previous set has %d members", r.idx, len(sigs.Signatures), len(members))
		}
		if i == 0 {
			continue // nothing to step from
		}
		key := fmt.Sprintf("%x", sigs.Signatures)
		if key == r.sigKey && !final {
			continue
		}
		r.sigKey = key
		prev := m.cps[i-1]
		esigs := make([]evmref.Sig, len(members))
		signed := new(big.Int)
		nsigned := 0
		for j, s := range sigs.Signatures {
			if len(s) == 0 {
				continue
			}
			sg, ok := evmref.SigFromRS(s, r.cp, members[j].Addr)
			if !ok {
				// does it belong to another member? (diagnostic only)
				owner := -1
				for k := range members {
					if _, ok2 := evmref.SigFromRS(s, r.cp, members[k].Addr); ok2 {
						owner = k
					}
				}
				tag := "no-member"
				if owner >= 0 {
					tag = "other-member"
				}
				return pbt.Violf("C16/signature-in-wrong-slot/"+tag, "checkpoint #%d: slot %d holds %x which does not verify for member %d (%x) of the previous set %s over digest %x (verifies for member %d)", r.idx, j, s, j, members[j].Addr, c16Fmt(members), r.cp, owner)
			}
			esigs[j] = sg
			nsigned++
			signed.Add(signed, new(big.Int).SetUint64(members[j].Power))
		}
		r.signedCount = nsigned
		// more than two thirds of the previous set's power?
		if new(big.Int).Mul(signed, big.NewInt(3)).Cmp(new(big.Int).Mul(prev.total, big.NewInt(2))) <= 0 {
			continue
		}
		if prev.total.Cmp(big.NewInt(2)) < 0 || r.total.Cmp(big.NewInt(2)) < 0 {
			if !r.accepted {
				m.exclSmallTotal++
				r.accepted = true
			}
			continue
		}
		now := r.ts/1000 + 1
		if now-prev.ts/1000 > evmref.DefaultUnbondingPeriod {
			if !r.accepted {
				m.exclContractOld++
				r.accepted = true
			}
			continue
		}
		model := evmref.NewBlobstream(m.spec, prev.thr, prev.ts, prev.cp)
		if err := model.UpdateValidatorSet(now, r.hash, r.thr, r.ts, prev.set, esigs); err != nil {
			if !evmref.IsRevert(err) {
				return pbt.Violf("C16/infra/evmref", "UpdateValidatorSet: %v", err)
			}
			return pbt.Violf("C16/contract-rejects-step/"+err.Error(), "step #%d -> #%d: signers hold %s of %s (> 2/3) but updateValidatorSet(now=%d, hash %x, threshold %d, timestamp %d, set %s, %d signatures) reverts with %v", prev.idx, r.idx, signed, prev.total, now, r.hash, r.thr, r.ts, c16Fmt(prev.set), nsigned, err)
		}
		if model.LastValidatorSetCheckpoint != r.cp {
			return pbt.Violf("C16/contract-state-after-step/"+when, "step #%d -> #%d accepted but the contract's checkpoint is %x, chain has %x", prev.idx, r.idx, model.LastValidatorSetCheckpoint, r.cp)
		}
		if !r.accepted {
			r.accepted = true
			m.stepsAccepted++
			if nsigned < len(members) {
				m.partialAccepted++
			}
		}
	}
	return nil
}

func (m *c16Monitor) Classify(info *pbt.CaseInfo) {
	n := len(m.cps)
	info.Nontrivial = n >= 3 && m.memberChanges > 0 && m.partialAccepted > 0
	add := func(b bool, s string) {
		if b {
			info.Classes = append(info.Classes, s)
		}
	}
	info.Classes = append(info.Classes, fmt.Sprintf("checkpoints=%d", min(n, 8)))
	add(n >= 3, "checkpoints>=3")
	add(m.memberChanges > 0, "membership-change")
	add(m.sizeChanges > 0, "set-size-change")
	add(m.orderChanges > 0, "order-change-only")
	add(m.joinsLate > 0, "late-joiner-in-set")
	add(m.memberLeft > 0, "member-left")
	add(m.memberJoined > 0, "member-joined")
	add(m.stepsAccepted > 0, "contract-step-accepted")
	add(m.partialAccepted > 0, "accepted-with-partial-signers")
	add(m.stepsNeverSigned > 0, "step-never-reached-2/3")
	add(m.byCause["power-shift"] > 0, "cause:power-shift")
	add(m.byCause["stale"] > 0, "cause:stale")
	add(m.byCause["stale-band"] > 0, "cause:stale-band(dont-care)")
	add(m.dcStaleBand > 0, "dontcare:stale-band-block")
	add(m.exactFive > 0, "shift-exactly-5pct")
	add(m.nearFive > 0, "shift-in-4..6pct")
	add(m.keptUnder > 0, "changed-set-kept(<5%,fresh)")
	add(m.exclContractOld > 0, "excluded:gap>contract-unbonding-period")
	add(m.exclSmallTotal > 0, "excluded:total-power<2")
	add(m.halted, "halted(C02)")
	info.Note = map[string]any{"checkpoints": n, "causes": m.byCause, "member_changes": m.memberChanges, "steps_accepted": m.stepsAccepted,
		"partial_accepted": m.partialAccepted, "never_signed": m.stepsNeverSigned, "exact5": m.exactFive}
}

// ---------------------------------------------------------------- generator profile

// c16Genesis: 3-7 validators (one case in six: 13-24); half of the cases "round" (every stake a multiple of 40 tokens, so that the
// ante head-room of 5 % of the bonded total — and half of it moved by a redelegation — shifts the set's power
// by exactly 5 %), otherwise uneven stakes incl. 1- and 7-token validators that can leave; equal powers;
// small MaxValidators; short slashing windows so that absent validators get jailed and leave the set.
func c16Genesis(t *rapid.T) GenesisCfg {
	nv := 3 + uni(t, "numValidators", 5)
	if uni(t, "largeSet", 6) == 0 {
		nv = 13 + uni(t, "numValidatorsLarge", 12) // 13-24 validators on few power levels: long runs of equal powers
	}
	cfg := GenesisCfg{NumValidators: nv, NumUsers: 6 + uni(t, "numUsers", 4), UserBalance: 1_000_000_000_000,
		SlashWindow: pick(t, "slashWindow", []int64{2, 2, 3, 5}), UnbondingSecs: 21 * 24 * 3600, VotingSecs: 3600}
	round := uni(t, "round", 2) == 0
	equal := uni(t, "equalPowers", 4) == 0
	for i := 0; i < nv; i++ {
		var tok int64
		switch {
		case round && equal:
			tok = 80_000_000
		case round:
			tok = pick(t, "valTokens", []int64{40_000_000, 80_000_000, 80_000_000, 120_000_000, 200_000_000, 40_000_000})
		case equal:
			tok = 100_000_000
		default:
			tok = pick(t, "valTokens", []int64{100_000_000, 100_000_000, 50_000_000, 200_000_000, 100_500_000, 7_000_000, 1_000_000, 20_000_000, 2_999_999})
		}
		cfg.ValTokens = append(cfg.ValTokens, tok)
	}
	cfg.MaxValidators = nv + 3
	if uni(t, "smallMaxVals", 4) == 0 {
		cfg.MaxValidators = 2 + uni(t, "maxValidators", nv-1)
	}
	for u := 0; u < cfg.NumUsers; u++ {
		nd := pick(t, "numDelegs", []int{0, 1, 1, 2})
		for d := 0; d < nd; d++ {
			var amt int64
			if round {
				amt = pick(t, "damt", []int64{40_000_000, 40_000_000, 80_000_000})
			} else {
				amt = pick(t, "damt", []int64{1_000_000, 2_000_000, 1_500_000, 10_000_000, 3_333_333, 999_999, 20_000_000})
			}
			cfg.UserDelegs = append(cfg.UserDelegs, [3]int64{int64(u), int64(uni(t, "dval", nv)), amt})
		}
	}
	return cfg
}

// c16Shape concentrates stake moves around the 5 % line: the full ante head-room (exactly 5 % of the bonded
// total when fresh), half of it for redelegations (both ends move), and one unit / a few per cent beside it.
func c16Shape(t *rapid.T, op *Op) {
	d := pick(t, "c16delta", []int64{0, 0, 0, 1, -1, -1_000_000})
	switch op.K {
	case OpDelegate, OpCreateVal:
		switch uni(t, "c16amt", 6) {
		case 0, 1:
			op.Amt = Amount{Kind: AmtOfHeadUp, N: 1000, Delta: d}
		case 2:
			op.Amt = Amount{Kind: AmtOfHeadUp, N: pick(t, "c16pm", []int64{980, 990, 500, 250, 800}), Delta: 0}
		case 3:
			op.Amt = Amount{Kind: AmtAbs, N: pick(t, "c16abs", []int64{1_000_000, 4_000_000, 10_000_000, 20_000_000, 16_000_000, 5_000_000})}
		}
	case OpUndelegate:
		switch uni(t, "c16amt", 6) {
		case 0, 1:
			op.Amt = Amount{Kind: AmtOfHeadDn, N: 1000, Delta: d}
		case 2:
			op.Amt = Amount{Kind: AmtOfHeadDn, N: pick(t, "c16pm", []int64{980, 990, 500, 250, 800})}
		case 3:
			op.Amt = Amount{Kind: AmtOfStake, N: 1000} // leave entirely (operators of small validators exit the set)
		}
	case OpRedelegate:
		switch uni(t, "c16amt", 6) {
		case 0, 1:
			op.Amt = Amount{Kind: AmtOfHeadUp, N: 500, Delta: d}
		case 2:
			op.Amt = Amount{Kind: AmtOfHeadUp, N: pick(t, "c16pm", []int64{1000, 490, 510, 250, 480})}
		case 3:
			op.Amt = Amount{Kind: AmtOfStake, N: pick(t, "c16pm", []int64{1000, 500})}
		}
	}
	if op.V != 0 {
		op.V = 0
	}
}

func valsetProfile() *Profile {
	w := map[string]int{
		OpDelegate: 12, OpUndelegate: 9, OpRedelegate: 9, OpCancelUnbond: 1, OpCreateVal: 3, OpUnjailVal: 4, OpSend: 1, OpMultiStake: 1,
	}
	return &Profile{Name: "valset", Weights: w, MinBlocks: 14, MaxBlocks: 42, MaxOps: 3, AbsentPM: 450, BadVarPM: 0, Setup: false, ThoroughScale: 3,
		Genesis: c16Genesis, Shape: c16Shape,
		// kind:   ms 1ms 1s  6s 1m 10m 1h 12h 24h 48h 72h 14d 21d 30d
		GapW: []int{2, 2, 7, 9, 2, 4, 2, 14, 7, 3, 2, 6, 2, 1}}
}

func TestC16_ValsetCheckpoints(t *testing.T) {
	runHistoryProp(t, "C16", "TestC16_ValsetCheckpoints",
		"staking histories (delegate/undelegate/redelegate around the 5% ante head-room, validator creation with late EVM registration, downtime jailing and unjailing, 3-7 validators incl. equal powers and small MaxValidators, gaps 1ms..30d incl. 12h and 14d+-1s) with absent/nil/garbage/real-handler vote extensions deciding who signs; after every block the bridge collections are compared with a reference chain of checkpoints recomputed from staking + registration map, evmref hashes and a BlobstreamO model; non-trivial = >=3 checkpoints, >=1 checkpoint with a membership change, and >=1 step accepted by the contract model with only a strict subset of the previous set's members having signed; distinct by SHA-256 of the history JSON",
		valsetProfile(), func() Monitor { return newC16Monitor() })
}
