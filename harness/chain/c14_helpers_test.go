package chain

// C14 helpers: the scenario generator (deposit rounds that aggregate within a few blocks,
// age / threshold / flag boundaries, withdrawals), the governance carrier that shortens the
// TRBBridge reporting window, and per-transaction bank-event accounting.

import (
	"fmt"
	"math/big"
	"os"
	"testing"
	"time"

	abci "github.com/cometbft/cometbft/abci/types"
	"pgregory.net/rapid"

	sdk "github.com/cosmos/cosmos-sdk/types"
	authsigning "github.com/cosmos/cosmos-sdk/x/auth/signing"
	govv1 "github.com/cosmos/cosmos-sdk/x/gov/types/v1"

	registrytypes "github.com/tellor-io/layer/x/registry/types"

	"verif/harness/pbt"
)

// ---------------------------------------------------------------- governance carrier
//
// A deposit round opened by a direct report has a hard-coded 2000-block window
// (x/oracle/keeper/token_bridge_deposit.go), but a round opened by a TIP takes its window from
// the registry spec of "trbbridge" (oracle InitializeQuery), and that spec can be updated by a
// governance MsgUpdateDataSpec. The shared executor's privileged-message table has no variant
// for that query type, so the scenario marks an ordinary OpGov (variant 3) with S = c14SpecMarker
// and the monitor's Before hook re-signs that transaction (same signer, same sequence number)
// with MsgUpdateDataSpec{QueryType:"TRBBridge", Spec: stored spec with ReportBlockWindow = R[1]%3}.
// Everything then runs through the real message flow: proposal, validator votes, gov EndBlocker,
// registry hook, MsgTip, MsgSubmitValue, oracle EndBlocker aggregation.

const c14SpecMarker = "c14:trbbridge-window"

func c14RewriteSpecProposal(c *Chain, bt *BuiltTx) error {
	ctx := c.Ctx()
	spec, err := c.App.RegistryKeeper.GetSpec(ctx, "TRBBridge")
	if err != nil {
		return err
	}
	spec.ReportBlockWindow = uint64(mod(bt.Op.R[1], 3))
	inner := &registrytypes.MsgUpdateDataSpec{Authority: govAuthority(), QueryType: "TRBBridge", Spec: spec}
	msg, err := govv1.NewMsgSubmitProposal([]sdk.Msg{inner}, sdk.NewCoins(sdk.NewInt64Coin(BondDenom, 1_000_000)), bt.Signer.Addr.String(), "", "verif c14", "shorter TRBBridge window", false)
	if err != nil {
		return err
	}
	tx, err := c.TxConfig.TxDecoder()(bt.Bytes)
	if err != nil {
		return err
	}
	sv, ok := tx.(authsigning.SigVerifiableTx)
	if !ok {
		return fmt.Errorf("not a signed tx")
	}
	sigs, err := sv.GetSignaturesV2()
	if err != nil || len(sigs) != 1 {
		return fmt.Errorf("signatures: %v", err)
	}
	acc := c.App.AccountKeeper.GetAccount(ctx, bt.Signer.Addr)
	if acc == nil {
		return fmt.Errorf("no account")
	}
	b, err := c.signTxWith(bt.Signer, acc.GetAccountNumber(), sigs[0].Sequence, 3_000_000, 0, msg)
	if err != nil {
		return err
	}
	bt.Msgs = []sdk.Msg{msg}
	bt.Bytes = b
	bt.Note["c14_window"] = spec.ReportBlockWindow
	return nil
}

// ---------------------------------------------------------------- bank event accounting

// c14Flows is what the bank module (SDK, not under test) reported for one transaction.
type c14Flows struct {
	net    map[string]*big.Int // bech32 address -> received - spent (loya)
	minted *big.Int
	burned *big.Int
	bad    bool // an amount that could not be parsed
}

func c14ParseFlows(events []abci.Event) c14Flows {
	f := c14Flows{net: map[string]*big.Int{}, minted: new(big.Int), burned: new(big.Int)}
	add := func(addr string, x *big.Int, sign int) {
		if f.net[addr] == nil {
			f.net[addr] = new(big.Int)
		}
		if sign > 0 {
			f.net[addr].Add(f.net[addr], x)
		} else {
			f.net[addr].Sub(f.net[addr], x)
		}
	}
	for _, ev := range events {
		var who, amt string
		var kind int
		switch ev.Type {
		case "coin_spent":
			kind = 1
		case "coin_received":
			kind = 2
		case "coinbase":
			kind = 3
		case "burn":
			kind = 4
		default:
			continue
		}
		for _, a := range ev.Attributes {
			switch a.Key {
			case "spender", "receiver", "minter", "burner":
				who = a.Value
			case "amount":
				amt = a.Value
			}
		}
		x := new(big.Int)
		if amt != "" {
			coins, err := sdk.ParseCoinsNormalized(amt)
			if err != nil {
				f.bad = true
				continue
			}
			x = coins.AmountOf(BondDenom).BigInt()
		}
		switch kind {
		case 1:
			add(who, x, -1)
		case 2:
			add(who, x, +1)
		case 3:
			f.minted.Add(f.minted, x)
		case 4:
			f.burned.Add(f.burned, x)
		}
	}
	return f
}

// ---------------------------------------------------------------- scenario generator

type c14Scenario struct {
	h       History
	elapsed []time.Duration // gap of each block (same index as h.Blocks)
}

func (s *c14Scenario) add(gap GapSpec, b Block) int {
	b.Gap = gap
	s.h.Blocks = append(s.h.Blocks, b)
	s.elapsed = append(s.elapsed, gap.Duration())
	return len(s.h.Blocks) - 1
}

// since returns the block-time distance between the end of block i and the end of the last block.
func (s *c14Scenario) since(i int) time.Duration {
	var d time.Duration
	for j := i + 1; j < len(s.elapsed); j++ {
		d += s.elapsed[j]
	}
	return d
}

func c14MsGap(d time.Duration) GapSpec {
	if d < time.Millisecond {
		d = time.Millisecond
	}
	return GapSpec{Kind: 0, Ms: int64(d / time.Millisecond)}
}

func c14CatalogIndex(name string) int {
	for i, q := range BuildCatalog() {
		if q.Name == name {
			return i
		}
	}
	panic("catalog has no " + name)
}

var c14DepositNames = []string{"deposit-1", "deposit-2", "deposit-3", "deposit-18446744073709551615"} // same order as the ids of OpClaimDeposit

// noise draws one unscripted operation of the bridge profile.
func c14Noise(t *rapid.T, nActors int, late bool) Op {
	kinds := []string{OpClaimDeposit, OpWithdrawTokens, OpSubmit, OpTip, OpPropose, OpAddEvidence, OpVote, OpSend, OpDelegate, OpUndelegate, OpReqAttest, OpUnjailReporter}
	wts := []int{30, 22, 8, 4, 4, 2, 3, 3, 2, 2, 2, 2}
	if late {
		wts[0] = 45
	}
	k := kinds[weighted(t, "noiseKind", wts)]
	op := Op{K: k, A: uni(t, "actor", nActors), R: [3]int{uni(t, "r0", 64), uni(t, "r1", 64), uni(t, "r2", 64)}, Amt: genAmount(t, k)}
	switch k {
	case OpClaimDeposit:
		op.R[1] = pick(t, "claimIndex", []int{0, 0, 0, 0, 0, 0, 1, 2})
		op.V = pick(t, "claimVariant", []int{0, 0, 0, 0, 0, 0, 0, 0, 0, 1, 2, 3, 3})
	case OpWithdrawTokens:
		op.V = pick(t, "rcptVariant", []int{0, 0, 0, 0, 0, 0, 1, 2, 3, 4})
	case OpSubmit:
		// reports on withdrawal query data (must be rejected) and on the never-tipped deposit id 2^64-1
		// (a 2000-block round: its aggregate never appears in a history)
		op.R[1] = 8 * uni(t, "valueSel", 8)
		op.R[0] = c14CatalogIndex(pick(t, "noiseQuery", []string{"withdraw-1", "withdraw-1", "withdraw-1", c14DepositNames[3]}))
		op.V = pick(t, "valueVariant", []int{0, 0, 1, 7})
	case OpTip:
		op.R[0] = c14CatalogIndex(pick(t, "tipQuery", []string{"withdraw-1", "withdraw-1", c14DepositNames[0], c14DepositNames[3]}))
		op.Amt = Amount{Kind: AmtAbs, N: pick(t, "tipAmt", []int64{1000, 10_000, 1_000_000})}
	case OpPropose:
		op.V = pick(t, "category", []int{1, 1, 2, 3})
		op.R[1] = 0
		op.R[2] = 8 * uni(t, "proposer", 8)
		op.Amt = Amount{Kind: AmtOfNeeded, N: pick(t, "feePM", []int64{1000, 1000, 1000, 500})}
	case OpVote:
		op.V = uni(t, "choice", 3)
	}
	return op
}

func c14NoiseOps(t *rapid.T, nActors, max int, late bool) []Op {
	n := rapid.IntRange(0, max).Draw(t, "numNoise")
	var ops []Op
	for i := 0; i < n; i++ {
		ops = append(ops, c14Noise(t, nActors, late))
	}
	return ops
}

// smallGap is a block gap of ordinary size (1 ms .. 10 min).
func c14SmallGap(t *rapid.T) GapSpec {
	g := GapSpec{Kind: pick(t, "smallGapKind", []int{1, 2, 2, 3, 3, 3, 4, 5})}
	if uni(t, "jitter", 12) == 0 {
		g.Nanos = rapid.Int64Range(0, 999_999).Draw(t, "gapNanos")
	}
	return g
}

// GenC14 draws a whole history: genesis, reporter setup + the governance proposal that shortens
// the TRBBridge window, 1-3 tipped deposit rounds with chosen reporter subsets and value variants,
// optionally a dispute on a deposit report and/or a validator that is jailed for downtime (the
// bridge validator set loses its power: the two-thirds threshold drops), a block-time jump that
// puts the claim at 12 h -1 ms / 12 h / 12 h +1 ms / 11 h / 13 h after a chosen aggregate, claim
// blocks (single, repeated, batched, mismatched arrays, wrong index) and a free tail; withdrawals,
// early claims, reports and tips on withdrawal query data are mixed into every block.
func GenC14(t *rapid.T, thorough bool) History {
	var s c14Scenario
	mode := uni(t, "scenario", 4)
	drop := mode == 0     // a validator is jailed between report and claim: the threshold drops
	boundary := mode == 1 // reporter power of the first round lands on threshold-1 / threshold / threshold+1
	// ---- genesis
	nv := pick(t, "numValidators", []int{3, 3, 4, 4, 5})
	if drop {
		nv = 5
	}
	if boundary {
		nv = 3
	}
	nu := rapid.IntRange(5, 8).Draw(t, "numUsers")
	cfg := GenesisCfg{NumValidators: nv, NumUsers: nu, UserBalance: 1_000_000_000_000, SlashWindow: 5, UnbondingSecs: 21 * 24 * 3600, VotingSecs: 60, MaxValidators: nv + 3}
	equal := drop || boundary || uni(t, "equalPowers", 2) == 0
	for i := 0; i < nv; i++ {
		tok := int64(100_000_000)
		if !equal {
			tok = pick(t, "valTokens", []int64{100_000_000, 100_000_000, 50_000_000, 200_000_000, 100_500_000, 99_000_000})
		}
		cfg.ValTokens = append(cfg.ValTokens, tok)
	}
	if boundary {
		// 3 x 100 power + D x 1 power: two reporters (200) against floor(2*(300+D)/3) = 200,200,201,202,202
		D := pick(t, "boundaryDelegs", []int{0, 1, 1, 2, 2, 3, 4})
		for u := 0; u < D; u++ {
			cfg.UserDelegs = append(cfg.UserDelegs, [3]int64{int64(u), int64(uni(t, "dval", nv)), 1_000_000})
		}
	}
	for u := 0; u < nu && !boundary; u++ {
		nd := pick(t, "numDelegs", []int{0, 0, 1, 1, 2})
		if drop {
			nd = pick(t, "numDelegsDrop", []int{0, 0, 1})
		}
		for d := 0; d < nd; d++ {
			amts := []int64{1_000_000, 2_000_000, 10_000_000, 3_333_333, 20_000_000, 50_000_000}
			if drop {
				amts = []int64{1_000_000, 2_000_000, 3_333_333, 5_000_000}
			}
			cfg.UserDelegs = append(cfg.UserDelegs, [3]int64{int64(u), int64(uni(t, "dval", nv)), pick(t, "damt", amts)})
		}
	}
	s.h.Genesis = cfg
	nActors := nv + nu
	user := func(label string) int { return nv + uni(t, label, nu) }

	// ---- setup: reporters, governance carrier, selectors, voting period
	window := uni(t, "window", 3)
	var b0 Block
	for i := 0; i < nv; i++ {
		b0.Ops = append(b0.Ops, Op{K: OpCreateReporter, A: i, V: 1})
	}
	nur := pick(t, "userReporters", []int{0, 0, 1, 2})
	if boundary {
		nur = 0
	}
	usedUsers := map[int]bool{}
	var userReps []int
	for i := 0; i < nur; i++ {
		a := user("userReporter")
		if !usedUsers[a] {
			usedUsers[a] = true
			userReps = append(userReps, a)
			b0.Ops = append(b0.Ops, Op{K: OpCreateReporter, A: a, V: 1})
		}
	}
	b0.Ops = append(b0.Ops, Op{K: OpGov, A: user("proposer"), V: 3, S: c14SpecMarker, R: [3]int{0, window, 0}})
	s.add(GapSpec{Kind: 2}, b0)
	var b1 Block
	nsel := pick(t, "selectors", []int{0, 1, 2, 3})
	if drop {
		nsel = pick(t, "selectorsDrop", []int{0, 0, 1})
	}
	if boundary {
		nsel = 0
	}
	for i := 0; i < nsel; i++ {
		a := user("selector")
		if !usedUsers[a] {
			usedUsers[a] = true
			b1.Ops = append(b1.Ops, Op{K: OpSelectReporter, A: a, R: [3]int{uni(t, "selRef", 8), 0, 0}})
		}
	}
	b1.Ops = append(b1.Ops, c14NoiseOps(t, nActors, 2, false)...)
	s.add(GapSpec{Kind: 2}, b1)
	s.add(GapSpec{Kind: 4, Delta: 5000}, Block{Ops: c14NoiseOps(t, nActors, 2, false)}) // voting period (60 s) ends: the new window is in force

	// ---- deposit rounds
	rounds := pick(t, "rounds", []int{1, 1, 2, 2, 3})
	type roundInfo struct {
		dep    int // 0..2 -> deposit ids 1,2,3
		aggBlk int // index of the block whose EndBlock aggregates the round
		index  int // position of the round's aggregate among the aggregates of its deposit id
	}
	var rinfo []roundInfo
	for r := 0; r < rounds; r++ {
		dep := uni(t, "depositId", 3)
		if r > 0 && uni(t, "sameId", 3) == 0 {
			dep = rinfo[r-1].dep // a second aggregate (index 1) for the same deposit id
		}
		qi := c14CatalogIndex(c14DepositNames[dep])
		// reporter subset: around two thirds of the validators
		var subset []int
		switch {
		case drop && r == 0:
			subset = []int{0, 1, 2} // 300 of 500+: below the threshold at report time, above it once a validator is jailed
		case boundary && r == 0:
			st := uni(t, "subsetStart", nv)
			subset = []int{st, (st + 1) % nv}
		default:
			k := pick(t, "subsetSize", []int{nv, nv, nv, nv, nv - 1, nv - 1, (2*nv + 2) / 3, (2*nv + 2) / 3, nv / 2, 1})
			if k < 1 {
				k = 1
			}
			start := uni(t, "subsetStart", nv)
			for i := 0; i < k; i++ {
				subset = append(subset, (start+i)%nv)
			}
		}
		variant := pick(t, "valueVariant", []int{0, 0, 0, 0, 0, 0, 0, 0, 1, 2, 3, 4, 5, 5, 6, 7, 8})
		r1 := 8 * uni(t, "valueSel", 8)
		r2 := 8 * uni(t, "recipientSel", 8)
		var bt Block
		bt.Ops = append(bt.Ops, Op{K: OpTip, A: user("tipper"), R: [3]int{qi, 0, 0}, Amt: Amount{Kind: AmtAbs, N: pick(t, "tipAmt", []int64{1000, 10_000, 1_000_000})}})
		for _, a := range subset {
			op := Op{K: OpSubmit, A: a, R: [3]int{qi, r1, r2}, V: variant}
			if len(subset) > 1 && uni(t, "dissent", 8) == 0 {
				op.R[1] = 8 * uni(t, "valueSel2", 8)
				op.V = pick(t, "valueVariant2", []int{0, 0, 1, 4, 5})
			}
			bt.Ops = append(bt.Ops, op)
		}
		for _, a := range userReps {
			if uni(t, "userReports", 2) == 0 {
				bt.Ops = append(bt.Ops, Op{K: OpSubmit, A: a, R: [3]int{qi, r1, r2}, V: variant})
			}
		}
		bt.Ops = append(bt.Ops, c14NoiseOps(t, nActors, 2, false)...)
		ti := s.add(c14SmallGap(t), bt)
		for i := 0; i < window; i++ {
			s.add(c14SmallGap(t), Block{Ops: c14NoiseOps(t, nActors, 2, false)})
		}
		index := 0
		for _, p := range rinfo {
			if p.dep == dep {
				index++
			}
		}
		rinfo = append(rinfo, roundInfo{dep: dep, aggBlk: ti + window, index: index})
	}
	if window == 0 || uni(t, "settle", 2) == 0 {
		s.add(c14SmallGap(t), Block{Ops: c14NoiseOps(t, nActors, 2, false)})
	}

	// ---- a tipped reporting round on WITHDRAWAL query data: the tip is taken, every report must be rejected
	if uni(t, "withdrawalQueryRound", 3) == 0 {
		wq := c14CatalogIndex("withdraw-1")
		var b Block
		b.Ops = append(b.Ops, Op{K: OpTip, A: user("tipper"), R: [3]int{wq, 0, 0}, Amt: Amount{Kind: AmtAbs, N: 10_000}})
		k := 1 + uni(t, "attackers", nv)
		for a := 0; a < k; a++ {
			b.Ops = append(b.Ops, Op{K: OpSubmit, A: a, R: [3]int{wq, 0, 0}})
		}
		b.Ops = append(b.Ops, c14NoiseOps(t, nActors, 2, false)...)
		s.add(c14SmallGap(t), b)
		for i := 0; i < window; i++ {
			s.add(c14SmallGap(t), Block{Ops: c14NoiseOps(t, nActors, 2, false)})
		}
	}

	// ---- between report and claim: dispute (flag), threshold drop
	disputeBefore := uni(t, "disputeBeforeClaim", 5) == 0
	proposeOp := func() Op {
		return Op{K: OpPropose, A: user("disputer"), V: pick(t, "category", []int{1, 1, 2, 3}), R: [3]int{uni(t, "reportRef", 64), 0, 8 * uni(t, "proposer", 8)}, Amt: Amount{Kind: AmtOfNeeded, N: 1000}}
	}
	if disputeBefore {
		var b Block
		b.Ops = append(b.Ops, proposeOp())
		if uni(t, "twoDisputes", 2) == 0 {
			b.Ops = append(b.Ops, proposeOp())
		}
		b.Ops = append(b.Ops, c14NoiseOps(t, nActors, 2, false)...)
		s.add(c14SmallGap(t), b)
	}
	if drop {
		jailed := 3 + uni(t, "jailedVal", 2)
		for i := 0; i < 7; i++ {
			s.add(GapSpec{Kind: pick(t, "absGap", []int{2, 3})}, Block{Votes: []VoteSpec{{Val: jailed, Mode: 1}}, Ops: c14NoiseOps(t, nActors, 1, false)})
		}
	} else if uni(t, "randomAbsence", 6) == 0 {
		s.add(c14SmallGap(t), Block{Votes: []VoteSpec{{Val: uni(t, "absVal", nv), Mode: pick(t, "voteMode", []int{1, 2})}}, Ops: c14NoiseOps(t, nActors, 2, false)})
	}

	// ---- the jump: claim block lands at 12 h + delta after the chosen aggregate
	target := rinfo[uni(t, "targetRound", len(rinfo))]
	delta := pick(t, "ageDelta", []time.Duration{0, 0, 0, time.Millisecond, time.Millisecond, -time.Millisecond, -time.Millisecond, -time.Hour, time.Hour, 12 * time.Hour, time.Second})
	claimOp := func(r roundInfo) Op {
		op := Op{K: OpClaimDeposit, A: uni(t, "claimer", nActors), R: [3]int{r.dep, 0, uni(t, "r2", 3)}}
		op.R[1] = r.index
		if uni(t, "wrongIndex", 8) == 0 {
			op.R[1] = pick(t, "claimIndex", []int{0, 1, 2})
		}
		op.V = pick(t, "claimVariant", []int{0, 0, 0, 0, 0, 0, 0, 0, 0, 0, 1, 2, 3, 3})
		return op
	}
	var jb Block
	nclaims := pick(t, "claimsInJump", []int{0, 1, 1, 1, 2, 2, 3})
	for i := 0; i < nclaims; i++ {
		r := target
		if uni(t, "otherRound", 3) == 0 {
			r = rinfo[uni(t, "claimRound", len(rinfo))]
		}
		jb.Ops = append(jb.Ops, claimOp(r))
	}
	jb.Ops = append(jb.Ops, c14NoiseOps(t, nActors, 2, true)...)
	s.add(c14MsGap(12*time.Hour+delta-s.since(target.aggBlk)), jb)

	// ---- claim blocks right after the boundary (1 ms steps cross it), dispute after the claim, tail
	nafter := rapid.IntRange(1, 4).Draw(t, "claimBlocks")
	for i := 0; i < nafter; i++ {
		var b Block
		if !disputeBefore && uni(t, "disputeAfter", 6) == 0 {
			b.Ops = append(b.Ops, proposeOp())
		}
		nc := pick(t, "claims", []int{1, 1, 2, 3})
		for j := 0; j < nc; j++ {
			r := target
			if uni(t, "otherRound", 2) == 0 {
				r = rinfo[uni(t, "claimRound", len(rinfo))]
			}
			b.Ops = append(b.Ops, claimOp(r))
		}
		b.Ops = append(b.Ops, c14NoiseOps(t, nActors, 2, true)...)
		g := GapSpec{Kind: pick(t, "afterGapKind", []int{1, 1, 2, 3, 6, 7})}
		s.add(g, b)
	}
	// a late block in which every round is claimed at its own index (second claims of ids already paid out must fail)
	if uni(t, "lateClaims", 4) != 0 {
		var b Block
		for _, r := range rinfo {
			b.Ops = append(b.Ops, Op{K: OpClaimDeposit, A: uni(t, "claimer", nActors), R: [3]int{r.dep, r.index, 0}})
		}
		b.Ops = append(b.Ops, c14NoiseOps(t, nActors, 2, true)...)
		s.add(GapSpec{Kind: pick(t, "lateGapKind", []int{7, 7, 8, 6})}, b)
	}
	maxTail := 6
	if thorough {
		maxTail = 20
	}
	ntail := rapid.IntRange(0, maxTail).Draw(t, "tailBlocks")
	for i := 0; i < ntail; i++ {
		g := GapSpec{Kind: pick(t, "tailGapKind", []int{1, 2, 3, 3, 4, 6, 7, 7, 8, 11})}
		if g.Kind >= 5 {
			g.Delta = pick(t, "gapDelta", []int64{0, 0, 1, -1})
		}
		s.add(g, Block{Ops: c14NoiseOps(t, nActors, 3, true)})
	}
	return s.h
}

// ---------------------------------------------------------------- runner (runHistoryProp with a custom generator)

func runC14(t *testing.T, property, name, rule string, gen func(*rapid.T) History, mk func() *c14Monitor) {
	pbt.Run(t, pbt.Prop[History]{Property: property, Name: name, Rule: rule, Gen: gen,
		Check: func(h History, info *pbt.CaseInfo, st *pbt.Stats) error {
			mon := mk()
			rs, tr, v, err := RunHistory(h, mon)
			if err != nil {
				return err
			}
			if os.Getenv("C14_TRACE") == "1" {
				fmt.Println(tr.String())
				fmt.Println("-----")
			}
			if mon.infra != "" {
				return fmt.Errorf("C14 reference (evmref) unusable: %s", mon.infra) // never a silent pass
			}
			mon.Classify(info)
			st.Count("blocks", int64(rs.Blocks))
			st.Count("ops_total", int64(rs.OpsTotal))
			st.Count("ops_accepted", int64(rs.OpsOK))
			st.Count("removed_voter_drops", int64(rs.RemovedVoterDrops))
			st.Count("gap_clamps", int64(rs.GapClamps))
			if rs.HarnessStop {
				st.Count("harness_stops", 1)
			}
			if rs.Halt != nil {
				st.Count("halted_cases", 1)
				st.Count("halt/"+haltSignature(rs.Halt), 1) // halts are C02's verdict; here they only end the case
			}
			for k, n := range rs.ByKindOK {
				st.Count("ok/"+k, int64(n))
			}
			for k, n := range rs.ByKindFail {
				st.Count("rejected/"+k, int64(n))
			}
			for k, n := range mon.counters {
				st.Count("c14/"+k, n)
			}
			if os.Getenv("VERIF_REASONS") == "1" {
				for k, n := range rs.Reasons {
					st.Count("why/"+k, int64(n))
				}
			}
			if v != nil {
				return v
			}
			return nil
		}})
}
