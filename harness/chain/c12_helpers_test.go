package chain

// C12 helpers (history part): the scenario generator for dispute life-cycles and votes, the
// re-signing of "new round" proposals (so that a later round names exactly the report of the
// dispute that timed out), state snapshots, bank-event accounting and the readers of the
// reporter module's per-report stake records.

import (
	"bytes"
	"fmt"
	"math/big"
	"os"
	"sort"
	"testing"
	"time"

	abci "github.com/cometbft/cometbft/abci/types"
	"pgregory.net/rapid"

	"cosmossdk.io/collections"
	"cosmossdk.io/math"

	sdk "github.com/cosmos/cosmos-sdk/types"
	authsigning "github.com/cosmos/cosmos-sdk/x/auth/signing"
	stakingtypes "github.com/cosmos/cosmos-sdk/x/staking/types"

	disputetypes "github.com/tellor-io/layer/x/dispute/types"
	reportertypes "github.com/tellor-io/layer/x/reporter/types"

	"verif/harness/pbt"
)

// ---------------------------------------------------------------- scenario generator

const (
	c12RoundMarker = "c12:reround"
	c12Day         = int64(24 * 3600 * 1000) // ms
)

type c12Scn struct {
	h     History
	nowMs int64 // scenario clock: sum of the gaps emitted so far
}

func (s *c12Scn) add(gapMs int64, ops ...Op) {
	if gapMs < 1 {
		gapMs = 1
	}
	s.h.Blocks = append(s.h.Blocks, Block{Gap: GapSpec{Kind: 0, Ms: gapMs}, Ops: ops})
	s.nowMs += gapMs
}

// at emits a block whose time is exactly target (scenario clock); if the clock is already past it, 1 ms later.
func (s *c12Scn) at(targetMs int64, ops ...Op) { s.add(targetMs-s.nowMs, ops...) }

func c12Shuffle(t *rapid.T, label string, xs []int) []int {
	out := append([]int(nil), xs...)
	for i := len(out) - 1; i > 0; i-- {
		j := uni(t, label, i+1)
		out[i], out[j] = out[j], out[i]
	}
	return out
}

func c12Contains(xs []int, x int) bool {
	for _, y := range xs {
		if y == x {
			return true
		}
	}
	return false
}

// c12Gen draws one scenario: reporters with selectors, tips by several accounts, reports at
// several heights, then one or more disputes that are funded at once or in parts (or expire
// unfunded), voted on by team / tippers / reporters / selectors (before and after their
// reporter, also after switching reporter) / holders, with blocks placed exactly at the
// 1-, 2- and 3-day deadlines +-1 ms / +-1 s, and later rounds after a vote without quorum.
func c12Gen(t *rapid.T, thorough bool) History {
	if uni(t, "style", 4) == 0 {
		return GenHistory(t, c12VotesProfile(), thorough) // weighted random operations instead of a scripted scenario
	}
	s := &c12Scn{}
	nv := pick(t, "numValidators", []int{3, 3, 4})
	nu := 8 + uni(t, "numUsers", 3)
	cfg := GenesisCfg{NumValidators: nv, NumUsers: nu, UserBalance: 1_000_000_000_000, SlashWindow: 5, UnbondingSecs: 21 * 24 * 3600,
		VotingSecs: 60, MaxValidators: nv + 3}
	equal := uni(t, "equalPowers", 2) == 0
	for i := 0; i < nv; i++ {
		tok := int64(100_000_000)
		if !equal {
			tok = pick(t, "valTokens", []int64{100_000_000, 50_000_000, 200_000_000, 100_500_000, 20_000_000})
		}
		cfg.ValTokens = append(cfg.ValTokens, tok)
	}
	amts := []int64{2_000_000, 3_000_000, 5_000_000, 10_000_000, 3_333_333, 1_500_000, 20_000_000}
	for u := 0; u < 6; u++ {
		nd := 1 + uni(t, "numDelegs", 2)
		for d := 0; d < nd; d++ {
			cfg.UserDelegs = append(cfg.UserDelegs, [3]int64{int64(u), int64(uni(t, "dval", nv)), pick(t, "damt", amts)})
		}
	}
	teamStaked := uni(t, "teamStaked", 3) == 0
	if teamStaked {
		cfg.UserDelegs = append(cfg.UserDelegs, [3]int64{int64(nu - 1), int64(uni(t, "dval", nv)), pick(t, "damt", amts)})
	}
	s.h.Genesis = cfg
	U := func(i int) int { return nv + i }
	team := U(nu - 1)
	RA, RB, S1, S2, S3, D := U(0), U(1), U(2), U(3), U(4), U(5)
	var holders []int
	for i := 6; i < nu-1; i++ {
		holders = append(holders, U(i))
	}
	withRV := uni(t, "validatorReporter", 2) == 0
	RV := 0
	var reps []int // in actor order (the executor's reporterActors order)
	if withRV {
		reps = append(reps, RV)
	}
	reps = append(reps, RA, RB)
	repIdx := func(a int) int {
		for i, r := range reps {
			if r == a {
				return i
			}
		}
		return 0
	}
	small := func(label string) int64 { return pick(t, label, []int64{1, 2, 500, 1000, 1500, 6000, 6000, 60_000}) }

	// ---- block 0: distinct liquid balances (exact ties halt the chain: recorded finding), reporters
	var b0 []Op
	for i := 0; i < nu; i++ {
		b0 = append(b0, Op{K: OpSend, A: U(i), R: [3]int{0, 0, 0}, Amt: Amount{Kind: AmtAbs, N: int64(1000*(i+1) + 7*i + uni(t, "dust", 5))}})
	}
	for _, r := range reps {
		b0 = append(b0, Op{K: OpCreateReporter, A: r, V: pick(t, "rate", []int{0, 1, 1, 2})})
	}
	s.add(2000, b0...)
	// ---- block 1: selectors
	s2rep := pick(t, "s2rep", []int{RA, RA, RB})
	s3rep := RB
	if withRV && uni(t, "s3rv", 2) == 0 {
		s3rep = RV
	}
	selOf := map[int]int{S1: RA, S2: s2rep, S3: s3rep}
	b1 := []Op{
		{K: OpSelectReporter, A: S1, R: [3]int{repIdx(RA), 0, 0}},
		{K: OpSelectReporter, A: S2, R: [3]int{repIdx(s2rep), 0, 0}},
		{K: OpSelectReporter, A: S3, R: [3]int{repIdx(s3rep), 0, 0}},
	}
	teamSel := teamStaked && uni(t, "teamSelects", 2) == 0
	if teamSel {
		b1 = append(b1, Op{K: OpSelectReporter, A: team, R: [3]int{repIdx(RA), 0, 0}})
		selOf[team] = RA
	}
	s.add(2000, b1...)

	// ---- tips by several accounts and reports at several heights
	candSet := []int{holders[0], S1, RA, team, D, RB}
	if len(holders) > 1 {
		candSet = append(candSet, holders[len(holders)-1])
	}
	cands := c12Shuffle(t, "tipperOrder", candSet)
	tippers := cands[:2+uni(t, "numTippers", 2)]
	tipOp := func(a int) Op {
		return Op{K: OpTip, A: a, R: [3]int{uni(t, "tipQuery", 5), 0, 0},
			Amt: Amount{Kind: AmtAbs, N: pick(t, "tipAmt", []int64{1000, 10_000, 1_000_000, 3_333_333, 51, 49, 100, 250_000})}}
	}
	submitOps := func() []Op {
		var ops []Op
		for _, r := range reps {
			n := 1 + uni(t, "numSubmits", 2)
			for k := 0; k < n; k++ {
				ops = append(ops, Op{K: OpSubmit, A: r, R: [3]int{uni(t, "subQ", 8), 1 + uni(t, "subV", 7), 0}, S: "nodep"})
			}
		}
		return ops
	}
	stakeOp := func(a int) Op {
		if uni(t, "stakeKind", 3) == 0 {
			return Op{K: OpUndelegate, A: a, R: [3]int{uni(t, "uval", nv), 0, 0}, Amt: Amount{Kind: AmtOfStake, N: pick(t, "upm", []int64{100, 250, 500})}}
		}
		return Op{K: OpDelegate, A: a, R: [3]int{uni(t, "sval", nv), 0, 0}, Amt: Amount{Kind: AmtAbs, N: pick(t, "samt", []int64{1_000_000, 500_000, 1_234_567, 2_000_000})}}
	}
	iters := 2 + uni(t, "reportIters", 2)
	for it := 0; it < iters; it++ {
		var ops []Op
		nt := 1 + uni(t, "numTips", 3)
		for k := 0; k < nt; k++ {
			ops = append(ops, tipOp(pick(t, "tipper", tippers)))
		}
		if uni(t, "stakeChange", 2) == 0 {
			ops = append(ops, stakeOp(pick(t, "staker", []int{S1, S2, S3, RA, RB, D})))
		}
		s.add(small("gap"), ops...)
		s.add(small("gap"), submitOps()...)
	}

	// ---- disputes
	voterPool := append([]int{RA, RB, S1, S2, S3, D}, holders...)
	if withRV {
		voterPool = append(voterPool, RV)
	}
	for i := 1; i < nv; i++ {
		voterPool = append(voterPool, i) // other validator operators: plain delegators
	}
	switched := false
	teamNow := team
	maxRounds := 3
	nDisputes := 1
	if uni(t, "secondDispute", 3) == 0 {
		nDisputes = 2
	}
	if thorough {
		maxRounds = 4
		nDisputes++
	}
	voteOp := func(a, choice int) Op { return Op{K: OpVote, A: a, R: [3]int{uni(t, "voteRef", 2), 0, 0}, V: choice} }
	// voting draws the voters of one round and spreads their votes over 1-3 blocks
	voting := func(quorum bool) {
		// things that happen between the dispute block and the votes
		var pre []Op
		if !switched && uni(t, "switch", 3) == 0 {
			switched = true
			other := RB
			if selOf[S2] == RB {
				other = RA
			}
			pre = append(pre, Op{K: OpSwitchReporter, A: S2, R: [3]int{repIdx(other), 0, 0}})
		}
		if uni(t, "lateTip", 2) == 0 {
			pre = append(pre, tipOp(pick(t, "tipper", tippers)))
		}
		if uni(t, "lateStake", 2) == 0 {
			pre = append(pre, stakeOp(pick(t, "staker", []int{S1, S2, S3, RA, RB, D})))
		}
		if uni(t, "teamChange", 8) == 0 {
			nt := pick(t, "newTeam", holders)
			pre = append(pre, Op{K: OpUpdateTeam, A: teamNow, R: [3]int{nt, 0, 0}})
			voterPool = append(voterPool, teamNow)
			teamNow = nt
		}
		if len(pre) > 0 {
			s.add(small("gap"), pre...)
			if uni(t, "lateReports", 2) == 0 {
				s.add(small("gap"), submitOps()...)
			}
		}
		var voters []int
		if quorum {
			voters = append(voters, teamNow)
			voters = append(voters, tippers...)
		} else if len(tippers) > 1 {
			voters = append(voters, tippers[1:1+uni(t, "someTippers", len(tippers))]...)
		}
		if uni(t, "pair", 3) != 0 {
			voters = append(voters, RA, S1)
			if uni(t, "pair2", 2) == 0 {
				voters = append(voters, S2)
			}
		}
		extra := 1 + uni(t, "extraVoters", 4)
		for _, a := range c12Shuffle(t, "voterOrder", voterPool) {
			if extra == 0 {
				break
			}
			if !c12Contains(voters, a) && (quorum || a != teamNow) {
				voters = append(voters, a)
				extra--
			}
		}
		// dedupe, drop the team from a no-quorum round
		var vs []int
		for _, a := range voters {
			if !c12Contains(vs, a) && (quorum || a != teamNow) {
				vs = append(vs, a)
			}
		}
		vs = c12Shuffle(t, "voteOrder", vs)
		major := uni(t, "majority", 3)
		var ops []Op
		for _, a := range vs {
			ch := major
			if uni(t, "dissent", 3) == 0 {
				ch = uni(t, "choice", 3)
			}
			ops = append(ops, voteOp(a, ch))
		}
		if len(ops) > 1 && uni(t, "duplicate", 3) == 0 {
			ops = append(ops, voteOp(vs[uni(t, "dupVoter", len(vs)-1)], uni(t, "choice", 3)))
		}
		if len(ops) > 0 && uni(t, "sendBeforeVote", 3) == 0 {
			// a payment to a voter in the block of its vote: the token weight is the CURRENT balance
			k := uni(t, "sendPos", len(ops))
			pay := Op{K: OpSend, A: pick(t, "payer", holders), R: [3]int{ops[k].A, 0, 0}, Amt: Amount{Kind: AmtAbs, N: pick(t, "payAmt", []int64{1, 1_000_000, 123_456_789})}}
			ops = append(ops[:k], append([]Op{pay}, ops[k:]...)...)
		}
		nb := 1 + uni(t, "voteBlocks", 3)
		for b := 0; b < nb; b++ {
			lo, hi := b*len(ops)/nb, (b+1)*len(ops)/nb
			s.add(pick(t, "voteGap", []int64{1, 1000, 6000, 60_000, 3_600_000, 6 * 3_600_000}), ops[lo:hi]...)
		}
	}
	deltas := []int64{-1000, -1, 0, 1, 1000}
	for dnum := 0; dnum < nDisputes; dnum++ {
		plan := uni(t, "plan", 10)
		var ops []Op
		if uni(t, "tipBeforePropose", 2) == 0 {
			ops = append(ops, tipOp(pick(t, "tipper", tippers)))
		}
		proposer := pick(t, "proposer", append([]int{D, S3, team}, holders...))
		feePM := int64(1000)
		if plan >= 8 {
			feePM = pick(t, "partialFee", []int64{500, 100, 999, 1})
		}
		ops = append(ops, Op{K: OpPropose, A: proposer, R: [3]int{uni(t, "report", 64), 0, 0}, V: pick(t, "category", []int{1, 1, 2, 2, 3}),
			Amt: Amount{Kind: AmtOfNeeded, N: feePM}})
		if uni(t, "tipAfterPropose", 6) == 0 {
			ops = append(ops, tipOp(pick(t, "tipper", tippers)))
		}
		s.add(small("gap"), ops...)
		tStart := s.nowMs
		tVoting := tStart
		if plan >= 8 { // funded in parts, or never
			payer := pick(t, "payer", append([]int{D}, holders...))
			addFee := func(pm int64) Op {
				return Op{K: OpAddFee, A: payer, R: [3]int{uni(t, "feeRef", 2), 0, 0}, Amt: Amount{Kind: AmtOfNeeded, N: pm}}
			}
			failed := false
			switch uni(t, "prevotePlan", 4) {
			case 0:
				s.add(small("gap"), addFee(1000))
			case 1:
				s.add(small("gap"), addFee(500))
				s.at(tStart+c12Day+pick(t, "delta", []int64{-1000, -1, 0}), addFee(1000))
			case 2:
				s.at(tStart+c12Day+pick(t, "delta", []int64{1, 1000, 3_600_000}), addFee(1000))
				failed = true
			default:
				s.add(small("gap"), addFee(300))
				s.add(small("gap"), addFee(300))
				s.at(tStart+c12Day+pick(t, "delta", deltas), addFee(1000)) // funds it or arrives too late
				if s.nowMs > tStart+c12Day {
					failed = true
				}
			}
			if failed {
				s.add(small("gap"), voteOp(pick(t, "lateVoter", voterPool), 1), addFee(1000))
				continue
			}
			tVoting = s.nowMs
		}
		for round := 1; ; round++ {
			quorum := plan < 4 || (round >= 2 && uni(t, "laterQuorum", 2) == 0)
			voting(quorum)
			if quorum {
				s.add(small("gap"))
				s.add(small("gap"), voteOp(pick(t, "lateVoter", voterPool), 1), Op{K: OpClaimReward, A: uni(t, "claimer", nv+nu), R: [3]int{uni(t, "claimRef", 2), 0, 1}})
				break
			}
			// the vote runs out without quorum
			d1 := pick(t, "delta", append([]int64{3_600_000}, deltas...))
			s.at(tVoting+2*c12Day+d1, voteOp(pick(t, "lateVoter", voterPool), uni(t, "choice", 3)), voteOp(pick(t, "lateVoter", voterPool), uni(t, "choice", 3)))
			if s.nowMs <= tVoting+2*c12Day {
				s.add(pick(t, "afterEnd", []int64{1, 1000, 60_000, 3_600_000}))
			}
			if round >= maxRounds {
				// let the dispute run out: resolved at the dispute end time
				s.at(tVoting + 3*c12Day + pick(t, "delta", deltas))
				s.add(small("gap"))
				s.add(small("gap"), Op{K: OpClaimReward, A: uni(t, "claimer", nv+nu), R: [3]int{uni(t, "claimRef", 2), 0, 1}})
				break
			}
			variant := pick(t, "roundFee", []int{0, 0, 0, 1, 2})
			reround := func(v int) Op {
				return Op{K: OpPropose, A: pick(t, "proposer", append([]int{D, S3}, holders...)), S: c12RoundMarker, R: [3]int{0, v, 0}, V: 1, Amt: Amount{Kind: AmtOfNeeded, N: 1000}}
			}
			if uni(t, "roundAtEnd", 3) == 0 {
				s.at(tVoting+3*c12Day+pick(t, "delta", deltas), reround(variant))
			} else {
				s.add(pick(t, "roundGap", []int64{1, 1000, 60_000, 3_600_000, 12 * 3_600_000}), reround(variant))
			}
			if s.nowMs > tVoting+3*c12Day {
				s.add(small("gap"), reround(0)) // too late: the dispute is resolved by now
				break
			}
			if variant == 2 { // one loya short: rejected; pay properly in the next block
				s.add(small("gap"), reround(0))
			}
			tVoting = s.nowMs
		}
	}
	s.add(small("gap"))
	s.add(small("gap"))
	return s.h
}

// c12VotesProfile is the weighted-random counterpart of the scenarios: dispute traffic with full-fee
// proposals of stored reports, votes by everybody (a sixth of them by the team account), day-sized gaps.
func c12VotesProfile() *Profile {
	w := map[string]int{OpTip: 10, OpSubmit: 25, OpPropose: 8, OpAddFee: 4, OpVote: 30, OpSwitchReporter: 3, OpSelectReporter: 3, OpCreateReporter: 2,
		OpDelegate: 3, OpUndelegate: 2, OpSend: 4, OpUpdateTeam: 1, OpClaimReward: 2, OpFeeRefund: 2, OpWithdrawTip: 2, OpAddEvidence: 1, OpUnjailReporter: 2}
	return &Profile{Name: "votes", Weights: w, MinBlocks: 12, MaxBlocks: 40, MaxOps: 5, BadVarPM: 30, Setup: true, ThoroughScale: 3,
		GapW: []int{3, 3, 10, 25, 5, 3, 3, 2, 5, 5, 3, 0, 0, 0},
		Shape: func(t *rapid.T, op *Op) {
			switch op.K {
			case OpPropose:
				if uni(t, "fullFee", 4) != 0 {
					op.Amt = Amount{Kind: AmtOfNeeded, N: 1000}
					op.R[1] = 0
				}
			case OpVote:
				if uni(t, "teamVote", 6) == 0 {
					op.A = -1 // the last actor: the team account
				}
			}
		}}
}

// c12RoundFee is the reference fee of the round that follows a dispute in its round-th round:
// 5% of the slash amount, doubled per round already held, capped at the slash amount.
// The statement does not say where the 5% is rounded, so [lo,hi] spans both readings.
func c12RoundFee(slash *big.Int, round uint64) (lo, hi *big.Int) {
	pow := new(big.Int).Lsh(big.NewInt(1), uint(round))
	lo = new(big.Int).Quo(slash, big.NewInt(20))
	lo.Mul(lo, pow)
	hi = new(big.Int).Mul(slash, pow)
	hi.Quo(hi, big.NewInt(20))
	if lo.Cmp(slash) > 0 {
		lo = new(big.Int).Set(slash)
	}
	if hi.Cmp(slash) > 0 {
		hi = new(big.Int).Set(slash)
	}
	return lo, hi
}

// c12RewriteRound re-signs a marked proposal (same signer, same sequence number) so that it names
// exactly the report and category of the most recent dispute that is unresolved (or still voting:
// the BeginBlocker of the coming block may time it out first), with the round fee +- a variant.
func c12RewriteRound(c *Chain, bt *BuiltTx) (bool, error) {
	if bt.Bytes == nil {
		return false, nil
	}
	ctx := c.Ctx()
	var target *disputetypes.Dispute
	_ = c.App.DisputeKeeper.Disputes.Walk(ctx, nil, func(id uint64, d disputetypes.Dispute) (bool, error) {
		if d.Open && (d.DisputeStatus == disputetypes.Unresolved || d.DisputeStatus == disputetypes.Voting) {
			dd := d
			target = &dd
		}
		return false, nil
	})
	if target == nil {
		return false, nil
	}
	lo, _ := c12RoundFee(target.SlashAmount.BigInt(), target.DisputeRound)
	fee := math.NewIntFromBigInt(lo)
	switch mod(bt.Op.R[1], 3) {
	case 1:
		fee = fee.AddRaw(12_345) // more than needed: only the round fee may be taken
	case 2:
		fee = fee.SubRaw(1) // one loya short
	}
	rep := target.InitialEvidence
	msg := &disputetypes.MsgProposeDispute{Creator: bt.Signer.Addr.String(), Report: &rep, DisputeCategory: target.DisputeCategory, Fee: coin(fee), PayFromBond: false}
	tx, err := c.TxConfig.TxDecoder()(bt.Bytes)
	if err != nil {
		return false, err
	}
	sv, ok := tx.(authsigning.SigVerifiableTx)
	if !ok {
		return false, fmt.Errorf("not a signed tx")
	}
	sigs, err := sv.GetSignaturesV2()
	if err != nil || len(sigs) != 1 {
		return false, fmt.Errorf("signatures: %v", err)
	}
	acc := c.App.AccountKeeper.GetAccount(ctx, bt.Signer.Addr)
	if acc == nil {
		return false, fmt.Errorf("no account")
	}
	b, err := c.signTxWith(bt.Signer, acc.GetAccountNumber(), sigs[0].Sequence, 3_000_000, 0, msg)
	if err != nil {
		return false, err
	}
	bt.Msgs = []sdk.Msg{msg}
	bt.Bytes = b
	bt.Note["c12_round_of"] = target.DisputeId
	return true, nil
}

// ---------------------------------------------------------------- snapshots

type c12Snap struct {
	height   int64
	time     time.Time
	disputes map[uint64]disputetypes.Dispute
	team     []byte
	bal      map[string]*big.Int // bech32 -> liquid loya, all actors
	sel      map[string]string   // selector (raw bytes as string) -> reporter (raw bytes as string)
	bonded   string              // canonical list of bonded validators
}

func c12TakeSnap(c *Chain) *c12Snap {
	ctx := c.Ctx()
	s := &c12Snap{height: c.Height, time: c.Time, disputes: map[uint64]disputetypes.Dispute{}, bal: map[string]*big.Int{}, sel: map[string]string{}}
	_ = c.App.DisputeKeeper.Disputes.Walk(ctx, nil, func(id uint64, d disputetypes.Dispute) (bool, error) {
		s.disputes[id] = d
		return false, nil
	})
	if p, err := c.App.DisputeKeeper.Params.Get(ctx); err == nil {
		s.team = append([]byte(nil), p.TeamAddress...)
	}
	for _, a := range c.Actors {
		s.bal[a.Addr.String()] = c.App.BankKeeper.GetBalance(ctx, a.Addr, BondDenom).Amount.BigInt()
	}
	_ = c.App.ReporterKeeper.Selectors.Walk(ctx, nil, func(k []byte, v reportertypes.Selection) (bool, error) {
		s.sel[string(k)] = string(v.Reporter)
		return false, nil
	})
	vals, _ := c.App.StakingKeeper.GetAllValidators(ctx)
	var bs []string
	for _, v := range vals {
		if v.Status == stakingtypes.Bonded {
			bs = append(bs, v.OperatorAddress)
		}
	}
	sort.Strings(bs)
	s.bonded = fmt.Sprint(bs)
	return s
}

// ---------------------------------------------------------------- bank-event accounting (SDK bank module, not under test)

type c12Flow map[string]*big.Int // bech32 -> received - spent

func (f c12Flow) add(addr string, x *big.Int, sign int) {
	if f[addr] == nil {
		f[addr] = new(big.Int)
	}
	if sign > 0 {
		f[addr].Add(f[addr], x)
	} else {
		f[addr].Sub(f[addr], x)
	}
}

func (f c12Flow) merge(g c12Flow) {
	for a, x := range g {
		f.add(a, x, +1)
	}
}

func (f c12Flow) of(addr string) *big.Int {
	if x := f[addr]; x != nil {
		return x
	}
	return new(big.Int)
}

// c12Flows sums the coin_spent / coin_received events; mode "" takes all events, otherwise only
// those marked with that block phase ("BeginBlock" / "EndBlock").
func c12Flows(events []abci.Event, mode string) (c12Flow, bool) {
	f := c12Flow{}
	ok := true
	for _, ev := range events {
		if ev.Type != "coin_spent" && ev.Type != "coin_received" {
			continue
		}
		var who, amt, evMode string
		for _, a := range ev.Attributes {
			switch a.Key {
			case "spender", "receiver":
				who = a.Value
			case "amount":
				amt = a.Value
			case "mode":
				evMode = a.Value
			}
		}
		if mode != "" && evMode != mode {
			continue
		}
		if amt == "" {
			continue
		}
		coins, err := sdk.ParseCoinsNormalized(amt)
		if err != nil {
			ok = false
			continue
		}
		x := coins.AmountOf(BondDenom).BigInt()
		if ev.Type == "coin_spent" {
			f.add(who, x, -1)
		} else {
			f.add(who, x, +1)
		}
	}
	return f, ok
}

// ---------------------------------------------------------------- reporter stake records (state, not the functions under test)

type c12Rec struct {
	block   uint64
	qid     string
	total   *big.Int
	origins map[string]*big.Int // delegator (raw bytes as string) -> amount
}

func c12ReadRecords(c *Chain) map[string][]c12Rec {
	out := map[string][]c12Rec{}
	_ = c.App.ReporterKeeper.Report.Walk(c.Ctx(), nil, func(k collections.Pair[[]byte, collections.Pair[[]byte, uint64]], v reportertypes.DelegationsAmounts) (bool, error) {
		r := c12Rec{block: k.K2().K2(), qid: string(k.K1()), total: new(big.Int), origins: map[string]*big.Int{}}
		if !v.Total.IsNil() {
			r.total = v.Total.BigInt()
		}
		for _, o := range v.TokenOrigins {
			key := string(o.DelegatorAddress)
			if r.origins[key] == nil {
				r.origins[key] = new(big.Int)
			}
			r.origins[key].Add(r.origins[key], o.Amount.BigInt())
		}
		rep := string(k.K2().K1())
		out[rep] = append(out[rep], r)
		return false, nil
	})
	return out
}

// c12Latest returns the stake a reporter's latest report at or before block recorded (total, and
// the part that came from one delegator). Records written later in the current block than the
// transaction under evaluation are excluded by the visible predicate. ok=false if two records of
// that latest height disagree on the numbers asked for (the statement does not say which counts).
func c12Latest(recs []c12Rec, block uint64, delegator string, visible func(r c12Rec) bool) (total, own *big.Int, found, ok bool) {
	total, own = new(big.Int), new(big.Int)
	best := uint64(0)
	var at []c12Rec
	for _, r := range recs {
		if r.block > block || (visible != nil && !visible(r)) {
			continue
		}
		if !found || r.block > best {
			best, found = r.block, true
			at = at[:0]
		}
		if r.block == best {
			at = append(at, r)
		}
	}
	if !found {
		return total, own, false, true
	}
	ok = true
	for i, r := range at {
		o := new(big.Int)
		if x := r.origins[delegator]; x != nil {
			o = x
		}
		if i == 0 {
			total, own = r.total, o
		} else if r.total.Cmp(total) != 0 || o.Cmp(own) != 0 {
			ok = false
		}
	}
	return total, own, true, ok
}

func c12Addr(bech string) []byte {
	a, err := sdk.AccAddressFromBech32(bech)
	if err != nil {
		return nil
	}
	return a
}

func c12EqualU64s(a, b []uint64) bool {
	if len(a) != len(b) {
		return false
	}
	for i := range a {
		if a[i] != b[i] {
			return false
		}
	}
	return true
}

var _ = bytes.Equal

// ---------------------------------------------------------------- runner

func c12Run(t *testing.T, name, rule string, gen func(*rapid.T) History, mk func() *c12Monitor) {
	pbt.Run(t, pbt.Prop[History]{Property: "C12", Name: name, Rule: rule, Gen: gen,
		Check: func(h History, info *pbt.CaseInfo, st *pbt.Stats) error {
			mon := mk()
			rs, tr, v, err := RunHistory(h, mon)
			if err != nil {
				return err
			}
			if os.Getenv("C12_TRACE") == "1" {
				fmt.Println(tr.String())
				fmt.Println("-----")
			}
			if mon.infra != "" {
				return fmt.Errorf("C12 monitor: %s", mon.infra)
			}
			mon.Classify(info)
			st.Count("blocks", int64(rs.Blocks))
			st.Count("ops_total", int64(rs.OpsTotal))
			st.Count("ops_accepted", int64(rs.OpsOK))
			st.Count("gap_clamps", int64(rs.GapClamps))
			if rs.HarnessStop {
				st.Count("harness_stops", 1)
			}
			if rs.Halt != nil {
				st.Count("halted_cases", 1)
				st.Count("halt/"+haltSignature(rs.Halt), 1) // halts are C02's verdict; here they only end the case
			}
			for k, n := range rs.ByKindOK {
				st.Count("ok/"+k, int64(n))
			}
			for k, n := range rs.ByKindFail {
				st.Count("rejected/"+k, int64(n))
			}
			for k, n := range mon.counters {
				st.Count("c12/"+k, n)
			}
			if os.Getenv("VERIF_REASONS") == "1" {
				for k, n := range rs.Reasons {
					st.Count("why/"+k, int64(n))
				}
			}
			if v != nil {
				return v
			}
			return nil
		}})
}
