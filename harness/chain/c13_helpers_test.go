package chain

// C13 helpers: the settlement scenario generator (one dispute per history: reporters, selectors,
// tippers, a disputed report, a funding plan with partial / repeated / overshooting / from-stake
// payments, votes by every kind of voter, the 2-day / 3-day / 1-day time jumps with +-1 ms variants,
// an optional second round, and a claim phase in which every party claims twice and strangers try),
// per-transaction bank-transfer accounting, stake reading and the runner.

import (
	"fmt"
	"math/big"
	"os"
	"sort"
	"testing"
	"time"

	abci "github.com/cometbft/cometbft/abci/types"
	"pgregory.net/rapid"

	sdk "github.com/cosmos/cosmos-sdk/types"
	stakingtypes "github.com/cosmos/cosmos-sdk/x/staking/types"

	"verif/harness/pbt"
)

// ---------------------------------------------------------------- bank transfers of one event list

type c13Move struct {
	from, to string   // bech32; to == "" means burned, from == "" means minted
	amt      *big.Int // loya
}

// c13ParseMoves extracts, in order, what the bank module (SDK, not under test) reported:
// "transfer" events (sender -> recipient), "burn" events (burner) and "coinbase" events (minter).
func c13ParseMoves(events []abci.Event) (moves []c13Move, bad bool) {
	for _, ev := range events {
		if ev.Type != "transfer" && ev.Type != "burn" && ev.Type != "coinbase" {
			continue
		}
		var from, to, who, amt string
		for _, a := range ev.Attributes {
			switch a.Key {
			case "sender":
				from = a.Value
			case "recipient":
				to = a.Value
			case "burner", "minter":
				who = a.Value
			case "amount":
				amt = a.Value
			}
		}
		x := new(big.Int)
		if amt != "" {
			coins, err := sdk.ParseCoinsNormalized(amt)
			if err != nil {
				bad = true
				continue
			}
			x = coins.AmountOf(BondDenom).BigInt()
		}
		switch ev.Type {
		case "transfer":
			moves = append(moves, c13Move{from: from, to: to, amt: x})
		case "burn":
			moves = append(moves, c13Move{from: who, to: "", amt: x})
		case "coinbase":
			moves = append(moves, c13Move{from: "", to: who, amt: x})
		}
	}
	return moves, bad
}

// ---------------------------------------------------------------- holdings

type c13Hold struct {
	liquid map[string]*big.Int // bech32 account -> liquid loya
	stake  map[string]*big.Int // bech32 account -> delegations (tokens from shares, truncated) + unbonding balances
	total  *big.Int            // sum of stake over all delegators
}

func c13ReadHold(c *Chain) c13Hold {
	ctx := c.Ctx()
	h := c13Hold{liquid: map[string]*big.Int{}, stake: map[string]*big.Int{}, total: new(big.Int)}
	for _, a := range c.Actors {
		h.liquid[a.Addr.String()] = c.App.BankKeeper.GetBalance(ctx, a.Addr, BondDenom).Amount.BigInt()
	}
	add := func(acc string, x *big.Int) {
		if h.stake[acc] == nil {
			h.stake[acc] = new(big.Int)
		}
		h.stake[acc].Add(h.stake[acc], x)
		h.total.Add(h.total, x)
	}
	vals := map[string]stakingtypes.Validator{}
	all, _ := c.App.StakingKeeper.GetAllValidators(ctx)
	for _, v := range all {
		vals[v.OperatorAddress] = v
	}
	dels, _ := c.App.StakingKeeper.GetAllDelegations(ctx)
	for _, d := range dels {
		if v, ok := vals[d.ValidatorAddress]; ok {
			add(d.DelegatorAddress, v.TokensFromShares(d.Shares).TruncateInt().BigInt())
		}
	}
	_ = c.App.StakingKeeper.IterateUnbondingDelegations(ctx, func(_ int64, ubd stakingtypes.UnbondingDelegation) bool {
		for _, e := range ubd.Entries {
			add(ubd.DelegatorAddress, e.Balance.BigInt())
		}
		return false
	})
	return h
}

func c13Get(m map[string]*big.Int, k string) *big.Int {
	if v, ok := m[k]; ok {
		return v
	}
	return new(big.Int)
}

// ---------------------------------------------------------------- scenario bookkeeping

type c13Scenario struct {
	h       History
	elapsed []time.Duration
}

func (s *c13Scenario) add(gap GapSpec, b Block) int {
	b.Gap = gap
	s.h.Blocks = append(s.h.Blocks, b)
	s.elapsed = append(s.elapsed, gap.Duration())
	return len(s.h.Blocks) - 1
}

// since returns the block-time distance between block i and the last block added so far.
func (s *c13Scenario) since(i int) time.Duration {
	var d time.Duration
	for j := i + 1; j < len(s.elapsed); j++ {
		d += s.elapsed[j]
	}
	return d
}

func c13MsGap(d time.Duration) GapSpec {
	if d < time.Millisecond {
		d = time.Millisecond
	}
	return GapSpec{Kind: 0, Ms: int64(d / time.Millisecond)}
}

// jumpTo adds a block whose time is base-block time + target (at least 1 ms after the previous block).
func (s *c13Scenario) jumpTo(base int, target time.Duration, b Block) int {
	return s.add(c13MsGap(target-s.since(base)), b)
}

func c13SmallGap(t *rapid.T) GapSpec {
	g := GapSpec{Kind: pick(t, "smallGapKind", []int{1, 2, 2, 3, 3, 3, 4, 5, 6})}
	if uni(t, "jitter", 12) == 0 {
		g.Nanos = rapid.Int64Range(0, 999_999).Draw(t, "gapNanos")
	}
	return g
}

// c13Voter is what the generator assumes about a possible voter (approximations are good enough:
// they are only used to keep generated vote tables away from exact ties, which halt the chain).
type c13Voter struct {
	idx      int
	team     bool
	tips     float64 // user-group power
	repPower float64 // reporter-group power if it votes before its selectors (reporters that reported)
	selOf    int     // actor index of its reporter (selectors), -1 otherwise
	selPower float64 // its own delegated tokens counted with its reporter
	tokens   float64 // token-holder power (liquid + selector tokens)
}

// c13SafeChoices draws vote choices for an ordered list of voters and repairs them until, for every
// prefix of the order, the two best approximate scores are at least 0.02 group-shares apart.
func c13SafeChoices(t *rapid.T, order []c13Voter, winner int, dissentPM int) []int {
	ch := make([]int, len(order))
	for i := range order {
		ch[i] = winner
		if uni(t, "dissent", 1000) < dissentPM {
			ch[i] = (winner + 1 + uni(t, "otherChoice", 2)) % 3
		}
	}
	margin := func(n int) float64 {
		var team [3]float64
		var users, reps, toks [3]float64
		repVoted := map[int]int{}      // reporter idx -> its choice
		repLeft := map[int]float64{}   // reporter idx -> power still counted with the reporter
		selBefore := map[int]float64{} // reporter idx -> selector tokens that voted before the reporter
		for i := 0; i < n; i++ {
			v, c := order[i], ch[i]
			if v.team {
				team[c] = 1
			}
			users[c] += v.tips
			toks[c] += v.tokens
			if v.repPower > 0 {
				p := v.repPower - selBefore[v.idx]
				if p < 0 {
					p = 0
				}
				reps[c] += p
				repVoted[v.idx] = c
				repLeft[v.idx] = p
			} else if v.selOf >= 0 && v.selPower > 0 {
				if rc, ok := repVoted[v.selOf]; ok {
					reps[rc] -= v.selPower
					repLeft[v.selOf] -= v.selPower
				} else {
					selBefore[v.selOf] += v.selPower
				}
				reps[c] += v.selPower
			}
		}
		var s [3]float64
		for o := 0; o < 3; o++ {
			s[o] = team[o]
		}
		for _, g := range [][3]float64{users, reps, toks} {
			sum := g[0] + g[1] + g[2]
			if sum > 0 {
				for o := 0; o < 3; o++ {
					s[o] += g[o] / sum
				}
			}
		}
		xs := []float64{s[0], s[1], s[2]}
		sort.Float64s(xs)
		return xs[2] - xs[1]
	}
	for n := 1; n <= len(order); n++ {
		for margin(n) < 0.02 {
			// flip the last dissenter of the prefix to the winner; if there is none, the prefix is unanimous
			flipped := false
			for i := n - 1; i >= 0; i-- {
				if ch[i] != winner {
					ch[i] = winner
					flipped = true
					break
				}
			}
			if !flipped {
				break
			}
			n = 1 // re-check all prefixes
		}
	}
	return ch
}

func c13Shuffle[T any](t *rapid.T, label string, xs []T) {
	for i := len(xs) - 1; i > 0; i-- {
		j := uni(t, label, i+1)
		xs[i], xs[j] = xs[j], xs[i]
	}
}

// GenC13 draws one settlement scenario.
func GenC13(t *rapid.T, thorough bool) History {
	var s c13Scenario
	// ---- genesis
	nv := pick(t, "numValidators", []int{3, 3, 4, 4, 5})
	nu := 8 + uni(t, "numUsers", 3)
	cfg := GenesisCfg{NumValidators: nv, NumUsers: nu, UserBalance: 1_000_000_000_000, SlashWindow: 5, UnbondingSecs: 21 * 24 * 3600, VotingSecs: 3600, MaxValidators: nv + 3}
	for i := 0; i < nv; i++ {
		cfg.ValTokens = append(cfg.ValTokens, pick(t, "valTokens", []int64{100_000_000, 100_000_000, 50_000_000, 200_000_000, 100_500_000, 33_000_000}))
	}
	team := nv + nu - 1
	userStake := map[int]int64{} // actor idx -> delegated loya
	for u := 0; u < nu-1; u++ {  // the team account keeps no stake
		nd := pick(t, "numDelegs", []int{0, 1, 1, 1, 2, 2})
		for d := 0; d < nd; d++ {
			amt := pick(t, "damt", []int64{1_000_000, 2_000_000, 1_500_000, 10_000_000, 3_333_333, 1_000_001, 7_777_777, 20_000_000, 12_345_678})
			cfg.UserDelegs = append(cfg.UserDelegs, [3]int64{int64(u), int64(uni(t, "dval", nv)), amt})
			userStake[nv+u] += amt
		}
	}
	// one case in three: a user whose stake is split over two validators, one part small (smaller than its share of
	// most fees, so that a fee paid from stake has to go on to the second validator); it becomes a reporter and is the
	// preferred payer from stake
	split := -1
	if uni(t, "splitStaker", 3) == 0 {
		split = nv // actor index of user 0
		var ud [][3]int64
		for _, d := range cfg.UserDelegs {
			if d[0] != 0 {
				ud = append(ud, d)
			}
		}
		v1 := uni(t, "splitV1", nv)
		v2 := (v1 + 1 + uni(t, "splitV2", nv-1)) % nv
		small := pick(t, "splitSmall", []int64{1_000_000, 1_500_000, 1_000_003, 250_000})
		cfg.UserDelegs = append(ud, [3]int64{0, int64(v1), small}, [3]int64{0, int64(v2), 30_000_000})
		userStake[split] = small + 30_000_000
	}
	s.h.Genesis = cfg
	nActors := nv + nu
	stakeOf := func(a int) int64 {
		if a < nv {
			return cfg.ValTokens[a]
		}
		return userStake[a]
	}

	// ---- roles
	var reporters []int // actor indices, ascending
	nvr := 2 + uni(t, "valReporters", nv-1)
	for i := 0; i < nvr; i++ {
		reporters = append(reporters, i)
	}
	var staked []int
	for a := nv; a < nActors-1; a++ {
		if userStake[a] >= 1_000_000 {
			staked = append(staked, a)
		}
	}
	c13Shuffle(t, "stakedOrder", staked)
	nur := pick(t, "userReporters", []int{0, 1, 1, 2})
	for i := 0; i < nur && i < len(staked); i++ {
		reporters = append(reporters, staked[i])
	}
	if split >= 0 {
		have := false
		for _, r := range reporters {
			have = have || r == split
		}
		if !have {
			reporters = append(reporters, split)
		}
	}
	sort.Ints(reporters)
	isRep := map[int]bool{}
	for _, r := range reporters {
		isRep[r] = true
	}
	selOf := map[int]int{}
	nsel := pick(t, "selectors", []int{0, 1, 2, 3})
	for _, a := range staked {
		if nsel == 0 {
			break
		}
		if !isRep[a] {
			selOf[a] = uni(t, "selTarget", len(reporters)) // position in the sorted reporter list
			nsel--
		}
	}
	repTotal := map[int]int64{} // reporter actor idx -> tokens it reports with
	for _, r := range reporters {
		repTotal[r] = stakeOf(r)
	}
	for a, k := range selOf {
		repTotal[reporters[k]] += stakeOf(a)
	}
	// tippers
	tips := map[int]int64{}
	ntip := pick(t, "tippers", []int{0, 0, 1, 1, 2, 3})
	for i := 0; i < ntip; i++ {
		a := uni(t, "tipper", nActors-1)
		tips[a] += pick(t, "tipAmt", []int64{10_000, 123_457, 1_000_000, 50_000, 999_999})
	}
	drainTeam := uni(t, "drainTeam", 25) == 0

	// ---- block A: reporters, balance variety, tips (their two-block reporting windows are over before the reports)
	var bA Block
	for _, r := range reporters {
		bA.Ops = append(bA.Ops, Op{K: OpCreateReporter, A: r, V: 1})
	}
	nsend := uni(t, "sends", 4)
	for i := 0; i < nsend; i++ {
		bA.Ops = append(bA.Ops, Op{K: OpSend, A: uni(t, "sendFrom", nActors-1), R: [3]int{uni(t, "sendTo", nActors-1), 0, 0},
			Amt: Amount{Kind: AmtAbs, N: pick(t, "sendAmt", []int64{1, 333_333_333, 123_456_789_012, 77_777, 500_000_000_001})}})
	}
	if drainTeam {
		bA.Ops = append(bA.Ops, Op{K: OpSend, A: team, R: [3]int{nv, 0, 0}, Amt: Amount{Kind: AmtOfBalance, N: 1000}})
	}
	var tipKeys []int
	for a := range tips {
		tipKeys = append(tipKeys, a)
	}
	sort.Ints(tipKeys)
	for _, a := range tipKeys {
		bA.Ops = append(bA.Ops, Op{K: OpTip, A: a, R: [3]int{uni(t, "tipQuery", 3), 0, 0}, Amt: Amount{Kind: AmtAbs, N: tips[a]}})
	}
	s.add(GapSpec{Kind: 2}, bA)
	// ---- block B: selectors
	var bB Block
	var selKeys []int
	for a := range selOf {
		selKeys = append(selKeys, a)
	}
	sort.Ints(selKeys)
	for _, a := range selKeys {
		bB.Ops = append(bB.Ops, Op{K: OpSelectReporter, A: a, R: [3]int{selOf[a], 0, 0}})
	}
	s.add(c13SmallGap(t), bB)
	s.add(c13SmallGap(t), Block{})
	s.add(c13SmallGap(t), Block{})
	// ---- block C: reports on the open cycle-list query by 1..all reporters. The executor's pool of open
	// queries may start with a cycle-list query whose window closed with the previous block, so every
	// reporter sends two reports (pool positions 0 and 1): exactly one of them is accepted.
	nrep := 1 + uni(t, "reporting", len(reporters))
	reporting := append([]int(nil), reporters...)
	c13Shuffle(t, "reportingOrder", reporting)
	reporting = reporting[:nrep]
	var bC Block
	for _, r := range reporting {
		vs := 1 + uni(t, "valueSel", 7)
		bC.Ops = append(bC.Ops, Op{K: OpSubmit, A: r, R: [3]int{0, vs, 0}, S: "nodep"}, Op{K: OpSubmit, A: r, R: [3]int{1, vs, 0}, S: "nodep"})
	}
	s.add(c13SmallGap(t), bC)
	if uni(t, "filler", 2) == 0 {
		s.add(c13SmallGap(t), Block{})
	}
	// stored reports are keyed (query id, reporter address, id): same query, so ordered by reporter address
	sorted := append([]int(nil), reporting...)
	sort.Slice(sorted, func(i, j int) bool {
		return string(c13ActorAddr(nv, sorted[i])) < string(c13ActorAddr(nv, sorted[j]))
	})
	repRef := uni(t, "disputedReport", len(sorted))
	disputed := sorted[repRef]
	power := repTotal[disputed] / 1_000_000
	category := pick(t, "category", []int{1, 1, 1, 2, 2, 2, 3})
	if disputed < nv && category == 3 && uni(t, "majorOnValidator", 3) != 0 {
		category = 2 // a 100% slash of a validator's operator removes the validator: keep it rarer
	}
	fullFee := power * 1_000_000
	switch category {
	case 1:
		fullFee /= 100
	case 2:
		fullFee /= 20
	}

	// ---- payers
	payerPool := []int{}
	for a := 0; a < nActors; a++ {
		payerPool = append(payerPool, a)
	}
	canBond := func(a int) bool { return isRep[a] && a != disputed && repTotal[a] >= 2*fullFee }
	pickPayer := func(prev []int) int {
		if split >= 0 && split != disputed && uni(t, "splitPays", 2) == 0 {
			return split
		}
		if len(prev) > 0 && uni(t, "repeatPayer", 5) < 2 {
			return prev[uni(t, "whichPrev", len(prev))]
		}
		if uni(t, "reporterPayer", 3) == 0 {
			return reporters[uni(t, "whichReporter", len(reporters))]
		}
		return uni(t, "payer", nActors)
	}
	bondRef := func(a int, propose bool) int {
		if a == split && canBond(a) && uni(t, "splitFromBond", 4) != 0 {
			return 3
		}
		if canBond(a) && uni(t, "fromBond", 2) == 0 {
			return 3
		}
		return 0
	}
	underfund := uni(t, "underfund", 14) == 0
	firstPM := int64(1000)
	switch uni(t, "firstPayment", 10) {
	case 0:
		firstPM = 1001
	case 1, 2, 3, 4, 5, 6, 7:
		firstPM = pick(t, "firstPM", []int64{500, 333, 100, 900, 250, 667})
	}
	if underfund && firstPM >= 1000 {
		firstPM = pick(t, "firstPMunder", []int64{500, 333, 100, 250})
	}
	for fullFee*firstPM/1000 < 10_000 && firstPM < 1000 {
		firstPM = 1000 // the first payment must reach the 10000 loya minimum
		underfund = false
	}
	var payers []int
	proposer := pickPayer(nil)
	pRef := bondRef(proposer, true)
	if category != 3 && uni(t, "selfDispute", 12) == 0 {
		// the disputed reporter opens the dispute against its own report and pays from the stake that is escrowed next
		proposer, pRef = disputed, 3
	}
	payers = append(payers, proposer)
	pOp := Op{K: OpPropose, A: proposer, V: category, R: [3]int{repRef, 0, pRef},
		Amt: Amount{Kind: AmtOfNeeded, N: firstPM, Delta: pick(t, "firstDelta", []int64{0, 0, 0, 1, -1})}}
	if firstPM >= 1000 {
		pOp.Amt.Delta = pick(t, "fullDelta", []int64{0, 0, 0, 1})
	}
	bP := Block{Ops: []Op{pOp}}
	rem := 1.0 - float64(firstPM)/1000
	if rem < 0 {
		rem = 0
	}
	addFee := func(base float64) Op {
		a := pickPayer(payers)
		payers = append(payers, a)
		op := Op{K: OpAddFee, A: a, R: [3]int{0, bondRef(a, false), 0}}
		var frac float64
		switch uni(t, "addKind", 8) {
		case 0:
			n := pick(t, "addAbs", []int64{10_000, 12_345, 1, 777})
			if underfund && float64(n) > 0.2*base*float64(fullFee) {
				n = 1
			}
			op.Amt = Amount{Kind: AmtAbs, N: n}
			frac = float64(n) / float64(fullFee)
		case 1:
			op.Amt = Amount{Kind: AmtOfNeeded, N: 1001, Delta: pick(t, "overDelta", []int64{0, 1, 1000})}
			frac = base
		default:
			n := pick(t, "addPM", []int64{1000, 500, 500, 333, 250, 100, 667})
			d := pick(t, "addDelta", []int64{0, 0, 1, -1})
			if underfund && n > 250 {
				n = pick(t, "underPM", []int64{250, 200, 100}) // at most three per block: the fee is never met
			}
			if n >= 1000 && d < 0 && uni(t, "oneShort", 4) != 0 {
				d = 0 // a payment that leaves exactly one loya open stays a rare case
			}
			op.Amt = Amount{Kind: AmtOfNeeded, N: n, Delta: d}
			frac = base * float64(n) / 1000
			if n >= 1000 && d < 0 {
				frac -= 1e-7
			}
		}
		if underfund && op.Amt.Kind == AmtOfNeeded && op.Amt.N > 1000 {
			op.Amt.N, op.Amt.Delta = 100, 0
			frac = base * 0.1
		}
		if frac > rem {
			frac = rem
		}
		rem -= frac
		return op
	}
	// further payers in the proposal block itself are impossible (the dispute does not exist yet when they are built)
	propIdx := s.add(c13SmallGap(t), bP)
	fundIdx := propIdx
	if rem > 0 {
		nblocks := 1 + uni(t, "fundBlocks", 2)
		for b := 0; b < nblocks && rem > 1e-9; b++ {
			var blk Block
			base := rem
			nops := 1 + uni(t, "addOps", 3)
			for i := 0; i < nops && rem > 1e-9; i++ {
				blk.Ops = append(blk.Ops, addFee(base))
			}
			last := b == nblocks-1
			if last && !underfund && rem > 1e-9 {
				a := pickPayer(payers)
				payers = append(payers, a)
				blk.Ops = append(blk.Ops, Op{K: OpAddFee, A: a, R: [3]int{0, bondRef(a, false), 0}, Amt: Amount{Kind: AmtOfNeeded, N: pick(t, "finalPM", []int64{1000, 1000, 1001}), Delta: pick(t, "finalDelta", []int64{0, 0, 5})}})
				rem = 0
			}
			fundIdx = s.add(c13SmallGap(t), blk)
		}
	}
	funded := rem <= 1e-9
	if funded && uni(t, "latePayment", 10) == 0 {
		// a payment after the fee has been met must be rejected and move nothing
		a := uni(t, "latePayer", nActors)
		s.add(c13SmallGap(t), Block{Ops: []Op{{K: OpAddFee, A: a, R: [3]int{0, 0, 0}, Amt: Amount{Kind: AmtAbs, N: 50_000}}}})
	}

	// ---- voters
	mkVoter := func(a int) c13Voter {
		v := c13Voter{idx: a, team: a == team, tips: float64(tips[a]), selOf: -1, tokens: 1e12}
		if drainTeam && a == team {
			v.tokens = 0
		}
		if isRep[a] {
			for _, r := range reporting {
				if r == a {
					v.repPower = float64(repTotal[a])
				}
			}
			v.tokens += float64(stakeOf(a))
		}
		if k, ok := selOf[a]; ok {
			rep := reporters[k]
			for _, r := range reporting {
				if r == rep {
					v.selOf = rep
					v.selPower = float64(stakeOf(a))
					v.tokens += float64(stakeOf(a))
				}
			}
		}
		return v
	}
	genVotes := func(round int, disputeRef int) (blocks []Block, quorumLikely bool) {
		style := uni(t, "voteStyle", 12)
		var voters []int
		switch {
		case style == 0: // nobody votes
		case style <= 5: // aims at quorum: team, every tipper, every reporter that reported, a few more
			voters = append(voters, team)
			voters = append(voters, tipKeys...)
			voters = append(voters, reporting...)
			for i, n := 0, uni(t, "extraVoters", 4); i < n; i++ {
				voters = append(voters, uni(t, "extraVoter", nActors))
			}
			quorumLikely = true
		default:
			n := pick(t, "numVoters", []int{1, 2, 3, 3, 4, 5, 6})
			for i := 0; i < n; i++ {
				switch uni(t, "voterKind", 6) {
				case 0:
					voters = append(voters, team)
				case 1:
					if len(tipKeys) > 0 {
						voters = append(voters, tipKeys[uni(t, "whichTipper", len(tipKeys))])
						break
					}
					fallthrough
				case 2:
					voters = append(voters, reporters[uni(t, "whichRep", len(reporters))])
				case 3:
					if len(selKeys) > 0 {
						voters = append(voters, selKeys[uni(t, "whichSel", len(selKeys))])
						break
					}
					fallthrough
				default:
					voters = append(voters, uni(t, "holder", nActors))
				}
			}
		}
		// distinct, generated order
		seen := map[int]bool{}
		var order []c13Voter
		for _, a := range voters {
			if !seen[a] {
				seen[a] = true
				order = append(order, mkVoter(a))
			}
		}
		c13Shuffle(t, "voteOrder", order)
		choices := c13SafeChoices(t, order, uni(t, "winner", 3), pick(t, "dissentPM", []int{0, 150, 300, 450}))
		nb := 1 + uni(t, "voteBlocks", 3)
		blocks = make([]Block, nb)
		for i, v := range order {
			b := 0
			if nb > 1 {
				b = i * nb / len(order)
			}
			blocks[b].Ops = append(blocks[b].Ops, Op{K: OpVote, A: v.idx, V: choices[i], R: [3]int{disputeRef, 0, 0}})
			if uni(t, "doubleVote", 12) == 0 { // a second vote by the same account must be rejected
				blocks[nb-1].Ops = append(blocks[nb-1].Ops, Op{K: OpVote, A: v.idx, V: uni(t, "choice2", 3), R: [3]int{disputeRef, 0, 0}})
			}
		}
		// premature claims must be rejected and move nothing
		if uni(t, "premature", 5) == 0 {
			a := payers[uni(t, "prematurePayer", len(payers))]
			blocks[nb-1].Ops = append(blocks[nb-1].Ops, Op{K: OpFeeRefund, A: a, R: [3]int{disputeRef, 0, 0}})
			if len(order) > 0 {
				blocks[nb-1].Ops = append(blocks[nb-1].Ops, Op{K: OpClaimReward, A: order[0].idx, R: [3]int{disputeRef, 0, 0}})
			}
		}
		return blocks, quorumLikely
	}
	edge := func(label string) time.Duration {
		return pick(t, label, []time.Duration{time.Millisecond, time.Millisecond, 0, -time.Millisecond, time.Second, time.Hour, 5 * time.Hour})
	}
	const day = 24 * time.Hour
	allVoters := map[int]bool{}
	rounds := 1
	if !funded {
		// ---- under-funded: more payments may arrive; one day after the proposal the dispute fails
		d := edge("failEdge")
		var jb Block
		if uni(t, "payAtExpiry", 3) == 0 {
			a := pickPayer(payers)
			jb.Ops = append(jb.Ops, Op{K: OpAddFee, A: a, R: [3]int{0, 0, 0}, Amt: Amount{Kind: AmtOfNeeded, N: 100}})
			if d <= 0 {
				payers = append(payers, a) // still inside the payment window
			}
		}
		s.jumpTo(propIdx, day+d, jb)
		if d <= 0 {
			s.add(GapSpec{Kind: 2}, Block{})
		}
	} else {
		// ---- voting, tally after two days, execution after three
		vblocks, quorum := genVotes(1, 0)
		for _, b := range vblocks {
			for _, op := range b.Ops {
				if op.K == OpVote {
					allVoters[op.A] = true
				}
			}
			s.add(c13SmallGap(t), b)
		}
		startIdx := fundIdx
		second := !quorum && uni(t, "secondRound", 3) != 0
		if uni(t, "singleJump", 4) == 0 && !second {
			// one jump past the end of the dispute: tally and execution in the same block
			s.jumpTo(startIdx, 3*day+time.Millisecond+pick(t, "pastEnd", []time.Duration{0, time.Second, day}), Block{})
		} else {
			d1 := edge("tallyEdge")
			s.jumpTo(startIdx, 2*day+d1, Block{})
			if d1 <= 0 {
				s.add(GapSpec{Kind: 2}, Block{})
			}
			if second {
				rounds = 2
				a := pickPayer(nil) // mostly a new payer
				payers = append(payers, a)
				rb := Block{Ops: []Op{{K: OpPropose, A: a, V: category, R: [3]int{repRef, 0, bondRef(a, true)}, Amt: Amount{Kind: AmtOfNeeded, N: pick(t, "roundPM", []int64{1000, 1000, 1500}), Delta: pick(t, "roundDelta", []int64{0, 0, 7})}}}}
				if uni(t, "roundUnderpaid", 10) == 0 {
					// an under-paid round fee is rejected; the correct one follows in the next block
					bad := rb.Ops[0]
					bad.Amt = Amount{Kind: AmtOfNeeded, N: 999}
					s.add(c13SmallGap(t), Block{Ops: []Op{bad}})
				}
				startIdx = s.add(c13SmallGap(t), rb)
				vb2, _ := genVotes(2, 1)
				for _, b := range vb2 {
					for _, op := range b.Ops {
						if op.K == OpVote {
							allVoters[op.A] = true
						}
					}
					s.add(c13SmallGap(t), b)
				}
				d1 = edge("tallyEdge2")
				s.jumpTo(startIdx, 2*day+d1, Block{})
				if d1 <= 0 {
					s.add(GapSpec{Kind: 2}, Block{})
				}
			}
			d2 := edge("endEdge")
			s.jumpTo(startIdx, 3*day+d2, Block{})
			if d2 <= 0 {
				s.add(GapSpec{Kind: 2}, Block{})
			}
		}
	}

	// ---- everyone claims, twice, in generated order; strangers try as well
	last := rounds - 1
	var claims []Op
	seenP := map[int]bool{}
	for _, a := range payers {
		if seenP[a] {
			continue
		}
		seenP[a] = true
		for k := 0; k < 2; k++ {
			op := Op{K: OpFeeRefund, A: a, R: [3]int{last, 0, 0}}
			if uni(t, "strangerCalls", 5) == 0 { // somebody else sends the refund request for the payer
				op = Op{K: OpFeeRefund, A: uni(t, "caller", nActors), V: 1, R: [3]int{last, a, 0}}
			}
			claims = append(claims, op)
		}
		if rounds > 1 && uni(t, "oldRoundRefund", 2) == 0 {
			claims = append(claims, Op{K: OpFeeRefund, A: a, R: [3]int{0, 7, 0}}) // names the first round's id
		}
	}
	var vkeys []int
	for a := range allVoters {
		vkeys = append(vkeys, a)
	}
	sort.Ints(vkeys)
	for _, a := range vkeys {
		for k := 0; k < 2; k++ {
			claims = append(claims, Op{K: OpClaimReward, A: a, R: [3]int{last, 0, 0}})
		}
		if rounds > 1 && uni(t, "oldRoundClaim", 3) == 0 {
			claims = append(claims, Op{K: OpClaimReward, A: a, R: [3]int{0, 7, 0}})
		}
	}
	nstr := uni(t, "strangers", 3)
	for i := 0; i < nstr; i++ {
		a := uni(t, "stranger", nActors)
		if uni(t, "strangerKind", 2) == 0 {
			if !seenP[a] {
				claims = append(claims, Op{K: OpFeeRefund, A: a, R: [3]int{last, 0, 0}})
			}
		} else if !allVoters[a] {
			claims = append(claims, Op{K: OpClaimReward, A: a, R: [3]int{last, 0, 0}})
		}
	}
	c13Shuffle(t, "claimOrder", claims)
	ncb := 1 + uni(t, "claimBlocks", 4)
	for b := 0; b < ncb; b++ {
		lo, hi := b*len(claims)/ncb, (b+1)*len(claims)/ncb
		s.add(c13SmallGap(t), Block{Ops: append([]Op(nil), claims[lo:hi]...)})
	}
	ntail := 1 + uni(t, "tailBlocks", 3)
	for i := 0; i < ntail; i++ {
		s.add(c13SmallGap(t), Block{})
	}
	_ = thorough
	return s.h
}

// c13ActorAddr returns the account address bytes the engine derives for actor idx (validators' operators first).
func c13ActorAddr(nv, idx int) []byte {
	if idx < nv {
		return NewActor(idx, fmt.Sprintf("val%d", idx)).Addr
	}
	return NewActor(idx, fmt.Sprintf("user%d", idx-nv)).Addr
}

// ---------------------------------------------------------------- runner

func c13Run(t *testing.T, property, name, rule string, gen func(*rapid.T) History, mk func() *c13Monitor) {
	pbt.Run(t, pbt.Prop[History]{Property: property, Name: name, Rule: rule, Gen: gen,
		Check: func(h History, info *pbt.CaseInfo, st *pbt.Stats) error {
			mon := mk()
			rs, tr, v, err := RunHistory(h, mon)
			if err != nil {
				return err
			}
			if os.Getenv("C13_TRACE") == "1" {
				fmt.Println(tr.String())
				for _, l := range mon.log {
					fmt.Println("   # " + l)
				}
				fmt.Println("-----")
			}
			if mon.infra != "" {
				return fmt.Errorf("C13 accounting unusable: %s\n%s", mon.infra, tr.String()) // never a silent pass
			}
			mon.Classify(info)
			st.Count("blocks", int64(rs.Blocks))
			st.Count("ops_total", int64(rs.OpsTotal))
			st.Count("ops_accepted", int64(rs.OpsOK))
			st.Count("gap_clamps", int64(rs.GapClamps))
			if rs.HarnessStop {
				st.Count("harness_stops", 1)
			}
			if rs.Halt != nil {
				st.Count("halted_cases", 1)
				st.Count("halt/"+haltSignature(rs.Halt), 1) // halts are C02's verdict; here they only end the case
			}
			for k, n := range rs.ByKindOK {
				st.Count("ok/"+k, int64(n))
			}
			for k, n := range rs.ByKindFail {
				st.Count("rejected/"+k, int64(n))
			}
			for k, n := range mon.counters {
				st.Count("c13/"+k, n)
			}
			if os.Getenv("VERIF_REASONS") == "1" {
				for k, n := range rs.Reasons {
					st.Count("why/"+k, int64(n))
				}
			}
			if v != nil {
				if len(mon.log) > 0 {
					v.Msg += "\nledger:"
					for _, l := range mon.log {
						v.Msg += "\n  " + l
					}
				}
				return v
			}
			return nil
		}})
}
