package chain

import (
	"fmt"
	"regexp"
	"time"
	"sort"
	"strings"

	"cosmossdk.io/collections"

	sdk "github.com/cosmos/cosmos-sdk/types"
	govv1 "github.com/cosmos/cosmos-sdk/x/gov/types/v1"
	stakingtypes "github.com/cosmos/cosmos-sdk/x/staking/types"

	disputetypes "github.com/tellor-io/layer/x/dispute/types"
	oracletypes "github.com/tellor-io/layer/x/oracle/types"
	reportertypes "github.com/tellor-io/layer/x/reporter/types"

	"github.com/tellor-io/layer/utils"

	"verif/harness/pbt"
)

func queryID(data []byte) []byte { return utils.QueryIDFromData(data) }

// TxOutcome is what a monitor sees for one operation of a block.
type TxOutcome struct {
	Tx  *BuiltTx
	Res *TxResult // nil if the tx never reached the chain (unsignable)
}

func (o TxOutcome) OK() bool { return o.Res != nil && o.Res.Code == 0 }

// Monitor observes a history execution. Only the property's own monitor can fail a run.
type Monitor interface {
	Init(c *Chain, w *World) *pbt.Violation
	// Before is called after the block's transactions have been built (state = previous block committed).
	Before(c *Chain, w *World, txs []*BuiltTx) *pbt.Violation
	// After is called after the block has been committed (or has halted).
	After(c *Chain, w *World, br *BlockResult, outs []TxOutcome) *pbt.Violation
	Finish(c *Chain, w *World) *pbt.Violation
	Classify(info *pbt.CaseInfo)
}

// BaseMonitor provides no-op defaults.
type BaseMonitor struct{}

func (BaseMonitor) Init(*Chain, *World) *pbt.Violation                                  { return nil }
func (BaseMonitor) Before(*Chain, *World, []*BuiltTx) *pbt.Violation                    { return nil }
func (BaseMonitor) After(*Chain, *World, *BlockResult, []TxOutcome) *pbt.Violation      { return nil }
func (BaseMonitor) Finish(*Chain, *World) *pbt.Violation                                { return nil }
func (BaseMonitor) Classify(*pbt.CaseInfo)                                              {}

// Trace is the human-readable execution log attached to violations.
type Trace struct {
	Lines []string
}

func (t *Trace) addf(f string, a ...any) { t.Lines = append(t.Lines, fmt.Sprintf(f, a...)) }

func (t *Trace) String() string {
	l := t.Lines
	if len(l) > 120 {
		l = append([]string{fmt.Sprintf("... (%d lines omitted)", len(l)-120)}, l[len(l)-120:]...)
	}
	return strings.Join(l, "\n")
}

// RunStats are generic, property-independent counters of one execution.
type RunStats struct {
	Blocks     int
	OpsTotal   int
	OpsOK      int
	ByKindOK   map[string]int
	ByKindFail map[string]int
	Reasons    map[string]int // rejection reasons per kind (diagnostics of generator soundness)
	Halt       *HaltInfo
	HarnessStop bool
	GapClamps  int
	RemovedVoterDrops int
}

// RunHistory executes a history on a fresh application under one monitor.
// Returned error = infrastructure problem (never a property verdict).
func RunHistory(h History, mon Monitor) (*RunStats, *Trace, *pbt.Violation, error) {
	rs := &RunStats{ByKindOK: map[string]int{}, ByKindFail: map[string]int{}, Reasons: map[string]int{}}
	tr := &Trace{}
	c, err := NewChain(h.Genesis)
	if err != nil {
		return rs, tr, nil, fmt.Errorf("genesis: %w", err)
	}
	defer c.Close()
	w := NewWorld(c)
	// bootstrap: two op-free honest blocks; block 2 registers the EVM addresses and stores checkpoint 0.
	for i := 0; i < 2; i++ {
		var bv []VoteSpec
		if i < len(h.Genesis.BootVotes) {
			bv = h.Genesis.BootVotes[i]
		}
		br := c.NextBlock(BlockInput{Gap: 1e9, Votes: bv})
		if br.Halt != nil {
			return rs, tr, nil, fmt.Errorf("bootstrap block %d failed (harness is not a valid consensus engine?): %v\n%s", br.Height, br.Halt, br.Halt.Stack)
		}
	}
	if v := mon.Init(c, w); v != nil {
		return rs, tr, v, nil
	}
	// a block with Idle = n is preceded by n operation-free blocks (1 s apart, honest votes) that the monitor sees
	// like any other block; they are only summarised in the trace
	type step struct {
		b    Block
		bi   int
		idle bool
	}
	var steps []step
	for bi, b := range h.Blocks {
		for i := 0; i < b.Idle; i++ {
			steps = append(steps, step{b: Block{Gap: GapSpec{Kind: 2}}, bi: bi, idle: true})
		}
		steps = append(steps, step{b: b, bi: bi})
	}
	for _, stp := range steps {
		bi, b := stp.bi, stp.b
		w.Refresh()
		var txs []*BuiltTx
		for _, op := range b.Ops {
			bt, err := w.Build(op)
			if err != nil {
				return rs, tr, nil, fmt.Errorf("block %d build %s: %w", bi, op.K, err)
			}
			w.fixForeignSigner(bt)
			txs = append(txs, bt)
		}
		txs = append(txs, w.govVotes()...)
		if v := mon.Before(c, w, txs); v != nil {
			v.Msg += "\n" + tr.String()
			return rs, tr, v, nil
		}
		var raw [][]byte
		var sent []*BuiltTx
		for _, t := range txs {
			if t.Bytes != nil {
				raw = append(raw, t.Bytes)
				sent = append(sent, t)
			}
		}
		gd := b.Gap.Duration()
		if b.Gap.Kind == GapToDeadline {
			gd = c.deadlineGap(b.Gap.Delta)
		}
		gap := c.clampGap(gd, rs)
		br := c.NextBlock(BlockInput{Gap: gap, Txs: raw, Votes: b.Votes})
		rs.Blocks++
		outs := make([]TxOutcome, 0, len(txs))
		ri := 0
		if !stp.idle {
			if b.Idle > 0 {
				tr.addf("  (%d operation-free blocks, 1 s apart)", b.Idle)
			}
			tr.addf("block h=%d t=%s gap=%s", br.Height, br.Time.Format("2006-01-02T15:04:05.000Z"), b.Gap.Duration())
		}
		for _, t := range txs {
			o := TxOutcome{Tx: t}
			if t.Bytes != nil {
				if br.Halt == nil && ri < len(br.TxResults) {
					r := br.TxResults[ri]
					o.Res = &r
				}
				ri++
			}
			outs = append(outs, o)
			if !t.House {
				rs.OpsTotal++
				if o.OK() {
					rs.OpsOK++
					rs.ByKindOK[t.Op.K]++
				} else {
					rs.ByKindFail[t.Op.K]++
					rs.Reasons[t.Op.K+": "+reason(o)]++
				}
			}
			tr.addf("  %-11s a=%d %s -> %s", t.Op.K, t.Signer.Idx, describeMsgs(t.Msgs), describeRes(o))
		}
		if br.Halt != nil && br.Halt.Phase == "Harness" {
			// the scripted consensus engine cannot continue this case; not a verdict about the chain
			rs.HarnessStop = true
			tr.addf("  HARNESS-STOP %s", br.Halt)
			break
		}
		if br.Halt != nil {
			rs.Halt = br.Halt
			tr.addf("  HALT %s", br.Halt)
		}
		if v := mon.After(c, w, br, outs); v != nil {
			v.Msg += "\n" + tr.String()
			return rs, tr, v, nil
		}
		if br.Halt != nil {
			break
		}
	}
	rs.RemovedVoterDrops = c.RemovedVoterDrops
	if v := mon.Finish(c, w); v != nil {
		v.Msg += "\n" + tr.String()
		return rs, tr, v, nil
	}
	return rs, tr, nil, nil
}

// fixForeignSigner notices transactions whose message names another account in its signer field:
// they fail signature verification and do not consume the signer's sequence number.
func (w *World) fixForeignSigner(bt *BuiltTx) {
	if bt.Bytes == nil {
		return
	}
	for _, m := range bt.Msgs {
		signers, _, err := w.C.App.AppCodec().GetMsgV1Signers(m)
		if err != nil {
			continue
		}
		for _, s := range signers {
			if string(s) != string(bt.Signer.Addr) {
				bt.Note["foreign_signer"] = true
				w.C.seqCache[string(bt.Signer.Addr)]--
				return
			}
		}
	}
}

func describeRes(o TxOutcome) string {
	if o.Res == nil {
		if o.Tx.Bytes == nil {
			return fmt.Sprintf("UNSIGNABLE %v", o.Tx.Note["unsignable"])
		}
		return "NO-RESULT"
	}
	if o.Res.Code == 0 {
		return "ok"
	}
	l := o.Res.Log
	if len(l) > 140 {
		l = l[:140]
	}
	return fmt.Sprintf("code %d/%s %s", o.Res.Code, o.Res.Codespace, l)
}

func describeMsgs(ms []sdk.Msg) string {
	var parts []string
	for _, m := range ms {
		s := fmt.Sprintf("%T%v", m, m)
		s = strings.TrimPrefix(s, "*")
		if len(s) > 230 {
			s = s[:230] + "…"
		}
		parts = append(parts, s)
	}
	return strings.Join(parts, " + ")
}

func sortedKeys(m map[string]int) []string {
	var ks []string
	for k := range m {
		ks = append(ks, k)
	}
	sort.Strings(ks)
	return ks
}

// clampGap keeps a generated block-time gap from removing a validator from the staking store while
// it is still a member of the consensus set that votes on this block. In the SDK a validator record
// is deleted when its unbonding period has elapsed, and both baseapp.ValidateVoteExtensions and the
// distribution/slashing BeginBlockers look every voter of the last commit up in staking; real chains
// rely on the unbonding period (21 days) being far longer than the two blocks a departed validator
// stays in the commit. A single block that jumps past the unbonding period right after a validator
// left the set violates that SDK precondition (not tellor-io/layer code), so the harness shortens the
// gap to just before the earliest such maturity and counts how often it did.
func (c *Chain) clampGap(gap time.Duration, rs *RunStats) time.Duration {
	ctx := c.Ctx()
	t := c.Time.Add(gap)
	for addr, p := range c.cmtPowers {
		if p <= 0 {
			continue
		}
		v := c.valByCons[addr]
		if v == nil {
			continue
		}
		sv, err := c.App.StakingKeeper.GetValidator(ctx, v.ValAddr)
		if err != nil || sv.IsBonded() {
			continue
		}
		if !sv.UnbondingTime.After(t) {
			ng := sv.UnbondingTime.Sub(c.Time) - time.Second
			if ng < time.Millisecond {
				ng = time.Millisecond
			}
			if ng < gap {
				gap = ng
				t = c.Time.Add(gap)
				rs.GapClamps++
			}
		}
	}
	return gap
}

var reasonDigits = regexp.MustCompile(`[0-9]+`)
var reasonAddr = regexp.MustCompile(`(tellor[a-z0-9]{20,}|hexBytes:[0-9a-f]+|[0-9a-fA-F]{24,})`)

func reason(o TxOutcome) string {
	if o.Res == nil {
		return "unsignable/no-result"
	}
	l := o.Res.Log
	if i := strings.Index(l, "message index: "); i >= 0 {
		l = l[i+len("message index: 0: "):]
	}
	l = reasonAddr.ReplaceAllString(l, "X")
	l = reasonDigits.ReplaceAllString(l, "N")
	if len(l) > 70 {
		l = l[:70]
	}
	return l
}

// deadlineGap returns the gap that places the next block at the earliest pending deadline + deltaMs.
func (c *Chain) deadlineGap(deltaMs int64) time.Duration {
	ctx := c.Ctx()
	var best time.Time
	consider := func(t time.Time) {
		if t.After(c.Time.Add(2*time.Millisecond)) && (best.IsZero() || t.Before(best)) {
			best = t
		}
	}
	_ = c.App.DisputeKeeper.Disputes.Walk(ctx, nil, func(id uint64, d disputetypes.Dispute) (bool, error) {
		if d.Open || d.PendingExecution {
			consider(d.DisputeEndTime)
			if v, err := c.App.DisputeKeeper.Votes.Get(ctx, id); err == nil {
				consider(v.VoteEnd)
			}
		}
		return false, nil
	})
	if tr, err := c.App.ReporterKeeper.Tracker.Get(ctx); err == nil && tr.Expiration != nil {
		consider(*tr.Expiration)
	}
	_ = c.App.ReporterKeeper.Reporters.Walk(ctx, nil, func(_ []byte, r reportertypes.OracleReporter) (bool, error) {
		if r.Jailed {
			consider(r.JailedUntil)
		}
		return false, nil
	})
	_ = c.App.StakingKeeper.IterateUnbondingDelegations(ctx, func(_ int64, ubd stakingtypes.UnbondingDelegation) bool {
		for _, e := range ubd.Entries {
			consider(e.CompletionTime)
		}
		return false
	})
	_ = c.App.GovKeeper.Proposals.Walk(ctx, nil, func(_ uint64, p govv1.Proposal) (bool, error) {
		if p.Status == govv1.StatusVotingPeriod && p.VotingEndTime != nil {
			consider(*p.VotingEndTime)
		}
		return false, nil
	})
	// 12 h after the newest aggregate (bridge claims), two weeks after the last checkpoint (staleness)
	var newest uint64
	_ = c.App.OracleKeeper.Aggregates.Walk(ctx, nil, func(k collections.Pair[[]byte, uint64], _ oracletypes.Aggregate) (bool, error) {
		if k.K2() > newest {
			newest = k.K2()
		}
		return false, nil
	})
	if newest > 0 {
		consider(time.UnixMilli(int64(newest)).Add(12 * time.Hour))
	}
	if ts, err := c.App.BridgeKeeper.GetCurrentValidatorSetTimestamp(ctx); err == nil {
		consider(time.UnixMilli(int64(ts)).Add(14 * 24 * time.Hour))
	}
	if best.IsZero() {
		return time.Second
	}
	g := best.Sub(c.Time) + time.Duration(deltaMs)*time.Millisecond
	if g < time.Millisecond {
		g = time.Millisecond
	}
	return g
}
