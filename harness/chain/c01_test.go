package chain

// C01 — block execution is deterministic across runs and nodes.
// Oracle: differential re-execution. The same History value is executed on R fresh application
// instances that differ in everything that must not matter (home dir, IAVL cache size, fast node,
// min gas prices, index-events, wall-clock time and Go map seeds); after every block the
// proto-marshalled ResponseFinalizeBlock (tx results, events, validator updates, AppHash) must be
// byte-identical across replicas, and halting behaviour must be identical.

import (
	"crypto/sha256"
	"os"

	"encoding/hex"
	"fmt"
	abci "github.com/cometbft/cometbft/abci/types"
	"testing"

	"github.com/cosmos/gogoproto/proto"
	"pgregory.net/rapid"

	"verif/harness/pbt"
)

type recorder struct {
	BaseMonitor
	digests []string
	descr   []string
	// classification (from replica 0)
	multiReportAggs int
	modeTies        int
	multiPayouts    int
	multiVoterTally int
	equalPowerSets  int
}

func (m *recorder) After(c *Chain, w *World, br *BlockResult, outs []TxOutcome) *pbt.Violation {
	if br.Halt != nil {
		m.digests = append(m.digests, "HALT:"+haltSignature(br.Halt))
		m.descr = append(m.descr, br.Halt.String())
		return nil
	}
	// compare what the statement names (state = AppHash, results, emitted events, validator updates);
	// the per-attribute "index" flag follows the node's local index-events setting and free-text logs are
	// outside consensus, so both are normalised away
	norm := *br.Finalize
	norm.Events = normEvents(br.Finalize.Events)
	norm.TxResults = nil
	for _, r := range br.Finalize.TxResults {
		rr := *r
		rr.Log, rr.Info = "", ""
		rr.Events = normEvents(r.Events)
		norm.TxResults = append(norm.TxResults, &rr)
	}
	bz, err := proto.Marshal(&norm)
	if err != nil {
		m.digests = append(m.digests, "marshal-error")
		return nil
	}
	h := sha256.Sum256(bz)
	m.digests = append(m.digests, hex.EncodeToString(h[:]))
	m.descr = append(m.descr, fmt.Sprintf("apphash=%x txs=%d events=%d", br.Finalize.AppHash, len(br.Finalize.TxResults), len(br.Finalize.Events)))
	// classification
	for _, ev := range br.Finalize.Events {
		switch ev.Type {
		case "aggregate_report":
			for _, a := range ev.Attributes {
				if a.Key == "number_of_reporters" && a.Value != "1" && a.Value != "0" {
					m.multiReportAggs++
					m.multiPayouts++
				}
			}
		case "dispute_executed":
			m.multiVoterTally++
		}
	}
	// equal-weight competing values among this block's weighted-mode aggregates (classification only)
	ctx := c.Ctx()
	for _, agg := range c.App.OracleKeeper.GetAggregatedReportsByHeight(ctx, uint64(br.Height)) {
		if len(agg.Reporters) < 2 {
			continue
		}
		weights := map[string]uint64{}
		mode := false
		it, err := c.App.OracleKeeper.Reports.Indexes.Id.MatchExact(ctx, agg.MetaId)
		if err != nil {
			continue
		}
		keys, _ := it.PrimaryKeys()
		for _, k := range keys {
			if r, err := c.App.OracleKeeper.Reports.Get(ctx, k); err == nil {
				weights[r.Value] += r.Power
				mode = mode || r.AggregateMethod == "weighted-mode"
			}
		}
		if !mode {
			continue
		}
		var best, cnt uint64
		for _, wgt := range weights {
			if wgt > best {
				best, cnt = wgt, 1
			} else if wgt == best {
				cnt++
			}
		}
		if cnt > 1 {
			m.modeTies++
		}
	}
	return nil
}

func (m *recorder) Classify(info *pbt.CaseInfo) {}

func detProfile() *Profile {
	w := map[string]int{
		OpTip: 26, OpSubmit: 60, OpCreateReporter: 3, OpSelectReporter: 3, OpWithdrawTip: 3,
		OpPropose: 6, OpAddFee: 2, OpVote: 10, OpFeeRefund: 2, OpClaimReward: 2, OpAddEvidence: 1,
		OpDelegate: 4, OpUndelegate: 3, OpRedelegate: 2, OpReqAttest: 2, OpWithdrawTokens: 1, OpSend: 1, OpGov: 1, OpCreateVal: 1,
	}
	p := &Profile{Name: "det", Weights: w, MinBlocks: 10, MaxBlocks: 28, MaxOps: 6, AbsentPM: 60, BadVarPM: 60, Setup: true, ThoroughScale: 3,
		GapW: []int{2, 3, 10, 30, 3, 2, 2, 2, 5, 4, 4, 1, 1, 0, 4}}
	// equal stakes everywhere: equal validator powers, every user delegates the same amount, so that
	// mode ties, equal reward shares and equal vote weights are frequent
	p.Genesis = func(t *rapid.T) GenesisCfg {
		nv := rapid.IntRange(3, 6).Draw(t, "numValidators")
		cfg := GenesisCfg{NumValidators: nv, NumUsers: rapid.IntRange(6, 9).Draw(t, "numUsers"), UserBalance: 1_000_000_000_000,
			SlashWindow: 5, UnbondingSecs: 21 * 24 * 3600, VotingSecs: 60, MaxValidators: nv + 2}
		for i := 0; i < nv; i++ {
			cfg.ValTokens = append(cfg.ValTokens, 100_000_000)
		}
		for u := 0; u < cfg.NumUsers; u++ {
			cfg.UserDelegs = append(cfg.UserDelegs, [3]int64{int64(u), int64(u % nv), 2_000_000})
			if uni(t, "second", 3) == 0 {
				cfg.UserDelegs = append(cfg.UserDelegs, [3]int64{int64(u), int64((u + 1) % nv), 2_000_000})
			}
		}
		return cfg
	}
	// a weighted-mode query type is registered and tipped up front; many reporters register
	p.Prefix = func(pick func(string, int) int) []Block {
		b0 := Block{Gap: GapSpec{Kind: 2}, Ops: []Op{
			{K: OpRegisterSpec, A: 100, R: [3]int{1, 2, 0}}, // verifmode, window 2
			{K: OpRegisterSpec, A: 101, R: [3]int{0, 2, 0}}, // verifmed, window 2
		}}
		for a := 0; a < 12; a++ {
			b0.Ops = append(b0.Ops, Op{K: OpCreateReporter, A: a, V: []int{0, 1, 2, 3}[pick("rate", 4)]})
		}
		b1 := Block{Gap: GapSpec{Kind: 2}, Ops: []Op{
			{K: OpTip, A: 100 + pick("tipper", 5), R: [3]int{6, 0, 0}, Amt: Amount{Kind: AmtAbs, N: 1_000_003}}, // catalog[6] = verifmode-1
			{K: OpTip, A: 100 + pick("tipper2", 5), R: [3]int{5, 0, 0}, Amt: Amount{Kind: AmtAbs, N: 999_999}},  // catalog[5] = verifmed-1
		}}
		return []Block{b0, b1}
	}
	p.Shape = func(t *rapid.T, op *Op) {
		if op.K == OpSubmit && uni(t, "nodep", 10) != 0 {
			op.S = "nodep"
		}
		if op.K == OpSubmit || op.K == OpTip {
			// concentrate on the mode/median custom queries and the cycle list
			if uni(t, "focus", 3) != 0 {
				op.R[0] = []int{6, 6, 6, 6, 5, 0}[uni(t, "fq", 6)]
				op.R[1] = []int{10, 1, 10, 1, 2}[uni(t, "val", 5)] // values a/b (rarely c): equal-weight ties are frequent; never a multiple of 8 (smart query stays on)
				if op.K == OpSubmit && uni(t, "direct", 2) == 0 {
					op.R[1] = []int{40, 16}[uni(t, "dval", 2)] // multiple of 8: the query index is taken literally (mostly the weighted-mode query); values a / b
				}
				// the same data respelled (0x prefix / 0X + upper case): accepted and stored as submitted, so equal-weight
				// ties between spellings of one value occur
				if op.K == OpSubmit && op.V == 0 && uni(t, "respell", 4) == 0 {
					op.V = 1 + uni(t, "spelling", 2)
				}
			}
		}
	}
	return p
}

func TestC01_Replicas(t *testing.T) {
	prof := detProfile()
	replicas := 4
	if pbt.Thorough() {
		replicas = 8
	}
	pbt.Run(t, pbt.Prop[History]{Property: "C01", Name: "TestC01_Replicas",
		Rule: fmt.Sprintf("histories rich in order-sensitive shapes (equal stakes: weighted-mode rounds with equal-weight competing values, payouts to several reporters, tallies, equal-power validator sets), each executed on %d fresh application instances with different local node configuration; per-block ResponseFinalizeBlock bytes compared; non-trivial = >=1 aggregate from >=2 reports and >=10 accepted transactions; distinct by SHA-256 of the history JSON", replicas),
		Gen:  func(rt *rapid.T) History { return GenHistory(rt, prof, pbt.Thorough()) },
		Check: func(h History, info *pbt.CaseInfo, st *pbt.Stats) error {
			var base *recorder
			var baseStats *RunStats
			for r := 0; r < replicas; r++ {
				hh := h
				hh.Genesis.NodeVariant = r
				hh.Genesis.GhostRounds = r%2 == 1 // every other replica also lives through abandoned consensus rounds
				hh.Genesis.SkipDecidedProcess = r%4 == 3 // and one of them never processes the decided proposal (missed round / block sync)
				rec := &recorder{}
				rs, tr, _, err := RunHistory(hh, rec)
				if r == 0 && os.Getenv("VERIF_TRACE") != "" {
					_ = os.WriteFile(os.Getenv("VERIF_TRACE"), []byte(tr.String()), 0o644)
				}
				if err != nil {
					return err
				}
				st.Count("replica_runs", 1)
				st.Count("blocks", int64(rs.Blocks))
				if r == 0 {
					base, baseStats = rec, rs
					continue
				}
				n := len(base.digests)
				if len(rec.digests) != n {
					return pbt.Violf("C01/replicas-diverge/block-count", "replica 0 executed %d blocks, replica %d executed %d", n, r, len(rec.digests))
				}
				for i := 0; i < n; i++ {
					if base.digests[i] != rec.digests[i] {
						kind := "finalize-response"
						if len(base.digests[i]) > 5 && base.digests[i][:5] == "HALT:" || len(rec.digests[i]) > 5 && rec.digests[i][:5] == "HALT:" {
							kind = "halt-behaviour"
						}
						return pbt.Violf("C01/replicas-diverge/"+kind, "history block %d (height %d): replica 0 (node variant 0) produced %s [%s], replica %d (node variant %d) produced %s [%s] for the same history",
							i, i+3, base.digests[i][:16], base.descr[i], r, r%4, rec.digests[i][:16], rec.descr[i])
					}
				}
			}
			info.Nontrivial = base.multiReportAggs > 0 && baseStats.OpsOK >= 10
			if base.multiReportAggs > 0 {
				info.Classes = append(info.Classes, "multi-report-aggregate")
			}
			if base.modeTies > 0 {
				info.Classes = append(info.Classes, "equal-weight-mode-tie")
			}
			st.Count("mode_ties", int64(base.modeTies))
			if base.multiVoterTally > 0 {
				info.Classes = append(info.Classes, "dispute-executed")
			}
			st.Count("ops_accepted", int64(baseStats.OpsOK))
			st.Count("multi_report_aggregates", int64(base.multiReportAggs))
			for k, n := range baseStats.ByKindOK {
				st.Count("ok/"+k, int64(n))
			}
			return nil
		}})
}

func normEvents(in []abci.Event) []abci.Event {
	out := make([]abci.Event, len(in))
	for i, e := range in {
		ne := abci.Event{Type: e.Type}
		for _, a := range e.Attributes {
			ne.Attributes = append(ne.Attributes, abci.EventAttribute{Key: a.Key, Value: a.Value})
		}
		out[i] = ne
	}
	return out
}
