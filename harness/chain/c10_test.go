package chain

// C10 — reporting power equals the bonded stake of active selectors, counted once.
//
// Oracle. For every accepted report that is the first transaction of its block that can touch
// staking / selector / reporter state (and whose block's BeginBlock neither slashed a validator nor
// executed a dispute) the reporter's stake S is recomputed from the state of the previous block with
// math/big: the sum, over the reporter's selectors (primary Selectors map, not the index) whose lock
// time is not after the block time of the report's block, of the token value of their delegations to
// validators with status Bonded. The statement does not say where sub-unit share values are
// truncated, so S is accepted anywhere in [sum of floors, max(sum of 1e-18-rounded floors, floor of sum)].
// The stored MicroReport.Power must be floor(Total/10^6) of the stored per-report record, Total must
// be a valid S, its TokenOrigins must sum to Total and name exactly the expected (selector, bonded
// validator) pairs. Structural rules are checked after every block and on every accepted
// select/switch/unjail/report (see the signatures below). The once-only consequence is checked per
// round (query id + query meta id): the same (selector, validator) delegation never has a positive
// amount in the stored records of two different reporters less than one unbonding period apart. The
// signature of that violation names the message by which the selector joined its current reporter
// (joined-by-switch: the lock failed; joined-by-select: the selector was removed and selected again).

import (
	"bytes"
	"encoding/hex"
	"fmt"
	"math/big"
	"sort"
	"strings"
	"testing"
	"time"

	"cosmossdk.io/collections"

	sdk "github.com/cosmos/cosmos-sdk/types"

	oracletypes "github.com/tellor-io/layer/x/oracle/types"
	reportertypes "github.com/tellor-io/layer/x/reporter/types"

	"pgregory.net/rapid"

	"verif/harness/pbt"
)

// ---------------------------------------------------------------- snapshot of the previous block's state

type c10Deleg struct {
	val    string // validator operator address bytes
	bonded bool
	q      *big.Rat // exact token value shares*tokens/delegatorShares
	lo, hi *big.Int // floor(q), floor(q + 1e-18)
}

type c10Snap struct {
	maxSelectors  uint64
	maxValidators uint32
	unbonding     time.Duration
	selectors     map[string]reportertypes.Selection      // by selector address bytes
	reporters     map[string]reportertypes.OracleReporter // by reporter address bytes
	delegs        map[string][]c10Deleg                   // by delegator address bytes (actors and selectors)
}

var c10Eps = new(big.Rat).SetFrac(big.NewInt(1), new(big.Int).Exp(big.NewInt(10), big.NewInt(18), nil))

func c10RatFloor(r *big.Rat) *big.Int {
	// all values here are non-negative
	return new(big.Int).Quo(r.Num(), r.Denom())
}

func c10TakeSnap(c *Chain) (*c10Snap, error) {
	ctx := c.Ctx()
	s := &c10Snap{selectors: map[string]reportertypes.Selection{}, reporters: map[string]reportertypes.OracleReporter{}, delegs: map[string][]c10Deleg{}}
	p, err := c.App.ReporterKeeper.Params.Get(ctx)
	if err != nil {
		return nil, fmt.Errorf("reporter params: %w", err)
	}
	s.maxSelectors = p.MaxSelectors
	sp, err := c.App.StakingKeeper.GetParams(ctx)
	if err != nil {
		return nil, fmt.Errorf("staking params: %w", err)
	}
	s.maxValidators = sp.MaxValidators
	s.unbonding = sp.UnbondingTime
	if err := c.App.ReporterKeeper.Selectors.Walk(ctx, nil, func(k []byte, v reportertypes.Selection) (bool, error) {
		s.selectors[string(k)] = v
		return false, nil
	}); err != nil {
		return nil, err
	}
	if err := c.App.ReporterKeeper.Reporters.Walk(ctx, nil, func(k []byte, v reportertypes.OracleReporter) (bool, error) {
		s.reporters[string(k)] = v
		return false, nil
	}); err != nil {
		return nil, err
	}
	vals, err := c.App.StakingKeeper.GetAllValidators(ctx)
	if err != nil {
		return nil, err
	}
	type vinfo struct {
		addr   string
		bonded bool
		tokens *big.Int
		shares *big.Int
	}
	vmap := map[string]vinfo{}
	for _, v := range vals {
		va, err := sdk.ValAddressFromBech32(v.OperatorAddress)
		if err != nil {
			return nil, err
		}
		vmap[v.OperatorAddress] = vinfo{addr: string(va), bonded: v.IsBonded(), tokens: v.Tokens.BigInt(), shares: v.DelegatorShares.BigInt()}
	}
	addrs := map[string]bool{}
	for _, a := range c.Actors {
		addrs[string(a.Addr)] = true
	}
	for k := range s.selectors {
		addrs[k] = true
	}
	for a := range addrs {
		ds, err := c.App.StakingKeeper.GetDelegatorDelegations(ctx, sdk.AccAddress(a), 1000)
		if err != nil {
			return nil, err
		}
		for _, d := range ds {
			vi, ok := vmap[d.ValidatorAddress]
			if !ok {
				return nil, fmt.Errorf("delegation to unknown validator %s", d.ValidatorAddress)
			}
			dl := c10Deleg{val: vi.addr, bonded: vi.bonded, q: new(big.Rat), lo: new(big.Int), hi: new(big.Int)}
			if vi.shares.Sign() > 0 {
				num := new(big.Int).Mul(d.Shares.BigInt(), vi.tokens)
				dl.q.SetFrac(num, vi.shares)
				dl.lo = c10RatFloor(dl.q)
				dl.hi = c10RatFloor(new(big.Rat).Add(dl.q, c10Eps))
			}
			s.delegs[a] = append(s.delegs[a], dl)
		}
		sort.Slice(s.delegs[a], func(i, j int) bool { return s.delegs[a][i].val < s.delegs[a][j].val })
	}
	return s, nil
}

// bondedTokens returns the validity interval of an address's token value with bonded validators.
func (s *c10Snap) bondedTokens(addr string) (lo, hi *big.Int) {
	lo, hi = new(big.Int), new(big.Int)
	sum := new(big.Rat)
	for _, d := range s.delegs[addr] {
		if !d.bonded {
			continue
		}
		lo.Add(lo, d.lo)
		hi.Add(hi, d.hi)
		sum.Add(sum, d.q)
	}
	if f := c10RatFloor(sum); f.Cmp(hi) > 0 {
		hi = f
	}
	return lo, hi
}

type c10Stake struct {
	lo, hi    *big.Int
	pairs     map[string]c10Deleg // key selector|validator
	nSel      int
	locked    bool // a selector of the reporter is inside its lock period
	relocked  bool // a selector with an elapsed lock counts again
	nonBonded bool // an unlocked selector has a delegation to a validator that is not bonded
	countPath bool // an unlocked selector has more delegations (per the hook-maintained counter) than the validator cap
}

func (st c10Stake) tags() string {
	var t []string
	if st.nSel >= 2 {
		t = append(t, "multi-selector")
	}
	if st.locked {
		t = append(t, "locked")
	}
	if st.nonBonded {
		t = append(t, "non-bonded-validator")
	}
	if st.countPath {
		t = append(t, "count-path")
	}
	if len(t) == 0 {
		return "plain"
	}
	return strings.Join(t, "+")
}

// pairKey identifies one delegation; hex keeps the separator unambiguous (raw address bytes may contain any value)
func c10PairKey(sel, val string) string {
	return hex.EncodeToString([]byte(sel)) + "|" + hex.EncodeToString([]byte(val))
}

func c10SplitPairKey(k string) (sel, val string) {
	i := strings.IndexByte(k, '|')
	a, _ := hex.DecodeString(k[:i])
	b, _ := hex.DecodeString(k[i+1:])
	return string(a), string(b)
}

// stake is the reference model of the statement's first sentence.
func (s *c10Snap) stake(reporter string, at time.Time) c10Stake {
	st := c10Stake{lo: new(big.Int), hi: new(big.Int), pairs: map[string]c10Deleg{}}
	sum := new(big.Rat)
	for sel, info := range s.selectors {
		if string(info.Reporter) != reporter {
			continue
		}
		st.nSel++
		if info.LockedUntilTime.After(at) {
			st.locked = true
			continue
		}
		if info.LockedUntilTime.Unix() > 0 {
			st.relocked = true
		}
		if info.DelegationsCount > uint64(s.maxValidators) {
			st.countPath = true
		}
		for _, d := range s.delegs[sel] {
			if !d.bonded {
				st.nonBonded = true
				continue
			}
			st.lo.Add(st.lo, d.lo)
			st.hi.Add(st.hi, d.hi)
			sum.Add(sum, d.q)
			st.pairs[c10PairKey(sel, d.val)] = d
		}
	}
	if f := c10RatFloor(sum); f.Cmp(st.hi) > 0 {
		st.hi = f
	}
	return st
}

// ---------------------------------------------------------------- the monitor

// transactions that cannot change staking, selector, reporter or dispute state
var c10Harmless = map[string]bool{OpSubmit: true, OpTip: true, OpSend: true, OpRegisterSpec: true, OpReqAttest: true, "govvote": true}

type c10RoundRep struct {
	reporter string
	t        time.Time
	pairs    map[string]*big.Int
}

type c10Monitor struct {
	BaseMonitor
	snap       *c10Snap
	capLowered bool
	rounds     map[string][]c10RoundRep
	lastJoin   map[string]string // selector -> kind of the accepted message that put it under its current reporter

	reports, exact, skipDirty, skipBegin, skipOverwritten int
	ntExact                                               int
	fLocked, fRelocked, fNonBonded, fCountPath, fMulti    int
	okSelect, okSwitch, okRemove, okUnjail, okCreate      int
	lockSet                                               int // accepted switches that set a lock
	lockKept                                              int // selectors with a running lock checked for not being shortened
	minChecks, capChecks, jailChecks, unjailChecks        int
	roundPairs, roundStale, roundSelOverlap               int
	valStatusChanges, valSlashes                          int
	prevBonded                                            map[string]bool
	inexactRate                                           int // exact checks where lo != hi (validator exchange rate != 1)
}

func (m *c10Monitor) Init(c *Chain, w *World) *pbt.Violation {
	m.rounds = map[string][]c10RoundRep{}
	m.lastJoin = map[string]string{}
	return nil
}

func (m *c10Monitor) Before(c *Chain, w *World, txs []*BuiltTx) *pbt.Violation {
	s, err := c10TakeSnap(c)
	if err != nil {
		// reading the state failed: nothing can be compared in this block
		m.snap = nil
		return nil
	}
	m.snap = s
	return nil
}

func c10BeginBlockTouchedStake(br *BlockResult) bool {
	if br.Finalize == nil {
		return true
	}
	for _, ev := range br.Finalize.Events {
		if ev.Type == "slash" || ev.Type == "dispute_executed" {
			return true
		}
	}
	return false
}

func (m *c10Monitor) After(c *Chain, w *World, br *BlockResult, outs []TxOutcome) *pbt.Violation {
	if br.Halt != nil {
		return nil // halts belong to C02
	}
	snap := m.snap
	if snap == nil || br.Finalize == nil {
		return nil
	}
	ctx := c.Ctx()
	h := uint64(br.Height)
	begin := c10BeginBlockTouchedStake(br)
	for _, ev := range br.Finalize.Events {
		if ev.Type == "slash" {
			m.valSlashes++
		}
	}

	// the last accepted report per (reporter, query id) of this block is the one whose records survive
	last := map[string]int{}
	for i, o := range outs {
		if o.OK() && o.Tx.Op.K == OpSubmit && len(o.Tx.Msgs) == 1 {
			if msg, ok := o.Tx.Msgs[0].(*oracletypes.MsgSubmitValue); ok {
				last[msg.Creator+"|"+string(queryID(msg.QueryData))] = i
			}
		}
	}

	// in-block model of the selector -> reporter map, driven by the accepted messages only
	model := map[string]string{}
	count := map[string]int{}
	removedInBlock := map[string]bool{}
	for k, v := range snap.selectors {
		model[k] = string(v.Reporter)
		count[string(v.Reporter)]++
	}
	dirty := false
	for i, o := range outs {
		if !o.OK() {
			continue // a failed transaction leaves no state behind
		}
		k := o.Tx.Op.K
		clean := !dirty && !begin
		switch k {
		case OpSubmit:
			msg, ok := o.Tx.Msgs[0].(*oracletypes.MsgSubmitValue)
			if !ok {
				break
			}
			m.reports++
			rep, err := sdk.AccAddressFromBech32(msg.Creator)
			if err != nil {
				break
			}
			qid := queryID(msg.QueryData)
			if !dirty {
				if r, ok := snap.reporters[string(rep)]; ok {
					m.jailChecks++
					if r.Jailed {
						return pbt.Violf("C10/jailed-reporter-reported", "block %d: report of %s accepted although the reporter was jailed (until %s) in the state of the previous block and no earlier transaction of the block could release it",
							br.Height, rep, r.JailedUntil)
					}
				}
			}
			if last[msg.Creator+"|"+string(qid)] != i {
				m.skipOverwritten++
				break
			}
			if v := m.checkReport(c, ctx, snap, br, rep, qid, h, clean); v != nil {
				return v
			}
			if dirty {
				m.skipDirty++
			} else if begin {
				m.skipBegin++
			}
		case OpCreateReporter:
			m.okCreate++
			a := string(o.Tx.Signer.Addr)
			if msg, ok := o.Tx.Msgs[0].(*reportertypes.MsgCreateReporter); ok {
				if ad, err := sdk.AccAddressFromBech32(msg.ReporterAddress); err == nil {
					a = string(ad)
				}
			}
			model[a] = a
			count[a]++
			m.lastJoin[a] = "create"
		case OpSelectReporter, OpSwitchReporter:
			var selS, repS string
			what := "select"
			if msg, ok := o.Tx.Msgs[0].(*reportertypes.MsgSelectReporter); ok {
				selS, repS = msg.SelectorAddress, msg.ReporterAddress
				m.okSelect++
			} else if msg, ok := o.Tx.Msgs[0].(*reportertypes.MsgSwitchReporter); ok {
				selS, repS = msg.SelectorAddress, msg.ReporterAddress
				what = "switch"
				m.okSwitch++
			} else {
				break
			}
			selA, err1 := sdk.AccAddressFromBech32(selS)
			repA, err2 := sdk.AccAddressFromBech32(repS)
			if err1 != nil || err2 != nil {
				break
			}
			sel, target := string(selA), string(repA)
			m.capChecks++
			if uint64(count[target]) >= snap.maxSelectors {
				return pbt.Violf("C10/cap-exceeded/"+what, "block %d: %s of %s to reporter %s accepted although the reporter already had %d selectors and the cap in force is %d",
					br.Height, what, selA, repA, count[target], snap.maxSelectors)
			}
			if clean {
				if r, ok := snap.reporters[target]; ok {
					m.minChecks++
					_, hi := snap.bondedTokens(sel)
					if hi.Cmp(r.MinTokensRequired.BigInt()) < 0 {
						return pbt.Violf("C10/join-below-minimum/"+what, "block %d: %s of %s to reporter %s accepted with at most %s tokens delegated to bonded validators; the reporter requires %s",
							br.Height, what, selA, repA, hi, r.MinTokensRequired)
					}
				}
			}
			if prev, ok := model[sel]; ok {
				count[prev]--
			}
			model[sel] = target
			count[target]++
			m.lastJoin[sel] = what
		case OpRemoveSelector:
			m.okRemove++
			if msg, ok := o.Tx.Msgs[0].(*reportertypes.MsgRemoveSelector); ok {
				if a, err := sdk.AccAddressFromBech32(msg.SelectorAddress); err == nil {
					if prev, ok := model[string(a)]; ok {
						count[prev]--
						delete(model, string(a))
						m.lastJoin[string(a)] = "removed"
						removedInBlock[string(a)] = true
					}
				}
			}
		case OpUnjailReporter:
			m.okUnjail++
			if msg, ok := o.Tx.Msgs[0].(*reportertypes.MsgUnjailReporter); ok && !dirty {
				if a, err := sdk.AccAddressFromBech32(msg.ReporterAddress); err == nil {
					if r, ok := snap.reporters[string(a)]; ok && r.Jailed {
						m.unjailChecks++
						if br.Time.Before(r.JailedUntil) {
							return pbt.Violf("C10/unjail-before-jail-end", "block %d (time %s): reporter %s released although it is jailed until %s",
								br.Height, br.Time.UTC().Format(time.RFC3339Nano), a, r.JailedUntil.UTC().Format(time.RFC3339Nano))
						}
					}
				}
			}
		}
		if !c10Harmless[k] {
			dirty = true
		}
	}

	// ------------------------------------------------------------ structural rules on the committed state
	cur := map[string]reportertypes.Selection{}
	_ = c.App.ReporterKeeper.Selectors.Walk(ctx, nil, func(k []byte, v reportertypes.Selection) (bool, error) {
		cur[string(k)] = v
		return false, nil
	})
	curCount := map[string]int{}
	for sel, info := range cur {
		curCount[string(info.Reporter)]++
		if has, _ := c.App.ReporterKeeper.Reporters.Has(ctx, info.Reporter); !has {
			return pbt.Violf("C10/selector-without-reporter", "block %d: selector %s belongs to %s which is not a registered reporter", br.Height, sdk.AccAddress(sel), sdk.AccAddress(info.Reporter))
		}
		if want, ok := model[sel]; !ok || want != string(info.Reporter) {
			return pbt.Violf("C10/selector-map-differs-from-accepted-messages", "block %d: selector %s is recorded under reporter %s but the accepted messages put it under %q",
				br.Height, sdk.AccAddress(sel), sdk.AccAddress(info.Reporter), sdk.AccAddress(want).String())
		}
		if prev, ok := snap.selectors[sel]; ok && string(prev.Reporter) != string(info.Reporter) && !prev.LockedUntilTime.Equal(info.LockedUntilTime) {
			m.lockSet++
		}
		// a lock period that is still running is never shortened or lifted by a later switch ("excluding selectors
		// still inside their lock period after switching reporters"); a selector removed and re-created inside the
		// block is the recorded remove+select finding and is left to the round check
		if prev, ok := snap.selectors[sel]; ok && prev.LockedUntilTime.After(br.Time) && !removedInBlock[sel] {
			m.lockKept++
			if info.LockedUntilTime.Before(prev.LockedUntilTime) {
				return pbt.Violf("C10/running-lock-shortened/"+m.lastJoin[sel], "block %d (time %s): selector %s was locked until %s before the block and is locked until %s after it (reporter %s -> %s)",
					br.Height, br.Time.UTC().Format(time.RFC3339Nano), sdk.AccAddress(sel), prev.LockedUntilTime.UTC().Format(time.RFC3339Nano), info.LockedUntilTime.UTC().Format(time.RFC3339Nano),
					sdk.AccAddress(prev.Reporter), sdk.AccAddress(info.Reporter))
			}
		}
	}
	for sel := range model {
		if _, ok := cur[sel]; !ok {
			return pbt.Violf("C10/selector-map-differs-from-accepted-messages", "block %d: selector %s should exist according to the accepted messages but is not stored", br.Height, sdk.AccAddress(sel))
		}
	}
	// the index used for summing must say the same as the primary map: one reporter per selector
	idxN := 0
	var idxV *pbt.Violation
	_ = c.App.ReporterKeeper.Selectors.Indexes.Reporter.Walk(ctx, nil, func(rep, sel []byte) (bool, error) {
		idxN++
		if info, ok := cur[string(sel)]; !ok || !bytes.Equal(info.Reporter, rep) {
			idxV = pbt.Violf("C10/selector-listed-under-second-reporter", "block %d: the reporter->selectors index lists selector %s under reporter %s, the selector record says %s",
				br.Height, sdk.AccAddress(sel), sdk.AccAddress(rep), sdk.AccAddress(info.Reporter))
			return true, nil
		}
		return false, nil
	})
	if idxV != nil {
		return idxV
	}
	if idxN != len(cur) {
		return pbt.Violf("C10/selector-listed-under-second-reporter", "block %d: the reporter->selectors index has %d entries for %d selectors", br.Height, idxN, len(cur))
	}
	if p, err := c.App.ReporterKeeper.Params.Get(ctx); err == nil {
		if p.MaxSelectors < snap.maxSelectors {
			m.capLowered = true
		}
		if !m.capLowered {
			for rep, n := range curCount {
				if uint64(n) > p.MaxSelectors {
					return pbt.Violf("C10/selectors-over-cap", "block %d: reporter %s has %d selectors, the cap is %d and was never lowered", br.Height, sdk.AccAddress(rep), n, p.MaxSelectors)
				}
			}
		}
	}
	// bookkeeping for classification: validators whose bonded status changed
	nowBonded := map[string]bool{}
	if vals, err := c.App.StakingKeeper.GetAllValidators(ctx); err == nil {
		for _, v := range vals {
			nowBonded[v.OperatorAddress] = v.IsBonded()
		}
		if m.prevBonded != nil {
			for a, b := range nowBonded {
				if pb, ok := m.prevBonded[a]; ok && pb != b {
					m.valStatusChanges++
				}
			}
		}
		m.prevBonded = nowBonded
	}
	return nil
}

// checkReport compares the records of one accepted report with the reference model.
func (m *c10Monitor) checkReport(c *Chain, ctx sdk.Context, snap *c10Snap, br *BlockResult, rep sdk.AccAddress, qid []byte, h uint64, clean bool) *pbt.Violation {
	// stored micro-report of this block
	var mr *oracletypes.MicroReport
	var metaID uint64
	rng := collections.NewSuperPrefixedTripleRange[[]byte, []byte, uint64](qid, rep.Bytes())
	_ = c.App.OracleKeeper.Reports.Walk(ctx, rng, func(k collections.Triple[[]byte, []byte, uint64], v oracletypes.MicroReport) (bool, error) {
		if v.BlockNumber == h {
			vv := v
			mr = &vv
			metaID = k.K3()
			return true, nil
		}
		return false, nil
	})
	if mr == nil {
		return nil // storage of the micro-report itself is another property's business
	}
	rec, err := c.App.ReporterKeeper.Report.Get(ctx, collections.Join(qid, collections.Join(rep.Bytes(), h)))
	if err != nil {
		return pbt.Violf("C10/report-without-stake-record", "block %d: report of %s on %x accepted with power %d but no per-report stake record (query id, (reporter, height)) is stored: %v", br.Height, rep, qid, mr.Power, err)
	}
	if rec.Total.IsNil() {
		return pbt.Violf("C10/report-without-stake-record", "block %d: report of %s on %x: stored stake record has no total", br.Height, rep, qid)
	}
	total := rec.Total.BigInt()
	// power = whole tokens of the recorded stake
	wantPower := new(big.Int).Quo(total, big.NewInt(1_000_000))
	if !wantPower.IsUint64() || wantPower.Uint64() != mr.Power {
		return pbt.Violf("C10/power-not-whole-tokens-of-stake", "block %d: report of %s on %x carries power %d but the recorded stake %s is %s whole tokens", br.Height, rep, qid, mr.Power, total, wantPower)
	}
	sum := new(big.Int)
	pairs := map[string]*big.Int{}
	for _, o := range rec.TokenOrigins {
		if o == nil || o.Amount.IsNil() {
			continue
		}
		sum.Add(sum, o.Amount.BigInt())
		k := c10PairKey(string(o.DelegatorAddress), string(o.ValidatorAddress))
		if pairs[k] == nil {
			pairs[k] = new(big.Int)
		}
		pairs[k].Add(pairs[k], o.Amount.BigInt())
	}
	if sum.Cmp(total) != 0 {
		return pbt.Violf("C10/origins-do-not-sum-to-total", "block %d: report of %s on %x: token origins sum to %s, recorded total %s", br.Height, rep, qid, sum, total)
	}
	// once-only consequence, per round
	if v := m.checkRound(snap, br, rep, qid, metaID, pairs); v != nil {
		return v
	}
	if !clean {
		return nil
	}
	// exact comparison with the reference model on the state of the previous block
	st := snap.stake(string(rep), br.Time)
	m.exact++
	if st.lo.Cmp(st.hi) != 0 {
		m.inexactRate++
	}
	if st.nSel >= 2 {
		m.fMulti++
	}
	if st.locked {
		m.fLocked++
	}
	if st.relocked {
		m.fRelocked++
	}
	if st.nonBonded {
		m.fNonBonded++
	}
	if st.countPath {
		m.fCountPath++
	}
	if st.nSel >= 2 && (st.locked || st.nonBonded || st.countPath) {
		m.ntExact++
	}
	detail := func() string {
		var b strings.Builder
		fmt.Fprintf(&b, "reporter %s, block time %s, validator cap %d; selectors in the previous state:", rep, br.Time.UTC().Format(time.RFC3339Nano), snap.maxValidators)
		var sels []string
		for sel, info := range snap.selectors {
			if string(info.Reporter) == string(rep) {
				sels = append(sels, sel)
			}
		}
		sort.Strings(sels)
		for _, sel := range sels {
			info := snap.selectors[sel]
			fmt.Fprintf(&b, "\n    %s locked-until=%s delegation-counter=%d:", sdk.AccAddress(sel), info.LockedUntilTime.UTC().Format(time.RFC3339), info.DelegationsCount)
			for _, d := range snap.delegs[sel] {
				fmt.Fprintf(&b, " [%s bonded=%v value=%s]", sdk.ValAddress(d.val), d.bonded, d.q.FloatString(3))
			}
		}
		b.WriteString("\n  stored origins:")
		for _, o := range rec.TokenOrigins {
			fmt.Fprintf(&b, " [%s -> %s %s]", sdk.AccAddress(o.DelegatorAddress), sdk.ValAddress(o.ValidatorAddress), o.Amount)
		}
		return b.String()
	}
	if total.Cmp(st.lo) < 0 || total.Cmp(st.hi) > 0 {
		dir := "too-high"
		if total.Cmp(st.lo) < 0 {
			dir = "too-low"
		}
		return pbt.Violf("C10/stake-differs-from-bonded-delegations/"+dir+"/"+st.tags(), "block %d: report on %x records stake %s (power %d); the unlocked selectors' delegations to bonded validators are worth [%s, %s]\n  %s",
			br.Height, qid, total, mr.Power, st.lo, st.hi, detail())
	}
	for k, amt := range pairs {
		if amt.Sign() <= 0 {
			continue
		}
		d, ok := st.pairs[k]
		if !ok {
			return pbt.Violf("C10/origin-not-an-unlocked-selectors-bonded-delegation/"+st.tags(), "block %d: report on %x: a token origin with amount %s is not a delegation of an unlocked selector of the reporter to a bonded validator\n  %s", br.Height, qid, amt, detail())
		}
		if amt.Cmp(d.lo) < 0 || amt.Cmp(d.hi) > 0 {
			return pbt.Violf("C10/origin-amount-differs-from-delegation/"+st.tags(), "block %d: report on %x: a token origin records %s, the delegation is worth %s\n  %s", br.Height, qid, amt, d.q.FloatString(6), detail())
		}
	}
	for k, d := range st.pairs {
		if d.lo.Sign() > 0 {
			if a, ok := pairs[k]; !ok || a.Sign() <= 0 {
				return pbt.Violf("C10/bonded-delegation-missing-from-origins/"+st.tags(), "block %d: report on %x: a bonded delegation worth %s of an unlocked selector is not among the token origins\n  %s", br.Height, qid, d.q.FloatString(6), detail())
			}
		}
	}
	return nil
}

func (m *c10Monitor) checkRound(snap *c10Snap, br *BlockResult, rep sdk.AccAddress, qid []byte, metaID uint64, pairs map[string]*big.Int) *pbt.Violation {
	key := fmt.Sprintf("%x/%d", qid, metaID)
	entries := m.rounds[key]
	for _, e := range entries {
		if e.reporter == string(rep) {
			continue
		}
		m.roundPairs++
		dt := br.Time.Sub(e.t)
		if dt < 0 {
			dt = -dt
		}
		if dt >= snap.unbonding {
			m.roundStale++ // the statement only speaks about windows shorter than the unbonding period
			continue
		}
		selOverlap := false
		for k, a := range pairs {
			if a.Sign() <= 0 {
				continue
			}
			if b, ok := e.pairs[k]; ok && b.Sign() > 0 {
				selAddr, valAddr := c10SplitPairKey(k)
				how := m.lastJoin[selAddr]
				if how == "" {
					how = "unknown"
				}
				return pbt.Violf("C10/delegation-counted-for-two-reporters-in-one-round/joined-by-"+how, "block %d: round %s: the delegation of %s to %s contributes %s to the report of %s and %s to the report of %s made %s earlier (unbonding period %s)",
					br.Height, key, sdk.AccAddress(selAddr), sdk.ValAddress(valAddr), a, rep, b, sdk.AccAddress(e.reporter), dt, snap.unbonding)
			}
			// same selector through another validator: cannot be told apart from freshly delegated tokens, only counted
			sel := k[:strings.IndexByte(k, '|')+1]
			for k2, b := range e.pairs {
				if b.Sign() > 0 && strings.HasPrefix(k2, sel) {
					selOverlap = true
				}
			}
		}
		if selOverlap {
			m.roundSelOverlap++
		}
	}
	// a reporter's newer report of the same round replaces its older one
	out := entries[:0]
	for _, e := range entries {
		if e.reporter != string(rep) {
			out = append(out, e)
		}
	}
	m.rounds[key] = append(out, c10RoundRep{reporter: string(rep), t: br.Time, pairs: pairs})
	return nil
}

func c10Bucket(n int) string {
	switch {
	case n == 0:
		return "0"
	case n < 3:
		return "1-2"
	case n < 10:
		return "3-9"
	default:
		return "10+"
	}
}

func (m *c10Monitor) Classify(info *pbt.CaseInfo) {
	info.Nontrivial = m.ntExact > 0
	add := func(cond bool, label string) {
		if cond {
			info.Classes = append(info.Classes, label)
		}
	}
	info.Classes = append(info.Classes, "exact-checks="+c10Bucket(m.exact), "reports="+c10Bucket(m.reports))
	add(m.skipDirty > 0, "skipped:not-first-in-block")
	add(m.skipBegin > 0, "skipped:begin-block-slash-or-dispute-execution")
	add(m.skipOverwritten > 0, "skipped:overwritten-in-same-block")
	add(m.fMulti > 0, "exact:multi-selector")
	add(m.fLocked > 0, "exact:locked-selector-excluded")
	add(m.fRelocked > 0, "exact:selector-counted-again-after-lock")
	add(m.fNonBonded > 0, "exact:delegation-to-non-bonded-validator")
	add(m.fCountPath > 0, "exact:count-path(delegations>validator-cap)")
	add(m.inexactRate > 0, "exact:validator-exchange-rate-not-1")
	add(m.okSelect > 0, "accepted:select")
	add(m.okSwitch > 0, "accepted:switch")
	add(m.lockSet > 0, "accepted:switch-with-lock")
	add(m.lockKept > 0, "checked:running-lock-kept")
	add(m.okRemove > 0, "accepted:remove-selector")
	add(m.okUnjail > 0, "accepted:unjail")
	add(m.unjailChecks > 0, "checked:unjail-time")
	add(m.minChecks > 0, "checked:join-minimum")
	add(m.capLowered, "cap-lowered-by-governance")
	add(m.roundPairs > 0, "round:two-reporters")
	add(m.roundSelOverlap > 0, "round:same-selector-different-validators")
	add(m.roundStale > 0, "round:longer-than-unbonding")
	add(m.valStatusChanges > 0, "validator-bonding-status-changed")
	add(m.valSlashes > 0, "validator-slashed-for-downtime")
}

// ---------------------------------------------------------------- generator

func c10Genesis(t *rapid.T) GenesisCfg {
	kind := uni(t, "capKind", 5)
	nv := 4 + uni(t, "numValidators", 3) // 4..6
	if kind == 1 {
		nv = 3
	}
	cfg := GenesisCfg{NumValidators: nv, NumUsers: 7 + uni(t, "numUsers", 4), UserBalance: 1_000_000_000_000,
		SlashWindow: 5, UnbondingSecs: 21 * 24 * 3600, VotingSecs: 60}
	// validators close to each other so that ordinary delegations move the boundary of the bonded set
	for i := 0; i < nv; i++ {
		cfg.ValTokens = append(cfg.ValTokens, 20_000_000+pick(t, "valOffset", []int64{0, 0, 300_000, 700_000, 1_000_000, 1_500_000, 2_000_000, -1_000_000, -12_000_000}))
	}
	switch kind {
	case 0:
		cfg.MaxValidators = nv + 3 // everybody bonded, counter never above the cap
	case 1:
		// three bonded validators, the last one far below a third of the power: the scripted consensus
		// engine can let it miss blocks, so it gets slashed and jailed for downtime (exchange rate != 1)
		cfg.MaxValidators = 3 + uni(t, "maxValidators", 2)
		cfg.ValTokens[0] += 15_000_000
		cfg.ValTokens[1] += 15_000_000
		cfg.ValTokens[2] = 4_000_000 + pick(t, "smallVal", []int64{0, 1, 999_999, 1_000_000})
	default:
		cfg.MaxValidators = 2 + uni(t, "maxValidators", 2) // 2..3 < nv
	}
	for u := 0; u < cfg.NumUsers; u++ {
		nd := pick(t, "numDelegs", []int{0, 1, 2, 2, 3, 3, 4, 4, 5})
		if nd > nv {
			nd = nv
		}
		first := uni(t, "dfirst", nv)
		for d := 0; d < nd; d++ {
			v := (first + d) % nv // distinct validators
			cfg.UserDelegs = append(cfg.UserDelegs, [3]int64{int64(u), int64(v),
				pick(t, "damt", []int64{1_000_000, 2_000_000, 1_500_000, 3_000_000, 3_333_333, 999_999, 5_000_000, 600_000})})
		}
	}
	return cfg
}

func c10Shape(t *rapid.T, op *Op) {
	switch op.K {
	case OpCreateReporter:
		op.V = pick(t, "rate", []int{0, 1, 1, 2, 3, 4, 9})
		op.R[0] = pick(t, "minTokens", []int{0, 0, 1, 1, 3, 3, 2}) // 1, 2, 5 whole tokens; rarely one below the module minimum
	case OpPropose:
		// warnings and minor disputes with the full fee jail the reporter at once
		op.V = pick(t, "cat", []int{1, 1, 2, 2, 2, 3})
		if uni(t, "exactRep", 8) != 0 {
			op.R[1] = 0
		}
		if uni(t, "fullFee", 6) != 0 {
			op.Amt = Amount{Kind: AmtOfNeeded, N: 1000}
		}
	case OpGov:
		op.V = 4 // reporter module parameters: selector cap and minimum
	case OpSubmit:
		op.V = 0
	}
}

func c10Profile() *Profile {
	w := map[string]int{
		OpSubmit: 36, OpTip: 3, OpCreateReporter: 5, OpSelectReporter: 8, OpSwitchReporter: 9, OpRemoveSelector: 6,
		OpDelegate: 6, OpUndelegate: 6, OpRedelegate: 7, OpCancelUnbond: 1, OpUnjailReporter: 5, OpPropose: 6,
		OpUnjailVal: 2, OpGov: 2, OpWithdrawTip: 1, OpVote: 1,
	}
	return &Profile{Name: "power", Weights: w, MinBlocks: 12, MaxBlocks: 36, MaxOps: 5, AbsentPM: 800, BadVarPM: 15, Setup: true, ThoroughScale: 3,
		GapW:    []int{2, 2, 10, 30, 6, 5, 2, 3, 2, 0, 0, 1, 3, 1},
		Genesis: c10Genesis, Shape: c10Shape}
}

func TestC10_ReportingPower(t *testing.T) {
	runHistoryProp(t, "C10", "TestC10_ReportingPower",
		"histories of create/select/switch/remove selector, delegate/undelegate/redelegate, disputes that jail, unjail, governance changes of the selector cap, absent validators and block gaps up to 30 days on genesis states with 3-6 validators whose stakes lie close together, a validator cap of 2-3 below the validator count (3 of 5 cases) and users delegating to 0-5 validators; every accepted report that is first in its block is compared with the stake recomputed from the previous block's staking store; non-trivial = at least one exactly compared report whose reporter has >=2 selectors and >=1 of {selector inside its lock, delegation to a non-bonded validator, selector with more delegations than the validator cap}; distinct by SHA-256 of the history JSON",
		c10Profile(), func() Monitor { return &c10Monitor{} })
}
