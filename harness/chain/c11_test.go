package chain

// C11 — slashing takes exactly the category's share of the disputed report's stake.
// Oracle: at the funding event (a dispute becomes Voting through an accepted ProposeDispute /
// AddFeeToDispute) exact shares computed with math/big from the report's stored stake record,
// an existence guard for the disputed report, the jail / flag effects, at-most-once, and the
// expiry rule. All references are recomputed from state read before and after the block.

import (
	"bytes"

	"fmt"
	"math/big"
	"strings"
	"pgregory.net/rapid"
	"testing"
	"time"

	"cosmossdk.io/collections"
	"cosmossdk.io/math"

	sdk "github.com/cosmos/cosmos-sdk/types"
	stakingtypes "github.com/cosmos/cosmos-sdk/x/staking/types"

	disputetypes "github.com/tellor-io/layer/x/dispute/types"
	oracletypes "github.com/tellor-io/layer/x/oracle/types"
	reportertypes "github.com/tellor-io/layer/x/reporter/types"

	"verif/harness/pbt"
)

type c11Stake struct {
	total map[string]*big.Int // account -> delegated + unbonding value (loya, truncated per entry)
	pair  map[string]*big.Int // account|validator -> delegated + unbonding value at that validator
	redel map[string][]string // account|source validator -> destination validators of live redelegations
}

// reachable is an upper bound of what is left of the tokens that backed a report: the backer's delegation and
// unbonding entries at the validators the report records, plus its delegations at the destinations of live
// redelegations away from them ("following tokens that were since redelegated or are unbonding"). Tokens the
// backer delegated elsewhere later are not part of the stake that backed the report.
func (s c11Stake) reachable(acc string, vals map[string]bool) *big.Int {
	seen := map[string]bool{}
	sum := new(big.Int)
	addVal := func(v string) {
		if seen[v] {
			return
		}
		seen[v] = true
		if x := s.pair[acc+"|"+v]; x != nil {
			sum.Add(sum, x)
		}
	}
	for v := range vals {
		addVal(v)
		for _, dst := range s.redel[acc+"|"+v] {
			addVal(dst)
		}
	}
	return sum
}

func c11ReadStake(c *Chain) c11Stake {
	ctx := c.Ctx()
	s := c11Stake{total: map[string]*big.Int{}, pair: map[string]*big.Int{}, redel: map[string][]string{}}
	add := func(acc string, x *big.Int) {
		if s.total[acc] == nil {
			s.total[acc] = new(big.Int)
		}
		s.total[acc].Add(s.total[acc], x)
	}
	addPair := func(acc, val string, x *big.Int) {
		k := acc + "|" + val
		if s.pair[k] == nil {
			s.pair[k] = new(big.Int)
		}
		s.pair[k].Add(s.pair[k], x)
	}
	vals := map[string]stakingtypes.Validator{}
	all, _ := c.App.StakingKeeper.GetAllValidators(ctx)
	for _, v := range all {
		vals[v.OperatorAddress] = v
	}
	dels, _ := c.App.StakingKeeper.GetAllDelegations(ctx)
	for _, d := range dels {
		if v, ok := vals[d.ValidatorAddress]; ok {
			add(d.DelegatorAddress, v.TokensFromShares(d.Shares).TruncateInt().BigInt())
			addPair(d.DelegatorAddress, d.ValidatorAddress, v.TokensFromShares(d.Shares).TruncateInt().BigInt())
		}
	}
	for _, v := range all {
		if va, err := sdk.ValAddressFromBech32(v.OperatorAddress); err == nil {
			if reds, err := c.App.StakingKeeper.GetRedelegationsFromSrcValidator(ctx, va); err == nil {
				for _, r := range reds {
					s.redel[r.DelegatorAddress+"|"+r.ValidatorSrcAddress] = append(s.redel[r.DelegatorAddress+"|"+r.ValidatorSrcAddress], r.ValidatorDstAddress)
				}
			}
		}
	}
	_ = c.App.StakingKeeper.IterateUnbondingDelegations(ctx, func(_ int64, ubd stakingtypes.UnbondingDelegation) bool {
		for _, e := range ubd.Entries {
			add(ubd.DelegatorAddress, e.Balance.BigInt())
			addPair(ubd.DelegatorAddress, ubd.ValidatorAddress, e.Balance.BigInt())
		}
		return false
	})
	return s
}

type c11DisputeView struct {
	status disputetypes.DisputeStatus
	hash   string
	round  uint64
	end    time.Time
}

type slashMonitor struct {
	BaseMonitor
	before      c11Stake
	disputesBef map[uint64]c11DisputeView
	reportRecs  map[string]reportertypes.DelegationsAmounts // key: queryId|reporter|height
	storedReps  []oracletypes.MicroReport
	disputeBal  math.Int
	fundedHash  map[string]int
	// classification
	funded, fundedMultiBacker, stakingBetween, alteredAttempts, expired int
	sawReport                                                           bool
	skippedExact                                                        int
}

func c11Key(q []byte, rep []byte, h uint64) string { return fmt.Sprintf("%x|%x|%d", q, rep, h) }

func (m *slashMonitor) Init(c *Chain, w *World) *pbt.Violation {
	m.fundedHash = map[string]int{}
	return nil
}

func (m *slashMonitor) Before(c *Chain, w *World, txs []*BuiltTx) *pbt.Violation {
	ctx := c.Ctx()
	m.before = c11ReadStake(c)
	m.disputesBef = map[uint64]c11DisputeView{}
	_ = c.App.DisputeKeeper.Disputes.Walk(ctx, nil, func(id uint64, d disputetypes.Dispute) (bool, error) {
		m.disputesBef[id] = c11DisputeView{d.DisputeStatus, string(d.HashId), d.DisputeRound, d.DisputeEndTime}
		return false, nil
	})
	m.reportRecs = map[string]reportertypes.DelegationsAmounts{}
	_ = c.App.ReporterKeeper.Report.Walk(ctx, nil, func(k collections.Pair[[]byte, collections.Pair[[]byte, uint64]], v reportertypes.DelegationsAmounts) (bool, error) {
		m.reportRecs[c11Key(k.K1(), k.K2().K1(), k.K2().K2())] = v
		return false, nil
	})
	m.storedReps = m.storedReps[:0]
	_ = c.App.OracleKeeper.Reports.Walk(ctx, nil, func(_ collections.Triple[[]byte, []byte, uint64], v oracletypes.MicroReport) (bool, error) {
		m.storedReps = append(m.storedReps, v)
		return false, nil
	})
	m.disputeBal = moduleBal(c, disputetypes.ModuleName)
	return nil
}

func pctOf(cat disputetypes.DisputeCategory) (num, den int64) {
	switch cat {
	case disputetypes.Warning:
		return 1, 100
	case disputetypes.Minor:
		return 5, 100
	case disputetypes.Major:
		return 100, 100
	}
	return 0, 1
}

func (m *slashMonitor) After(c *Chain, w *World, br *BlockResult, outs []TxOutcome) *pbt.Violation {
	if br.Halt != nil {
		return nil
	}
	ctx := c.Ctx()
	// what else happened in this block (decides whether exact per-backer accounting is attributable)
	automatic := false
	if br.Finalize != nil {
		for _, ev := range br.Finalize.Events {
			if ev.Type == "slash" || ev.Type == "dispute_executed" || ev.Type == "complete_unbonding" || ev.Type == "complete_redelegation" {
				automatic = true
			}
		}
	}
	stakingTxs, disputeMoneyTxs := 0, 0
	for _, o := range outs {
		if !o.OK() {
			continue
		}
		switch o.Tx.Op.K {
		case OpDelegate, OpUndelegate, OpRedelegate, OpCancelUnbond, OpMultiStake, OpCreateVal, OpWithdrawTip:
			stakingTxs++
			if m.sawReport {
				m.stakingBetween++
			}
		case OpPropose, OpAddFee, OpFeeRefund, OpClaimReward:
			disputeMoneyTxs++
		case OpSubmit:
			m.sawReport = true
		}
	}
	after := c11ReadStake(c)
	// walk disputes: transitions of this block
	var viol *pbt.Violation
	_ = c.App.DisputeKeeper.Disputes.Walk(ctx, nil, func(id uint64, d disputetypes.Dispute) (bool, error) {
		bef, existed := m.disputesBef[id]
		nowFunded := d.DisputeStatus != disputetypes.Prevote && d.DisputeStatus != disputetypes.Failed
		wasFunded := existed && bef.status != disputetypes.Prevote && bef.status != disputetypes.Failed
		// expiry: prevote -> failed only after a day, and without any slashing record
		if d.DisputeStatus == disputetypes.Failed && (!existed || bef.status == disputetypes.Prevote) {
			m.expired++
			if has, _ := c.App.ReporterKeeper.DisputedDelegationAmounts.Has(ctx, d.HashId); has && m.fundedHash[string(d.HashId)] == 0 {
				viol = pbt.Violf("C11/expired-dispute-has-escrowed-stake", "block %d: dispute %d expired under-funded but a stake escrow record exists for it", br.Height, id)
				return true, nil
			}
			if !br.Time.After(d.DisputeStartTime.Add(24 * time.Hour)) {
				viol = pbt.Violf("C11/expired-before-one-day", "block %d: dispute %d (started %s) was failed at %s, less than a day later", br.Height, id, d.DisputeStartTime, br.Time)
				return true, nil
			}
		}
		if existed && bef.status == disputetypes.Prevote && d.DisputeStatus == disputetypes.Prevote && br.Time.After(d.DisputeEndTime) {
			// "expires": it must not stay open past its deadline (BeginBlock of this block sees time > end)
			viol = pbt.Violf("C11/underfunded-dispute-not-expired", "block %d: dispute %d is still in prevote although its one-day funding deadline %s has passed", br.Height, id, d.DisputeEndTime)
			return true, nil
		}
		if !nowFunded || wasFunded || d.DisputeRound != 1 {
			return false, nil
		}
		// ---- funding event of dispute id in this block
		m.funded++
		m.fundedHash[string(d.HashId)]++
		if m.fundedHash[string(d.HashId)] > 1 {
			viol = pbt.Violf("C11/funded-twice", "block %d: dispute hash %x reached funding a second time", br.Height, d.HashId)
			return true, nil
		}
		rep := d.InitialEvidence
		repAddr, err := sdk.AccAddressFromBech32(rep.Reporter)
		if err != nil {
			viol = pbt.Violf("C11/dispute-on-report-not-submitted/reporter", "block %d: funded dispute %d names an unparsable reporter %q", br.Height, id, rep.Reporter)
			return true, nil
		}
		// (E) the reporter really submitted this report with the stated value and power
		var stored *oracletypes.MicroReport
		for i := range m.storedReps {
			s := &m.storedReps[i]
			if s.Reporter == rep.Reporter && bytes.Equal(s.QueryId, rep.QueryId) && s.BlockNumber == rep.BlockNumber {
				stored = s
			}
		}
		if stored == nil {
			m.alteredAttempts++
			viol = pbt.Violf("C11/dispute-on-report-not-submitted/no-such-report", "block %d: dispute %d was funded (stake slashed) for a report of %s on query %x at height %d that is not in the oracle store", br.Height, id, rep.Reporter, rep.QueryId, rep.BlockNumber)
			return true, nil
		}
		if stored.Value != rep.Value || stored.Power != rep.Power {
			m.alteredAttempts++
			field := "value"
			if stored.Power != rep.Power {
				field = "power"
			}
			sig := "C11/dispute-on-report-not-submitted/" + field
			if !pbt.IsKnown("C11", sig) {
				viol = pbt.Violf(sig, "block %d: dispute %d was funded and stake slashed for a report with value %q power %d, but the reporter's stored report has value %q power %d", br.Height, id, rep.Value, rep.Power, stored.Value, stored.Power)
				return true, nil
			}
			return false, nil // the numbers below are meaningless for an altered report
		}
		rec, ok := m.reportRecs[c11Key(rep.QueryId, repAddr.Bytes(), rep.BlockNumber)]
		if !ok {
			return false, nil
		}
		num, den := pctOf(d.DisputeCategory)
		// total loss X: the category's share of the stake that backed the report, measured in the whole-token
		// unit the chain uses for reporting stake (power*10^6) — or of the exact recorded total (both accepted)
		xPower := new(big.Int).Div(new(big.Int).Mul(new(big.Int).Mul(new(big.Int).SetUint64(stored.Power), big.NewInt(1_000_000)), big.NewInt(num)), big.NewInt(den))
		xTotal := new(big.Int).Div(new(big.Int).Mul(rec.Total.BigInt(), big.NewInt(num)), big.NewInt(den))
		esc, err := c.App.ReporterKeeper.DisputedDelegationAmounts.Get(ctx, d.HashId)
		if err != nil {
			viol = pbt.Violf("C11/no-escrow-record", "block %d: dispute %d funded but no per-backer escrow record exists", br.Height, id)
			return true, nil
		}
		sum := new(big.Int)
		for _, o := range esc.TokenOrigins {
			sum.Add(sum, o.Amount.BigInt())
		}
		if sum.Cmp(esc.Total.BigInt()) != 0 {
			viol = pbt.Violf("C11/escrow-record-sum", "block %d: dispute %d: per-backer escrow amounts sum to %s, recorded total %s", br.Height, id, sum, esc.Total)
			return true, nil
		}
		if esc.Total.BigInt().Cmp(xPower) != 0 && esc.Total.BigInt().Cmp(xTotal) != 0 {
			viol = pbt.Violf("C11/slash-amount", "block %d: dispute %d (%s): %s was escrowed, the category's share of the report's stake is %s (of power*10^6) / %s (of the recorded total %s)", br.Height, id, d.DisputeCategory, esc.Total, xPower, xTotal, rec.Total)
			return true, nil
		}
		X := esc.Total.BigInt()
		// jail
		if d.DisputeCategory == disputetypes.Warning || d.DisputeCategory == disputetypes.Minor {
			r, err := c.App.ReporterKeeper.Reporters.Get(ctx, repAddr.Bytes())
			wantUntil := br.Time
			if d.DisputeCategory == disputetypes.Minor {
				wantUntil = br.Time.Add(600 * time.Second)
			}
			unjailedSameBlock := false
			for _, o := range outs {
				if o.OK() && o.Tx.Op.K == OpUnjailReporter && o.Tx.Signer.Addr.Equals(repAddr) {
					unjailedSameBlock = true // "release possible at once": the reporter freed itself later in this very block
				}
			}
			if unjailedSameBlock {
				m.skippedExact++
			} else if err != nil || !r.Jailed {
				viol = pbt.Violf("C11/reporter-not-jailed", "block %d: %s dispute %d funded but the reporter is not jailed", br.Height, d.DisputeCategory, id)
				return true, nil
			}
			if !unjailedSameBlock && !r.JailedUntil.Equal(wantUntil) {
				viol = pbt.Violf("C11/jail-release-time/"+d.DisputeCategory.String(), "block %d: reporter jailed until %s, expected %s", br.Height, r.JailedUntil, wantUntil)
				return true, nil
			}
		}
		// flagged aggregate
		var flagViol *pbt.Violation
		_ = c.App.OracleKeeper.Aggregates.Walk(ctx, collections.NewPrefixedPairRange[[]byte, uint64](rep.QueryId), func(k collections.Pair[[]byte, uint64], a oracletypes.Aggregate) (bool, error) {
			if a.MicroHeight == rep.BlockNumber && int(a.AggregateReportIndex) < len(a.Reporters) && a.Height < uint64(br.Height) {
				if a.Reporters[a.AggregateReportIndex].Reporter == rep.Reporter && !a.Flagged {
					flagViol = pbt.Violf("C11/determined-aggregate-not-flagged", "block %d: dispute %d funded but the aggregate at %d that this report determined is not flagged", br.Height, id, k.K2())
				}
			}
			return false, nil
		})
		if flagViol != nil {
			viol = flagViol
			return true, nil
		}
		// per-backer losses: only attributable when nothing else moved stake in this block
		backers := map[string]*big.Int{}
		backerVals := map[string]map[string]bool{}
		originSum := new(big.Int)
		for _, o := range rec.TokenOrigins {
			a := sdk.AccAddress(o.DelegatorAddress).String()
			if backers[a] == nil {
				backers[a] = new(big.Int)
				backerVals[a] = map[string]bool{}
			}
			backerVals[a][sdk.ValAddress(o.ValidatorAddress).String()] = true
			backers[a].Add(backers[a], o.Amount.BigInt())
			originSum.Add(originSum, o.Amount.BigInt())
		}
		if len(backers) >= 2 {
			m.fundedMultiBacker++
		}
		fromBond := false
		for _, o := range outs {
			if o.OK() && (o.Tx.Op.K == OpPropose || o.Tx.Op.K == OpAddFee) {
				if fb, ok := o.Tx.Note["frombond"].(bool); ok && fb {
					fromBond = true
				}
			}
		}
		if automatic || stakingTxs > 0 || disputeMoneyTxs != 1 || fromBond || originSum.Sign() == 0 {
			m.skippedExact++
			return false, nil
		}
		totalLoss := new(big.Int)
		// a backer that no longer holds its share (an earlier slash took part of it) cannot lose it exactly;
		// then only the consistency of the record with what was taken is checked below (finding F-C11-5)
		exhausted := false
		for a, contrib := range backers {
			b0 := m.before.reachable(a, backerVals[a])
			if new(big.Int).Mul(b0, originSum).Cmp(new(big.Int).Mul(X, contrib)) < 0 {
				exhausted = true
			}
		}
		for a, contrib := range backers {
			b0, a0 := m.before.total[a], after.total[a]
			if b0 == nil {
				b0 = new(big.Int)
			}
			if a0 == nil {
				a0 = new(big.Int)
			}
			loss := new(big.Int).Sub(b0, a0)
			totalLoss.Add(totalLoss, loss)
			// |loss*originSum - X*contrib| <= tol*originSum, tol = 1 smallest unit + 1 per delegation entry touched (share rounding)
			lhs := new(big.Int).Mul(loss, originSum)
			rhs := new(big.Int).Mul(X, contrib)
			diff := new(big.Int).Abs(new(big.Int).Sub(lhs, rhs))
			tol := new(big.Int).Mul(big.NewInt(int64(2+len(rec.TokenOrigins))), originSum)
			if diff.Cmp(tol) > 0 && !exhausted {
				sig := "C11/backer-share-not-proportional"
				if rec.Total.BigInt().Cmp(new(big.Int).Mul(new(big.Int).SetUint64(stored.Power), big.NewInt(1_000_000))) != 0 {
					sig += "/stake-not-whole-tokens"
				}
				if !pbt.IsKnown("C11", sig) {
					viol = pbt.Violf(sig, "block %d: dispute %d: backer %s contributed %s of %s and lost %s; its proportional part of the %s slashed is %s", br.Height, id, a, contrib, originSum, loss, X,
						new(big.Rat).SetFrac(rhs, originSum).FloatString(3))
					return true, nil
				}
			}
		}
		// nobody else loses stake
		for a, b0 := range m.before.total {
			if _, isBacker := backers[a]; isBacker {
				continue
			}
			a0 := after.total[a]
			if a0 == nil {
				a0 = new(big.Int)
			}
			if new(big.Int).Sub(b0, a0).Cmp(big.NewInt(2)) > 0 {
				viol = pbt.Violf("C11/non-backer-lost-stake", "block %d: dispute %d: account %s did not back the disputed report but lost %s of stake", br.Height, id, a, new(big.Int).Sub(b0, a0))
				return true, nil
			}
		}
		if d := new(big.Int).Abs(new(big.Int).Sub(totalLoss, X)); d.Cmp(big.NewInt(int64(2+len(rec.TokenOrigins)))) > 0 {
			detail := ""
			for a := range backers {
				detail += fmt.Sprintf(" %s: %v -> %v;", a[:12], m.before.total[a], after.total[a])
			}
			for a := range backers {
				for k, x := range m.before.pair {
					if strings.HasPrefix(k, a+"|") {
						va, _ := sdk.ValAddressFromBech32(k[len(a)+1:])
						detail += fmt.Sprintf(" held-before[%s,%x]=%s", a[:12], []byte(va)[:3], x)
					}
				}
				for k, dsts := range m.before.redel {
					if strings.HasPrefix(k, a+"|") {
						va, _ := sdk.ValAddressFromBech32(k[len(a)+1:])
						for _, d := range dsts {
							vd, _ := sdk.ValAddressFromBech32(d)
							detail += fmt.Sprintf(" redelegation[%s,%x->%x]", a[:12], []byte(va)[:3], []byte(vd)[:3])
						}
					}
				}
			}
			for _, o := range esc.TokenOrigins {
				detail += fmt.Sprintf(" escrow[%s,%x]=%s", sdk.AccAddress(o.DelegatorAddress).String()[:12], o.ValidatorAddress[:3], o.Amount)
			}
			for _, o := range rec.TokenOrigins {
				detail += fmt.Sprintf(" origin[%s,%x]=%s", sdk.AccAddress(o.DelegatorAddress).String()[:12], o.ValidatorAddress[:3], o.Amount)
			}
			viol = pbt.Violf("C11/total-loss-vs-escrow", "block %d: dispute %d: backers lost %s in total, %s was recorded as escrowed;%s", br.Height, id, totalLoss, X, detail)
			return true, nil
		}
		// dispute escrow received fee + X
		var fee *big.Int
		for _, o := range outs {
			if !o.OK() {
				continue
			}
			switch msg := o.Tx.Msgs[0].(type) {
			case *disputetypes.MsgProposeDispute:
				fee = minBig(msg.Fee.Amount.BigInt(), d.SlashAmount.BigInt())
			case *disputetypes.MsgAddFeeToDispute:
				fee = msg.Amount.Amount.BigInt()
			}
		}
		if fee != nil {
			got := new(big.Int).Sub(moduleBal(c, disputetypes.ModuleName).BigInt(), m.disputeBal.BigInt())
			// AddFee caps the payment at what is still missing: accept any fee in [X-escrow slack .. stated fee]
			maxWant := new(big.Int).Add(fee, X)
			if got.Cmp(maxWant) > 0 || got.Cmp(X) < 0 {
				viol = pbt.Violf("C11/escrow-balance-delta", "block %d: dispute %d: dispute account grew by %s; slashed stake %s plus the fee paid (at most %s) was expected", br.Height, id, got, X, fee)
				return true, nil
			}
		}
		return false, nil
	})
	return viol
}

func minBig(a, b *big.Int) *big.Int {
	if a.Cmp(b) < 0 {
		return a
	}
	return b
}

func (m *slashMonitor) Classify(info *pbt.CaseInfo) {
	info.Nontrivial = (m.fundedMultiBacker > 0 && m.stakingBetween > 0) || m.alteredAttempts > 0
	if m.funded > 0 {
		info.Classes = append(info.Classes, "funded-dispute")
	}
	if m.fundedMultiBacker > 0 {
		info.Classes = append(info.Classes, "funded:>=2-backers")
	}
	if m.stakingBetween > 0 {
		info.Classes = append(info.Classes, "staking-event-after-report")
	}
	if m.alteredAttempts > 0 {
		info.Classes = append(info.Classes, "funded-on-altered-report(known)")
	}
	if m.expired > 0 {
		info.Classes = append(info.Classes, "dispute-expired")
	}
	if m.skippedExact > 0 {
		info.Classes = append(info.Classes, "exact-accounting-skipped(counted)")
	}
}

func slashProfile() *Profile {
	w := map[string]int{
		OpTip: 6, OpSubmit: 30, OpCreateReporter: 2, OpSelectReporter: 4, OpSwitchReporter: 1,
		OpPropose: 16, OpAddFee: 8, OpVote: 3, OpUnjailReporter: 4,
		OpDelegate: 5, OpUndelegate: 7, OpRedelegate: 7, OpCancelUnbond: 2, OpUnjailVal: 1,
	}
	// one case in three starts with a scripted staking history between report and dispute: a user with a genesis
	// delegation becomes a reporter, reports, then redelegates most of that stake away AND undelegates part of the
	// rest from the origin validator (in either order), so that the slash has to follow both unbonding entries and
	// the redelegation; then the report is disputed with the full fee. Shared between the two hooks of one case.
	var delegs [][3]int64
	var nVals int
	genesis := func(t *rapid.T) GenesisCfg {
		cfg := GenGenesis(t)
		if cfg.MaxValidators < cfg.NumValidators {
			cfg.MaxValidators = cfg.NumValidators + 1
		}
		delegs, nVals = cfg.UserDelegs, cfg.NumValidators
		return cfg
	}
	prefix := func(pick func(string, int) int) []Block {
		which := pick("scripted", 4)
		if which == 1 {
			// several queries reported in ONE block (two tipped spot-price queries and the scheduled cycle-list query), so
			// that several aggregates share the height of their determining reports; then one of those reports is disputed
			// with the full fee: exactly the aggregate it determined must be flagged
			sub := func(q, i int) Op {
				return Op{K: OpSubmit, A: pick("sameHeightActor", 16), R: [3]int{q, 8 * (1 + pick("sameHeightVal", 4)), 1 + 2*i}}
			}
			cat := 1 + pick("category", 3)
			return []Block{
				{Gap: GapSpec{Kind: 2}, Ops: []Op{
					{K: OpTip, A: 100 + pick("tipper", 4), R: [3]int{3, 0, 0}, Amt: Amount{Kind: AmtAbs, N: 1_000_000}},
					{K: OpTip, A: 100 + pick("tipper2", 4), R: [3]int{4, 0, 0}, Amt: Amount{Kind: AmtAbs, N: 2_000_000}}}},
				{Gap: GapSpec{Kind: 2}, Ops: []Op{sub(3, 0), sub(4, 1), {K: OpSubmit, A: pick("cycleActor", 16), R: [3]int{0, 1, 5}, S: "nodep"}, sub(4, 2), sub(3, 3)}},
				{Gap: GapSpec{Kind: 2}}, {Gap: GapSpec{Kind: 2}}, {Gap: GapSpec{Kind: 2}}, {Gap: GapSpec{Kind: 2}},
				{Gap: GapSpec{Kind: 3}, Ops: []Op{{K: OpPropose, A: pick("proposer", 3), R: [3]int{pick("report", 6), 0, 0}, V: cat, Amt: Amount{Kind: AmtOfNeeded, N: 1000}}}},
			}
		}
		if which != 0 || len(delegs) == 0 {
			return nil
		}
		d := delegs[pick("which", len(delegs))]
		actor := nVals + int(d[0])
		src := int(d[1])
		dst := (src + 1 + pick("dst", nVals-1)) % nVals
		plain := 8 * (1 + pick("pad", 3)) // R[2] multiple of 8: the signer index is taken literally
		redel := Op{K: OpRedelegate, A: actor, R: [3]int{src, dst, plain}, Amt: Amount{Kind: AmtOfStake, N: []int64{960, 900, 500, 990}[pick("redelPm", 4)]}}
		undel := Op{K: OpUndelegate, A: actor, R: [3]int{src, 0, plain}, Amt: Amount{Kind: AmtOfStake, N: []int64{750, 500, 999, 250}[pick("undelPm", 4)]}}
		first, second := redel, undel
		if pick("order", 2) == 0 {
			first, second = undel, redel
		}
		cat := 1 + pick("category", 3)
		return []Block{
			{Gap: GapSpec{Kind: 2}, Ops: []Op{{K: OpCreateReporter, A: actor, R: [3]int{0, 0, plain}}}},
			{Gap: GapSpec{Kind: 2}, Ops: []Op{{K: OpSubmit, A: actor, R: [3]int{0, 1, plain}, S: "nodep"}}},
			{Gap: GapSpec{Kind: 2}, Ops: []Op{{K: OpSubmit, A: actor, R: [3]int{1, 2, plain}, S: "nodep"}}},
			{Gap: GapSpec{Kind: 3}, Ops: []Op{first}},
			{Gap: GapSpec{Kind: 3}, Ops: []Op{second}},
			{Gap: GapSpec{Kind: 3}, Ops: []Op{{K: OpPropose, A: pick("proposer", 3), R: [3]int{pick("report", 4), 0, 0}, V: cat, Amt: Amount{Kind: AmtOfNeeded, N: 1000}}}},
		}
	}
	p := &Profile{Name: "slash", Weights: w, MinBlocks: 10, MaxBlocks: 30, MaxOps: 3, AbsentPM: 60, BadVarPM: 40, Setup: true, ThoroughScale: 3, Genesis: genesis, Prefix: prefix,
		GapW: []int{2, 3, 10, 30, 3, 3, 2, 2, 5, 2, 1, 0, 1, 0, 6}}
	return p
}

func TestC11_Slashing(t *testing.T) {
	runHistoryProp(t, "C11", "TestC11_Slashing",
		"histories of reports, disputes on stored / altered / invented reports in all categories with full, partial, multi-payer and from-stake fees, and staking changes (redelegation, undelegation, validators leaving) between report and dispute; exact shares at the funding event; non-trivial = a funded dispute with >=2 backers and a staking event after a report, or a funding attempt on an altered report; distinct by SHA-256 of the history JSON",
		slashProfile(), func() Monitor { return &slashMonitor{} })
}
