package chain

// C17 — vote-extension data reaches state only as signed; proposals stay coherent.
// Oracles: (1) Process(Prepare(commit)) = ACCEPT on every block of every history (the engine
// reports a rejection or a handler panic as a halt of phase Prepare/Process/Verify/Extend);
// (2) every single-element mutation of the three injected data groups is rejected;
// (3) the diff of the three bridge maps across the PreBlocker equals exactly the data carried by
// the commit's accepted extensions, in the sender's own slot; (4) no panic anywhere.

import (
	"bytes"

	"crypto/ecdsa"
	"crypto/sha256"
	"encoding/hex"
	"encoding/json"
	"fmt"
	"pgregory.net/rapid"
	"reflect"
	"strings"
	"testing"

	cmtproto "github.com/cometbft/cometbft/proto/tendermint/types"
	"github.com/ethereum/go-ethereum/crypto"

	layerapp "github.com/tellor-io/layer/app"
	bridgetypes "github.com/tellor-io/layer/x/bridge/types"

	"verif/harness/pbt"
)

type bridgeSnap struct {
	evm    map[string][]byte   // operator -> evm address
	valsig map[uint64][][]byte // checkpoint timestamp -> slots
	attest map[string][][]byte // snapshot -> slots
	curSet [][]byte            // addresses of the last saved bridge validator set
	prevOf map[uint64][][]byte // checkpoint timestamp -> addresses of the previous set (nil for index 0)
}

func snapBridge(c *Chain) *bridgeSnap {
	ctx := c.Ctx()
	bk := c.App.BridgeKeeper
	s := &bridgeSnap{evm: map[string][]byte{}, valsig: map[uint64][][]byte{}, attest: map[string][][]byte{}, prevOf: map[uint64][][]byte{}}
	_ = bk.OperatorToEVMAddressMap.Walk(ctx, nil, func(k string, v bridgetypes.EVMAddress) (bool, error) {
		s.evm[k] = append([]byte(nil), v.EVMAddress...)
		return false, nil
	})
	_ = bk.BridgeValsetSignaturesMap.Walk(ctx, nil, func(ts uint64, v bridgetypes.BridgeValsetSignatures) (bool, error) {
		s.valsig[ts] = cloneSlots(v.Signatures)
		return false, nil
	})
	_ = bk.SnapshotToAttestationsMap.Walk(ctx, nil, func(k []byte, v bridgetypes.OracleAttestations) (bool, error) {
		s.attest[string(k)] = cloneSlots(v.Attestations)
		return false, nil
	})
	if vs, err := bk.BridgeValset.Get(ctx); err == nil {
		for _, m := range vs.BridgeValidatorSet {
			s.curSet = append(s.curSet, m.EthereumAddress)
		}
	}
	_ = bk.ValsetTimestampToIdxMap.Walk(ctx, nil, func(ts uint64, idx bridgetypes.CheckpointIdx) (bool, error) {
		if idx.Index == 0 {
			s.prevOf[ts] = nil
			return false, nil
		}
		if pts, err := bk.ValidatorCheckpointIdxMap.Get(ctx, idx.Index-1); err == nil {
			if pv, err := bk.BridgeValsetByTimestampMap.Get(ctx, pts.Timestamp); err == nil {
				var addrs [][]byte
				for _, m := range pv.BridgeValidatorSet {
					addrs = append(addrs, m.EthereumAddress)
				}
				s.prevOf[ts] = addrs
			}
		}
		return false, nil
	})
	return s
}

func cloneSlots(in [][]byte) [][]byte {
	out := make([][]byte, len(in))
	for i, b := range in {
		out[i] = append([]byte(nil), b...)
	}
	return out
}

// recoverInitial is the reference for "the address recovered from that validator's signatures":
// both signatures are r||s over sha256(sha256(text)); the address is the one both can recover to.
func recoverInitial(sigA, sigB []byte) ([]byte, bool) {
	if len(sigA) < 64 || len(sigB) < 64 {
		return nil, false
	}
	cands := func(sig []byte, text string) [][]byte {
		h1 := sha256.Sum256([]byte(text))
		h2 := sha256.Sum256(h1[:])
		var out [][]byte
		for _, v := range []byte{0, 1} {
			full := append(append([]byte(nil), sig[:64]...), v)
			pub, err := crypto.SigToPub(h2[:], full)
			if err != nil {
				return nil // the chain gives up on the whole signature if one id fails
			}
			out = append(out, crypto.PubkeyToAddress(*pub).Bytes())
		}
		return out
	}
	a := cands(sigA, "TellorLayer: Initial bridge signature A")
	b := cands(sigB, "TellorLayer: Initial bridge signature B")
	if a == nil || b == nil {
		return nil, false
	}
	for _, x := range a {
		for _, y := range b {
			if bytes.Equal(x, y) {
				return x, true
			}
		}
	}
	return nil, false
}

type voteextMonitor struct {
	BaseMonitor
	before      *bridgeSnap
	commit      []CommitVote
	probeViol   *pbt.Violation
	richCommits int
	mutTried    int
	mutRejected int
	hostile     int
	kindsSeen   map[string]bool
	replayed    int
}

func (m *voteextMonitor) Init(c *Chain, w *World) *pbt.Violation {
	m.kindsSeen = map[string]bool{}
	c.ProposalProbe = func(h int64, txs [][]byte, try func([][]byte) (bool, *HaltInfo)) {
		if m.probeViol != nil || len(txs) == 0 {
			return
		}
		var inj layerapp.VoteExtTx
		if err := json.Unmarshal(txs[0], &inj); err != nil {
			return
		}
		for _, mu := range mutationsOf(inj) {
			bz, err := json.Marshal(mu.tx)
			if err != nil {
				continue
			}
			cand := append([][]byte{bz}, txs[1:]...)
			m.mutTried++
			ok, hi := try(cand)
			if hi != nil {
				m.probeViol = pbt.Violf("C17/process-proposal-failed/mutated/"+mu.name, "height %d: ProcessProposal on a mutated proposal (%s) returned an error or panicked: %s\n%s", h, mu.name, hi.Err, firstLines(hi.Stack, 20))
				return
			}
			if ok {
				m.probeViol = pbt.Violf("C17/mutated-proposal-accepted/"+mu.name, "height %d: a proposal whose injected data differs from the commit (%s) was ACCEPTED", h, mu.name)
				return
			}
			m.mutRejected++
		}
	}
	return nil
}

type mutated struct {
	name string
	tx   layerapp.VoteExtTx
}

func cloneTx(t layerapp.VoteExtTx) layerapp.VoteExtTx {
	bz, _ := json.Marshal(t)
	var out layerapp.VoteExtTx
	_ = json.Unmarshal(bz, &out)
	return out
}

// mutationsOf enumerates every single-element mutation of the three injected data groups.
func mutationsOf(orig layerapp.VoteExtTx) []mutated {
	var out []mutated
	add := func(name string, f func(t *layerapp.VoteExtTx)) {
		t := cloneTx(orig)
		f(&t)
		if !reflect.DeepEqual(t.OpAndEVMAddrs, orig.OpAndEVMAddrs) || !reflect.DeepEqual(t.ValsetSigs, orig.ValsetSigs) || !reflect.DeepEqual(t.OracleAttestations, orig.OracleAttestations) {
			out = append(out, mutated{name, t})
		}
	}
	flipHex := func(s string) string {
		if len(s) == 0 {
			return "00"
		}
		b := []byte(s)
		i := len(b) - 1
		if b[i] == '0' {
			b[i] = '1'
		} else {
			b[i] = '0'
		}
		return string(b)
	}
	// EVM registrations
	add("evm/append", func(t *layerapp.VoteExtTx) {
		t.OpAndEVMAddrs.OperatorAddresses = append(t.OpAndEVMAddrs.OperatorAddresses, "tellorvaloper1qqqqqqqqqqqqqqqqqqqqqqqqqqqqqqqqyfzj50")
		t.OpAndEVMAddrs.EVMAddresses = append(t.OpAndEVMAddrs.EVMAddresses, "0x00000000000000000000000000000000000000AA")
	})
	if n := len(orig.OpAndEVMAddrs.OperatorAddresses); n > 0 {
		add("evm/remove", func(t *layerapp.VoteExtTx) {
			t.OpAndEVMAddrs.OperatorAddresses = t.OpAndEVMAddrs.OperatorAddresses[:n-1]
			t.OpAndEVMAddrs.EVMAddresses = t.OpAndEVMAddrs.EVMAddresses[:n-1]
		})
		add("evm/alter-address", func(t *layerapp.VoteExtTx) {
			t.OpAndEVMAddrs.EVMAddresses[0] = flipHex(t.OpAndEVMAddrs.EVMAddresses[0])
		})
		add("evm/alter-operator", func(t *layerapp.VoteExtTx) {
			t.OpAndEVMAddrs.OperatorAddresses[0] = "tellorvaloper1qqqqqqqqqqqqqqqqqqqqqqqqqqqqqqqqyfzj50"
		})
		if n > 1 {
			add("evm/swap", func(t *layerapp.VoteExtTx) {
				t.OpAndEVMAddrs.EVMAddresses[0], t.OpAndEVMAddrs.EVMAddresses[1] = t.OpAndEVMAddrs.EVMAddresses[1], t.OpAndEVMAddrs.EVMAddresses[0]
			})
		}
	}
	// valset signatures
	add("valsig/append", func(t *layerapp.VoteExtTx) {
		t.ValsetSigs.OperatorAddresses = append(t.ValsetSigs.OperatorAddresses, "tellorvaloper1qqqqqqqqqqqqqqqqqqqqqqqqqqqqqqqqyfzj50")
		t.ValsetSigs.Timestamps = append(t.ValsetSigs.Timestamps, 1)
		t.ValsetSigs.Signatures = append(t.ValsetSigs.Signatures, "00")
	})
	if n := len(orig.ValsetSigs.OperatorAddresses); n > 0 {
		add("valsig/remove", func(t *layerapp.VoteExtTx) {
			t.ValsetSigs.OperatorAddresses = t.ValsetSigs.OperatorAddresses[:n-1]
			t.ValsetSigs.Timestamps = t.ValsetSigs.Timestamps[:n-1]
			t.ValsetSigs.Signatures = t.ValsetSigs.Signatures[:n-1]
		})
		add("valsig/alter-timestamp", func(t *layerapp.VoteExtTx) { t.ValsetSigs.Timestamps[0]++ })
		add("valsig/alter-signature", func(t *layerapp.VoteExtTx) { t.ValsetSigs.Signatures[0] = flipHex(t.ValsetSigs.Signatures[0]) })
		if n > 1 {
			add("valsig/swap-operators", func(t *layerapp.VoteExtTx) {
				t.ValsetSigs.OperatorAddresses[0], t.ValsetSigs.OperatorAddresses[1] = t.ValsetSigs.OperatorAddresses[1], t.ValsetSigs.OperatorAddresses[0]
			})
		}
	}
	// oracle attestations
	add("attest/append", func(t *layerapp.VoteExtTx) {
		t.OracleAttestations.OperatorAddresses = append(t.OracleAttestations.OperatorAddresses, "tellorvaloper1qqqqqqqqqqqqqqqqqqqqqqqqqqqqqqqqyfzj50")
		t.OracleAttestations.Attestations = append(t.OracleAttestations.Attestations, []byte{1})
		t.OracleAttestations.Snapshots = append(t.OracleAttestations.Snapshots, []byte{2})
	})
	if n := len(orig.OracleAttestations.OperatorAddresses); n > 0 {
		add("attest/remove", func(t *layerapp.VoteExtTx) {
			t.OracleAttestations.OperatorAddresses = t.OracleAttestations.OperatorAddresses[:n-1]
			t.OracleAttestations.Attestations = t.OracleAttestations.Attestations[:n-1]
			t.OracleAttestations.Snapshots = t.OracleAttestations.Snapshots[:n-1]
		})
		add("attest/alter-signature", func(t *layerapp.VoteExtTx) {
			t.OracleAttestations.Attestations[0] = append(append([]byte(nil), t.OracleAttestations.Attestations[0]...), 0x7)
		})
		add("attest/alter-snapshot", func(t *layerapp.VoteExtTx) {
			t.OracleAttestations.Snapshots[0] = append(append([]byte(nil), t.OracleAttestations.Snapshots[0]...), 0x7)
		})
		if n > 1 {
			add("attest/swap-operators", func(t *layerapp.VoteExtTx) {
				t.OracleAttestations.OperatorAddresses[0], t.OracleAttestations.OperatorAddresses[n-1] = t.OracleAttestations.OperatorAddresses[n-1], t.OracleAttestations.OperatorAddresses[0]
			})
		}
	}
	return out
}

func (m *voteextMonitor) Before(c *Chain, w *World, txs []*BuiltTx) *pbt.Violation {
	m.before = snapBridge(c)
	m.commit = c.LastCommit()
	return nil
}

func indexOfAddr(set [][]byte, a []byte) int {
	for i, x := range set {
		if bytes.Equal(x, a) {
			return i
		}
	}
	return -1
}

func (m *voteextMonitor) After(c *Chain, w *World, br *BlockResult, outs []TxOutcome) *pbt.Violation {
	if m.probeViol != nil {
		v := m.probeViol
		m.probeViol = nil
		return v
	}
	if br.Halt != nil {
		switch br.Halt.Phase {
		case "PrepareProposal", "ProcessProposal", "VerifyVoteExtension", "ExtendVote":
			sig := "C17/handler-failed/" + br.Halt.Phase
			if strings.Contains(br.Halt.Err, "honest proposal rejected") {
				sig = "C17/honest-proposal-rejected"
			} else if strings.Contains(br.Halt.Err, "lacks the injected") {
				sig = "C17/prepare-handler-panicked"
			}
			return pbt.Violf(sig, "block %d: %s: %s\n%s", br.Height, br.Halt.Phase, br.Halt.Err, firstLines(br.Halt.Stack, 25))
		}
		return nil // other halts belong to C02
	}
	after := snapBridge(c)
	b := m.before
	// expected writes of the PreBlocker, from the commit's accepted extensions
	expEVM := map[string][]byte{}
	type slotKey struct {
		key string
		idx int
	}
	expSig := map[slotKey][]byte{}
	expAtt := map[slotKey][]byte{}
	kinds := 0
	carrying := 0
	evmNow := func(op string) []byte { // address visible to the signature/attestation setters (registrations are applied first)
		if a, ok := b.evm[op]; ok {
			return a
		}
		return expEVM[op]
	}
	type parsed struct {
		op  string
		ext layerapp.BridgeVoteExtension
	}
	var exts []parsed
	for _, cv := range m.commit {
		if cv.Flag != cmtproto.BlockIDFlagCommit {
			var e layerapp.BridgeVoteExtension
			if cv.Flag == cmtproto.BlockIDFlagNil && len(cv.Ext) > 0 && json.Unmarshal(cv.Ext, &e) == nil {
				m.kindsSeen["nil-vote-with-data"] = true
				if _, registered := b.evm[cv.Val.ValAddr.String()]; !registered && len(e.InitialSignature.SignatureA) > 0 {
					m.kindsSeen["nil-vote-with-initial-signatures-of-unregistered-validator"] = true
				}
			}
			continue
		}
		var e layerapp.BridgeVoteExtension
		if err := json.Unmarshal(cv.Ext, &e); err != nil {
			m.hostile++
			continue
		}
		exts = append(exts, parsed{cv.Val.ValAddr.String(), e})
	}
	for _, p := range exts {
		if len(p.ext.InitialSignature.SignatureA) > 0 {
			if addr, ok := recoverInitial(p.ext.InitialSignature.SignatureA, p.ext.InitialSignature.SignatureB); ok {
				if _, registered := b.evm[p.op]; !registered {
					expEVM[p.op] = addr
				}
			}
		}
	}
	for _, p := range exts {
		k := 0
		if len(p.ext.InitialSignature.SignatureA) > 0 {
			k++
			m.kindsSeen["initial"] = true
		}
		if len(p.ext.ValsetSignature.Signature) > 0 {
			k++
			m.kindsSeen["valset"] = true
			ts := p.ext.ValsetSignature.Timestamp
			if slots, ok := b.valsig[ts]; ok {
				if prev, ok2 := b.prevOf[ts]; ok2 && prev != nil {
					if a := evmNow(p.op); a != nil {
						for j, member := range prev { // the code writes every matching member index
							if bytes.Equal(member, a) && j < len(slots) {
								expSig[slotKey{fmt.Sprint(ts), j}] = p.ext.ValsetSignature.Signature
							}
						}
					}
				}
			}
		}
		if len(p.ext.OracleAttestations) > 0 {
			k++
			m.kindsSeen["attestation"] = true
			for _, at := range p.ext.OracleAttestations {
				if slots, ok := b.attest[string(at.Snapshot)]; ok {
					if a := evmNow(p.op); a != nil {
						for i, member := range b.curSet {
							if bytes.Equal(member, a) && i < len(slots) {
								expAtt[slotKey{string(at.Snapshot), i}] = at.Attestation
							}
						}
					}
				}
			}
		}
		if k > 0 {
			carrying++
			kinds += k
		}
	}
	dataKinds := 0
	for _, k := range []string{"initial", "valset", "attestation"} {
		if m.kindsSeen[k] {
			dataKinds++
		}
	}
	if carrying >= 2 && dataKinds >= 2 {
		m.richCommits++
	}
	// (3a) EVM address map: existing untouched, new entries exactly the expected ones
	for op, a := range b.evm {
		if na, ok := after.evm[op]; !ok || !bytes.Equal(na, a) {
			return pbt.Violf("C17/registration/existing-entry-changed", "block %d: EVM address of %s changed from %x to %x", br.Height, op, a, na)
		}
	}
	for op, na := range after.evm {
		if _, existed := b.evm[op]; existed {
			continue
		}
		want, ok := expEVM[op]
		if !ok {
			return pbt.Violf("C17/registration/unexpected-entry", "block %d: operator %s was registered with %x but its extension carried no recoverable initial signatures", br.Height, op, na)
		}
		if !bytes.Equal(want, na) {
			return pbt.Violf("C17/registration/wrong-address", "block %d: operator %s registered with %x, its signatures recover to %x", br.Height, op, na, want)
		}
	}
	for op, want := range expEVM {
		if _, ok := after.evm[op]; !ok {
			return pbt.Violf("C17/registration/missing", "block %d: operator %s sent recoverable initial signatures (address %x) in an accepted extension but was not registered", br.Height, op, want)
		}
	}
	// registered from its OWN signatures: an address recovered from signatures that another validator's key produced
	for op, na := range after.evm {
		if _, existed := b.evm[op]; existed {
			continue
		}
		for _, v := range c.Validators {
			if v.ValAddr.String() == op {
				own := crypto.PubkeyToAddress(*mustECDSAPub(v)).Bytes()
				if !bytes.Equal(own, na) {
					m.replayed++
					sig := "C17/registration/replayed-foreign-signatures"
					if !pbt.IsKnown("C17", sig) {
						return pbt.Violf(sig, "block %d: operator %s was registered with EVM address %x, which is not the address of its own key (%x): it sent initial signatures produced by another validator's key (the signed messages are constants)", br.Height, op, na, own)
					}
				}
			}
		}
	}
	// (3b) valset signature slots that existed before: changed slots == expected slots
	for ts, slots := range b.valsig {
		ns, ok := after.valsig[ts]
		if !ok || len(ns) != len(slots) {
			return pbt.Violf("C17/valset-signatures/array-replaced", "block %d: signature array of checkpoint %d changed shape (%d -> %d slots)", br.Height, ts, len(slots), len(ns))
		}
		for j := range slots {
			want, expected := expSig[slotKey{fmt.Sprint(ts), j}]
			if expected {
				if !bytes.Equal(ns[j], want) {
					return pbt.Violf("C17/valset-signatures/accepted-signature-not-stored", "block %d: checkpoint %d slot %d holds %x, the slot owner's accepted extension carried %x", br.Height, ts, j, ns[j], want)
				}
			} else if !bytes.Equal(ns[j], slots[j]) {
				return pbt.Violf("C17/valset-signatures/foreign-slot-written", "block %d: checkpoint %d slot %d changed from %x to %x but no accepted extension of that slot's validator carried it", br.Height, ts, j, slots[j], ns[j])
			}
		}
	}
	// (3c) attestation slots
	for snap, slots := range b.attest {
		ns, ok := after.attest[snap]
		if !ok || len(ns) != len(slots) {
			return pbt.Violf("C17/attestations/array-replaced", "block %d: attestation array of snapshot %x changed shape", br.Height, snap)
		}
		for i := range slots {
			want, expected := expAtt[slotKey{snap, i}]
			if expected {
				if !bytes.Equal(ns[i], want) {
					return pbt.Violf("C17/attestations/accepted-attestation-not-stored", "block %d: snapshot %x slot %d holds %x, the slot owner's accepted extension carried %x", br.Height, snap, i, ns[i], want)
				}
			} else if !bytes.Equal(ns[i], slots[i]) {
				return pbt.Violf("C17/attestations/foreign-slot-written", "block %d: snapshot %x slot %d changed from %x to %x without an accepted attestation of that slot's validator", br.Height, snap, i, slots[i], ns[i])
			}
		}
	}
	return nil
}

func mustECDSAPub(v *Validator) *ecdsa.PublicKey {
	k, err := crypto.ToECDSA(v.Operator.Priv.Bytes())
	if err != nil {
		panic(err)
	}
	return &k.PublicKey
}

func (m *voteextMonitor) Classify(info *pbt.CaseInfo) {
	info.Nontrivial = m.richCommits > 0 && m.mutRejected > 0
	for k := range m.kindsSeen {
		info.Classes = append(info.Classes, "data:"+k)
	}
	sortStrings(info.Classes)
	if m.hostile > 0 {
		info.Classes = append(info.Classes, "undecodable-extension-in-commit")
	}
	if m.replayed > 0 {
		info.Classes = append(info.Classes, "known:replayed-foreign-signatures")
	}
	info.Note = map[string]int{"mutated_proposals_tried": m.mutTried, "rejected": m.mutRejected}
}

func voteextProfile() *Profile {
	w := map[string]int{
		OpTip: 8, OpSubmit: 30, OpReqAttest: 10, OpDelegate: 8, OpUndelegate: 6, OpRedelegate: 3, OpCreateVal: 4, OpUnjailVal: 2,
		OpCreateReporter: 2, OpSelectReporter: 2, OpPropose: 2, OpVote: 2, OpWithdrawTokens: 3,
	}
	p := &Profile{Name: "voteext", Weights: w, MinBlocks: 10, MaxBlocks: 30, MaxOps: 4, AbsentPM: 0, BadVarPM: 40, Setup: true, ThoroughScale: 3,
		GapW: []int{2, 3, 10, 25, 3, 2, 2, 6, 4, 2, 1, 3, 1, 0}}
	// validators that do not register in the bootstrap: absent until block lateAt[v], then they send
	// lateMut[v] (hostile / replayed / mixed / honest initial signatures). Shared between the two
	// generator hooks of one case (rapid draws a case sequentially).
	var lateAt, lateMut, lateArg map[int]int
	var lateNil map[int]bool // the late validator's first appearance is a nil precommit that carries its (unsigned) extension
	p.Genesis = func(t *rapid.T) GenesisCfg {
		cfg := GenGenesis(t)
		lateAt, lateMut, lateArg, lateNil = map[int]int{}, map[int]int{}, map[int]int{}, map[int]bool{}
		var boot []VoteSpec
		for v := 1; v < cfg.NumValidators; v++ { // validator 0 always registers (a chain without any registered validator halts at height 2)
			if uni(t, "late", 3) == 0 {
				boot = append(boot, VoteSpec{Val: v, Mode: 1})
				lateAt[v] = uni(t, "lateAt", 10)
				lateMut[v] = []int{0, 1, 2, 2, 3, 4, 15, 15}[uni(t, "lateMut", 8)]
				lateArg[v] = uni(t, "lateArg", 64)
				lateNil[v] = uni(t, "lateNil", 3) == 0
			}
		}
		cfg.BootVotes = [][]VoteSpec{boot, boot}
		return cfg
	}
	p.VoteGen = func(pick func(string, int) int, numVals int, blockIdx int) []VoteSpec {
		var out []VoteSpec
		used := map[int]bool{}
		for v, at := range lateAt {
			_ = v
			_ = at
		}
		for v := 1; v < numVals; v++ {
			at, late := lateAt[v]
			if !late {
				continue
			}
			if blockIdx < at {
				out = append(out, VoteSpec{Val: v, Mode: 1})
				used[v] = true
			} else if blockIdx == at && lateNil[v] {
				// initial signatures on a nil precommit: nobody verified these bytes, they must not register anything
				out = append(out, VoteSpec{Val: v, Mode: 6, Mut: 15, Arg: lateArg[v]})
				used[v] = true
			} else if blockIdx == at || (blockIdx == at+1 && lateNil[v]) {
				out = append(out, VoteSpec{Val: v, Mode: 5, Mut: lateMut[v], Arg: lateArg[v]})
				used[v] = true
			}
		}
		n := []int{0, 1, 1, 2, 3}[pick("nbad", 5)]
		for i := 0; i < n; i++ {
			vs := VoteSpec{Val: pick("val", numVals)}
			if used[vs.Val] {
				continue
			}
			used[vs.Val] = true
			switch pick("mode", 11) {
			case 0:
				vs.Mode = 1
			case 1:
				vs.Mode = 2
			case 10:
				// nil precommit carrying unsigned extension data (mostly the honest payload: attestations, valset signature)
				vs.Mode = 6
				vs.Mut = []int{15, 15, 4, 8, 2}[pick("nilmut", 5)]
				vs.Arg = pick("nilarg", 64)
			case 2:
				vs.Mode = 4
			default:
				vs.Mode = 5
				vs.Mut = pick("mut", 16)
				vs.Arg = pick("arg", 64)
			}
			out = append(out, vs)
		}
		return out
	}
	p.Shape = func(t *rapid.T, op *Op) {
		// a quarter of the attestation requests ask for the same report twice at one height
		if op.K == OpReqAttest && op.V == 0 && uni(t, "requestTwice", 4) == 0 {
			op.S = "twice"
		}
	}
	return p
}

func TestC17_VoteExtensions(t *testing.T) {
	runHistoryProp(t, "C17", "TestC17_VoteExtensions",
		"histories over 3-7 validators with aggregates, attestation requests, staking changes and late validators; per block 0-3 validators are absent / vote nil / use the real ExtendVoteHandler / send a structure-aware mutation of the honest extension (16 kinds: hostile signature lengths 0,1,32,63,64,65,66,200, replayed or mixed initial signatures, foreign or duplicated snapshots, truncated and non-JSON bytes, oversized lists); every single-element mutation of the injected proposal is probed against ProcessProposal on the same state; non-trivial = a commit with >=2 data-carrying extensions and >=2 kinds of data seen, and >=1 mutated proposal probed; distinct by SHA-256 of the history JSON",
		voteextProfile(), func() Monitor { return &voteextMonitor{} })
}

var _ = hex.EncodeToString
