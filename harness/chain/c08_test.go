package chain

// C08 — aggregate history is append-only, time-ordered and correctly retrievable.
//
// Oracle: a list model per query, rebuilt from the per-block diff of the whole Aggregates
// collection (key = (query id, timestamp ms)):
//   - nothing is removed; nothing is altered except Flagged false->true, and that only in a block
//     in which a dispute became funded (first left Prevote) or evidence was accepted that names the
//     report which determined the aggregate (query id, micro height, reporter at AggregateReportIndex);
//     conversely such a dispute/evidence on an aggregate that already exists must flag it;
//   - new entries of a query have a timestamp greater than every older entry and Index = previous+1.
// After every block the lookups (current, before T, by index, timestamp before/after T, exact
// timestamp, by height, and the gRPC GetDataBefore / RetrieveData / GetCurrentAggregateReport) are
// compared on a probe set with what the list implies ("before T" = strictly before, skipping flagged
// entries; "timestamp before/after" = strict list neighbours incl. flagged entries; "by index" =
// 0-based position in the chronological list, as ClaimDeposit uses it). Every new entry of the bridge's
// AttestSnapshotDataMap must carry the list neighbours of (query, timestamp) at the moment it was made.

import (
	"bytes"
	"encoding/binary"
	"encoding/hex"
	"fmt"
	"math"
	"os"
	"sort"
	"testing"
	"time"

	"cosmossdk.io/collections"

	sdk "github.com/cosmos/cosmos-sdk/types"

	"pgregory.net/rapid"

	bridgetypes "github.com/tellor-io/layer/x/bridge/types"
	disputetypes "github.com/tellor-io/layer/x/dispute/types"
	oraclekeeper "github.com/tellor-io/layer/x/oracle/keeper"
	oracletypes "github.com/tellor-io/layer/x/oracle/types"

	"verif/harness/pbt"
)

type c08Entry struct {
	ts  uint64
	agg oracletypes.Aggregate
	bz  []byte // marshalled value as stored
}

// c08Just is one "this report was disputed in this block" fact.
type c08Just struct {
	qid      string
	reporter string // account bytes (or the raw string if it is not bech32)
	block    uint64
	strict   bool   // first-round dispute or evidence: FlagAggregateReport was invoked for it
	src      string // "dispute" | "evidence"
}

type c08Snap struct {
	qid        string
	ts         uint64
	prev, next uint64
	attest     uint64
}

type aggHistMonitor struct {
	BaseMonitor
	lists   map[string][]c08Entry // per query id, chronological; state after the last processed block
	order   []string              // query ids in first-seen order
	disp    map[uint64]disputetypes.DisputeStatus
	snaps   map[string]c08Snap
	histJ   map[string]bool // every report ever disputed (qid|reporter|block)
	querier oraclekeeper.Querier
	rot     int
	blocks  int
	// classification
	nAgg, nFlag, nWithdrawAgg, nSnapEnd, nSnapReq, nProbe, nLookups int
	nDisputeNonDet, nDisputeDet, nEvidenceFlag, nLateDispute        int
	probedEqual, probedBetween, probedAfterFlagged                  bool
	nontrivial                                                      bool
	maxLen                                                          int
}

func c08Key(qid []byte, ts uint64) string {
	var b [8]byte
	binary.BigEndian.PutUint64(b[:], ts)
	return string(qid) + "|" + string(b[:])
}

func c08Addr(s string) string {
	a, err := sdk.AccAddressFromBech32(s)
	if err != nil {
		return "raw:" + s
	}
	return string(a)
}

// determining returns the identity of the report that determined an aggregate.
func (e *c08Entry) determining() (reporter string, ok bool) {
	i := e.agg.AggregateReportIndex
	if i >= uint64(len(e.agg.Reporters)) || e.agg.Reporters[i] == nil {
		return "", false
	}
	return c08Addr(e.agg.Reporters[i].Reporter), true
}

// detHeight is the height at which the determining report was submitted, taken from the report's own
// entry in the aggregate's reporter list (not from the aggregate's micro-height field, which is the
// chain's bookkeeping for the very lookup under test); withdrawal aggregates have no reporters.
func (e *c08Entry) detHeight() uint64 {
	i := e.agg.AggregateReportIndex
	if i >= uint64(len(e.agg.Reporters)) || e.agg.Reporters[i] == nil {
		return e.agg.MicroHeight
	}
	return e.agg.Reporters[i].BlockNumber
}

func (m *aggHistMonitor) readAggregates(c *Chain, ctx sdk.Context) (map[string]c08Entry, []string, error) {
	cur := map[string]c08Entry{}
	var keys []string
	err := c.App.OracleKeeper.Aggregates.Walk(ctx, nil, func(k collections.Pair[[]byte, uint64], v oracletypes.Aggregate) (bool, error) {
		bz, err := v.Marshal()
		if err != nil {
			return true, err
		}
		key := c08Key(k.K1(), k.K2())
		cur[key] = c08Entry{ts: k.K2(), agg: v, bz: bz}
		keys = append(keys, key)
		return false, nil
	})
	return cur, keys, err
}

func (m *aggHistMonitor) readDisputes(c *Chain, ctx sdk.Context) map[uint64]disputetypes.Dispute {
	out := map[uint64]disputetypes.Dispute{}
	_ = c.App.DisputeKeeper.Disputes.Walk(ctx, nil, func(id uint64, d disputetypes.Dispute) (bool, error) {
		out[id] = d
		return false, nil
	})
	return out
}

func (m *aggHistMonitor) readSnaps(c *Chain, ctx sdk.Context) (map[string]c08Snap, []string) {
	out := map[string]c08Snap{}
	var keys []string
	_ = c.App.BridgeKeeper.AttestSnapshotDataMap.Walk(ctx, nil, func(k []byte, v bridgetypes.AttestationSnapshotData) (bool, error) {
		out[string(k)] = c08Snap{qid: string(v.QueryId), ts: v.Timestamp, prev: v.PrevReportTimestamp, next: v.NextReportTimestamp, attest: v.AttestationTimestamp}
		keys = append(keys, string(k))
		return false, nil
	})
	return out, keys
}

func (m *aggHistMonitor) Init(c *Chain, w *World) *pbt.Violation {
	m.lists = map[string][]c08Entry{}
	m.disp = map[uint64]disputetypes.DisputeStatus{}
	m.histJ = map[string]bool{}
	m.querier = oraclekeeper.NewQuerier(c.App.OracleKeeper)
	ctx := c.Ctx()
	cur, keys, err := m.readAggregates(c, ctx)
	if err != nil {
		return pbt.Violf("C08/harness/aggregates-unreadable", "init: %v", err)
	}
	for _, k := range keys { // key order = (query id, timestamp)
		e := cur[k]
		q := string(e.agg.QueryId)
		if _, ok := m.lists[q]; !ok {
			m.order = append(m.order, q)
		}
		m.lists[q] = append(m.lists[q], e)
	}
	for id, d := range m.readDisputes(c, ctx) {
		m.disp[id] = d.DisputeStatus
	}
	m.snaps, _ = m.readSnaps(c, ctx)
	return nil
}

// neighbours in a list (all entries, flagged or not); 0 = none
func c08Neighbours(list []c08Entry, t uint64) (prev, next uint64) {
	for _, e := range list {
		if e.ts < t {
			prev = e.ts
		}
		if e.ts > t && next == 0 {
			next = e.ts
		}
	}
	return
}

func (m *aggHistMonitor) After(c *Chain, w *World, br *BlockResult, outs []TxOutcome) *pbt.Violation {
	if br.Halt != nil {
		return nil // halts belong to C02
	}
	m.blocks++
	ctx := c.Ctx()
	cur, keys, err := m.readAggregates(c, ctx)
	if err != nil {
		return pbt.Violf("C08/harness/aggregates-unreadable", "block %d: %v", br.Height, err)
	}

	// ---- what was disputed in this block
	var J []c08Just
	disputes := m.readDisputes(c, ctx)
	var dids []uint64
	for id := range disputes {
		dids = append(dids, id)
	}
	sort.Slice(dids, func(i, j int) bool { return dids[i] < dids[j] })
	for _, id := range dids {
		d := disputes[id]
		prevSt, existed := m.disp[id]
		// funded in this block: left (or skipped) Prevote other than by expiring unfunded (Failed, set in BeginBlock)
		if d.DisputeStatus != disputetypes.Prevote && d.DisputeStatus != disputetypes.Failed && (!existed || prevSt == disputetypes.Prevote) {
			ev := d.InitialEvidence
			J = append(J, c08Just{qid: string(ev.QueryId), reporter: c08Addr(ev.Reporter), block: ev.BlockNumber, strict: d.DisputeRound == 1, src: "dispute"})
		}
		m.disp[id] = d.DisputeStatus
	}
	for _, o := range outs {
		if !o.OK() || len(o.Tx.Msgs) == 0 {
			continue
		}
		for _, msg := range o.Tx.Msgs {
			if ev, ok := msg.(*disputetypes.MsgAddEvidence); ok {
				for _, r := range ev.Reports {
					if r != nil {
						J = append(J, c08Just{qid: string(r.QueryId), reporter: c08Addr(r.Reporter), block: r.BlockNumber, strict: true, src: "evidence"})
					}
				}
			}
		}
	}
	justified := func(e *c08Entry) (bool, string) {
		rep, ok := e.determining()
		why := "no-dispute-or-evidence-in-block"
		for _, j := range J {
			if j.qid != string(e.agg.QueryId) {
				if why == "no-dispute-or-evidence-in-block" {
					why = "dispute-names-another-query"
				}
				continue
			}
			if j.block != e.detHeight() {
				if why != "dispute-names-another-reporter-at-that-height" {
					why = "dispute-names-another-height"
				}
				continue
			}
			if !ok || j.reporter != rep {
				why = "dispute-names-another-reporter-at-that-height"
				continue
			}
			return true, j.src
		}
		return false, why
	}

	// ---- diff against the model
	prevLists := m.lists
	newLists := map[string][]c08Entry{}
	changed := map[string]bool{}
	for q, l := range prevLists {
		nl := make([]c08Entry, len(l))
		for i := range l {
			old := l[i]
			key := c08Key(old.agg.QueryId, old.ts)
			now, ok := cur[key]
			if !ok {
				return pbt.Violf("C08/aggregate-removed", "block %d: aggregate (query %x, timestamp %d, index %d) existed after the previous block and is gone", br.Height, old.agg.QueryId, old.ts, old.agg.Index)
			}
			if !bytes.Equal(now.bz, old.bz) {
				cmp := now.agg
				onlyFlag := !old.agg.Flagged && now.agg.Flagged
				cmp.Flagged = old.agg.Flagged
				cb, _ := cmp.Marshal()
				if !onlyFlag || !bytes.Equal(cb, old.bz) {
					return pbt.Violf("C08/aggregate-altered", "block %d: stored aggregate (query %x, timestamp %d) changed other than flagged false->true:\n before %s\n after  %s", br.Height, old.agg.QueryId, old.ts, old.agg.String(), now.agg.String())
				}
				ok, why := justified(&old)
				if !ok {
					return pbt.Violf("C08/flagged-without-dispute-of-determining-report/"+why, "block %d: aggregate (query %x, timestamp %d, micro height %d, determining reporter index %d of %d reporters) became flagged, but the disputes funded / evidence accepted in this block are %s", br.Height, old.agg.QueryId, old.ts, old.agg.MicroHeight, old.agg.AggregateReportIndex, len(old.agg.Reporters), c08DescribeJ(J))
				}
				m.nFlag++
				if why == "evidence" {
					m.nEvidenceFlag++
				}
				changed[q] = true
			}
			nl[i] = now
		}
		newLists[q] = nl
	}
	// converse for aggregates that existed before the block: a funded first-round dispute / accepted
	// evidence naming the determining report must leave the aggregate flagged
	for _, j := range J {
		for _, old := range prevLists[j.qid] {
			if old.detHeight() != j.block {
				continue
			}
			rep, ok := old.determining()
			if !ok {
				continue
			}
			if rep != j.reporter {
				m.nDisputeNonDet++
				continue
			}
			m.nDisputeDet++
			if now := cur[c08Key(old.agg.QueryId, old.ts)]; j.strict && !now.agg.Flagged {
				return pbt.Violf("C08/determining-report-disputed-but-not-flagged/"+j.src, "block %d: the report that determined aggregate (query %x, timestamp %d, micro height %d) was named by a %s in this block, but the aggregate is not flagged", br.Height, old.agg.QueryId, old.ts, old.agg.MicroHeight, j.src)
			}
		}
		m.histJ[fmt.Sprintf("%s|%s|%d", j.qid, j.reporter, j.block)] = true
	}
	// new entries, in key order (query id, timestamp)
	for _, key := range keys {
		e := cur[key]
		q := string(e.agg.QueryId)
		if l := prevLists[q]; len(l) > 0 {
			// already known?
			i := sort.Search(len(l), func(i int) bool { return l[i].ts >= e.ts })
			if i < len(l) && l[i].ts == e.ts {
				continue
			}
		}
		nl := newLists[q]
		if _, seen := newLists[q]; !seen {
			m.order = append(m.order, q)
		}
		if n := len(nl); n > 0 {
			last := nl[n-1]
			if e.ts <= last.ts {
				return pbt.Violf("C08/timestamp-not-increasing", "block %d: new aggregate of query %x has timestamp %d, not greater than the previous aggregate's %d", br.Height, e.agg.QueryId, e.ts, last.ts)
			}
			if e.agg.Index != last.agg.Index+1 {
				return pbt.Violf("C08/index-not-previous-plus-one", "block %d: new aggregate of query %x (timestamp %d) has index %d, the previous aggregate (timestamp %d) has %d", br.Height, e.agg.QueryId, e.ts, e.agg.Index, last.ts, last.agg.Index)
			}
		}
		newLists[q] = append(nl, e)
		changed[q] = true
		m.nAgg++
		if len(e.agg.Reporters) == 0 {
			m.nWithdrawAgg++
		}
		if rep, ok := e.determining(); ok && !e.agg.Flagged && m.histJ[fmt.Sprintf("%s|%s|%d", q, rep, e.detHeight())] {
			// Disputed before it was aggregated: the new aggregate is determined by an already disputed
			// report and starts unflagged. The statement speaks about stored aggregates being altered, so
			// this is counted only; VERIF_C08_LATE=1 turns it into a violation to obtain a shrunk example.
			m.nLateDispute++
			if os.Getenv("VERIF_C08_LATE") == "1" {
				return pbt.Violf("C08/observation/new-aggregate-determined-by-already-disputed-report-is-unflagged", "block %d: new aggregate (query %x, timestamp %d, micro height %d) is determined by the report of %x, which was disputed / given as evidence before this aggregation (earlier block or a transaction of this block), and is not flagged", br.Height, e.agg.QueryId, e.ts, e.agg.MicroHeight, rep)
			}
		}
	}
	m.lists = newLists

	// ---- snapshot neighbours
	snaps, skeys := m.readSnaps(c, ctx)
	nowMs := uint64(br.Time.UnixMilli())
	for _, k := range skeys {
		s := snaps[k]
		if old, ok := m.snaps[k]; ok && old == s {
			continue
		}
		where := "request"
		list := prevLists[s.qid]
		if s.ts == nowMs {
			// made in EndBlock for an aggregate of this very block (after the oracle's EndBlock)
			where = "end-block"
			list = newLists[s.qid]
			m.nSnapEnd++
		} else {
			m.nSnapReq++
		}
		ep, en := c08Neighbours(list, s.ts)
		if s.prev != ep {
			return pbt.Violf("C08/snapshot-previous-timestamp/"+where, "block %d: snapshot of (query %x, timestamp %d) records previous report timestamp %d, the list neighbour at snapshot time is %d (list %v)", br.Height, s.qid, s.ts, s.prev, ep, c08Ts(list))
		}
		if s.next != en {
			return pbt.Violf("C08/snapshot-next-timestamp/"+where, "block %d: snapshot of (query %x, timestamp %d) records next report timestamp %d, the list neighbour at snapshot time is %d (list %v)", br.Height, s.qid, s.ts, s.next, en, c08Ts(list))
		}
	}
	m.snaps = snaps

	// ---- lookups: every query whose list changed (at most 6), one unchanged query in rotation, sometimes an unknown query
	var probe []string
	for _, q := range m.order {
		if changed[q] && len(probe) < 6 {
			probe = append(probe, q)
		}
	}
	if len(m.order) > 0 {
		m.rot++
		q := m.order[m.rot%len(m.order)]
		if !changed[q] {
			probe = append(probe, q)
		}
	}
	for _, q := range probe {
		if v := m.probeQuery(c, ctx, br, []byte(q), m.lists[q]); v != nil {
			return v
		}
	}
	if m.blocks%5 == 1 {
		unknown := bytes.Repeat([]byte{0x5a}, 32)
		if _, ok := m.lists[string(unknown)]; !ok {
			if v := m.probeQuery(c, ctx, br, unknown, nil); v != nil {
				return v
			}
		}
	}
	// by height: this block, the previous one, the next one
	for _, h := range []uint64{uint64(br.Height), uint64(br.Height) - 1, uint64(br.Height) + 1, uint64(br.Height) - uint64(m.rot%7)} {
		if v := m.probeHeight(c, ctx, br, h); v != nil {
			return v
		}
	}
	for _, q := range m.order {
		l := m.lists[q]
		if len(l) > m.maxLen {
			m.maxLen = len(l)
		}
	}
	return nil
}

func c08Ts(l []c08Entry) []string {
	var out []string
	for _, e := range l {
		s := fmt.Sprint(e.ts)
		if e.agg.Flagged {
			s += "F"
		}
		out = append(out, s)
	}
	return out
}

func c08DescribeJ(J []c08Just) string {
	if len(J) == 0 {
		return "none"
	}
	s := ""
	for _, j := range J {
		s += fmt.Sprintf("[%s query %x reporter %x height %d] ", j.src, j.qid, j.reporter, j.block)
	}
	return s
}

// guarded call of a lookup (the getters panic on store errors)
func c08Call(f func()) (panicked any) {
	defer func() {
		if r := recover(); r != nil {
			panicked = r
		}
	}()
	f()
	return nil
}

func (m *aggHistMonitor) probeHeight(c *Chain, ctx sdk.Context, br *BlockResult, h uint64) *pbt.Violation {
	var want []string
	for _, q := range m.order {
		for _, e := range m.lists[q] {
			if e.agg.Height == h {
				want = append(want, string(e.bz))
			}
		}
	}
	var got []string
	if p := c08Call(func() {
		for _, a := range c.App.OracleKeeper.GetAggregatedReportsByHeight(ctx, h) {
			bz, _ := a.Marshal()
			got = append(got, string(bz))
		}
	}); p != nil {
		return pbt.Violf("C08/lookup-panicked/by-height", "block %d: GetAggregatedReportsByHeight(%d) panicked: %v", br.Height, h, p)
	}
	m.nLookups++
	sort.Strings(want)
	sort.Strings(got)
	if len(want) != len(got) {
		return pbt.Violf("C08/lookup/by-height/count", "block %d: GetAggregatedReportsByHeight(%d) returned %d aggregates, the lists hold %d with that height", br.Height, h, len(got), len(want))
	}
	for i := range want {
		if want[i] != got[i] {
			return pbt.Violf("C08/lookup/by-height/content", "block %d: GetAggregatedReportsByHeight(%d) returned an aggregate that differs from the stored ones of that height", br.Height, h)
		}
	}
	return nil
}

// probeQuery compares every lookup with the list on a probe set of timestamps and indexes.
func (m *aggHistMonitor) probeQuery(c *Chain, ctx sdk.Context, br *BlockResult, qid []byte, list []c08Entry) *pbt.Violation {
	k := c.App.OracleKeeper
	n := len(list)
	m.nProbe++
	qhex := hex.EncodeToString(qid)
	nFlagged := 0
	for _, e := range list {
		if e.agg.Flagged {
			nFlagged++
		}
	}
	same := func(got *oracletypes.Aggregate, want *c08Entry) bool {
		if got == nil {
			return false
		}
		bz, err := got.Marshal()
		return err == nil && bytes.Equal(bz, want.bz)
	}
	viol := func(getter, class, f string, a ...any) *pbt.Violation {
		return pbt.Violf("C08/lookup/"+getter+"/"+class, "block %d query %x list %v: "+f, append([]any{br.Height, qid, c08Ts(list)}, a...)...)
	}
	panicked := func(getter string, p any) *pbt.Violation {
		return pbt.Violf("C08/lookup-panicked/"+getter, "block %d query %x list %v: %v", br.Height, qid, c08Ts(list), p)
	}

	// current
	{
		var agg *oracletypes.Aggregate
		var ts time.Time
		var err error
		if p := c08Call(func() { agg, ts, err = k.GetCurrentAggregateReport(ctx, qid) }); p != nil {
			return panicked("current", p)
		}
		var resp *oracletypes.QueryGetCurrentAggregateReportResponse
		var gerr error
		if p := c08Call(func() {
			resp, gerr = m.querier.GetCurrentAggregateReport(ctx, &oracletypes.QueryGetCurrentAggregateReportRequest{QueryId: qhex})
		}); p != nil {
			return panicked("grpc-current", p)
		}
		m.nLookups += 2
		if n == 0 {
			if err == nil {
				return viol("current", "empty-list", "GetCurrentAggregateReport succeeded although the query has no aggregate")
			}
			if gerr == nil {
				return viol("grpc-current", "empty-list", "gRPC GetCurrentAggregateReport succeeded although the query has no aggregate")
			}
		} else {
			last := &list[n-1]
			if err != nil || !same(agg, last) || uint64(ts.UnixMilli()) != last.ts {
				return viol("current", "non-empty", "GetCurrentAggregateReport returned (%v, %d, err %v), the list's last entry is timestamp %d", agg, ts.UnixMilli(), err, last.ts)
			}
			if gerr != nil || resp == nil || !same(resp.Aggregate, last) || resp.Timestamp != last.ts {
				return viol("grpc-current", "non-empty", "gRPC GetCurrentAggregateReport returned (%v, err %v), the list's last entry is timestamp %d", resp, gerr, last.ts)
			}
		}
	}

	// by index: 0 .. n+1 (0-based position in the chronological list)
	for i := 0; i <= n+1; i++ {
		var agg *oracletypes.Aggregate
		var ts time.Time
		var err error
		if p := c08Call(func() { agg, ts, err = k.GetAggregateByIndex(ctx, qid, uint64(i)) }); p != nil {
			return panicked("by-index", p)
		}
		m.nLookups++
		if i < n {
			if err != nil || !same(agg, &list[i]) || uint64(ts.UnixMilli()) != list[i].ts {
				cls := "in-range"
				if i == 0 {
					cls = "first"
				} else if i == n-1 {
					cls = "last"
				}
				return viol("by-index", cls, "GetAggregateByIndex(%d) returned (%v, %d, err %v), position %d of the list is timestamp %d", i, agg, ts.UnixMilli(), err, i, list[i].ts)
			}
		} else if err == nil {
			return viol("by-index", "out-of-range", "GetAggregateByIndex(%d) succeeded with timestamp %d although the list has %d entries", i, ts.UnixMilli(), n)
		}
	}

	// timestamps
	tsSet := map[uint64]bool{0: true, math.MaxInt64: true, 1: true}
	lo := 0
	if n > 12 {
		lo = n - 10
		for _, e := range list[:2] {
			tsSet[e.ts-1], tsSet[e.ts], tsSet[e.ts+1] = true, true, true
		}
	}
	for i := lo; i < n; i++ {
		e := list[i]
		tsSet[e.ts-1], tsSet[e.ts], tsSet[e.ts+1] = true, true, true
		if i+1 < n && list[i+1].ts-e.ts >= 2 {
			tsSet[e.ts+(list[i+1].ts-e.ts)/2] = true
		}
	}
	for i := 0; i < lo; i++ { // always include flagged entries outside the window
		if e := list[i]; e.agg.Flagged {
			tsSet[e.ts], tsSet[e.ts+1] = true, true
		}
	}
	var probes []uint64
	for t := range tsSet {
		probes = append(probes, t)
	}
	sort.Slice(probes, func(i, j int) bool { return probes[i] < probes[j] })

	for _, T := range probes {
		// what the list implies
		var exact, before *c08Entry
		var tsPrev, tsNext uint64
		for i := range list {
			e := &list[i]
			if e.ts == T {
				exact = e
			}
			if e.ts < T {
				tsPrev = e.ts
				if !e.agg.Flagged {
					before = e
				}
			}
			if e.ts > T && tsNext == 0 {
				tsNext = e.ts
			}
		}
		class := "between"
		switch {
		case T == 0:
			class = "zero"
		case T == math.MaxInt64:
			class = "max"
		case n == 0:
			class = "empty-list"
		case exact != nil && exact.agg.Flagged:
			class = "equal-flagged"
		case exact != nil:
			class = "equal"
		case T < list[0].ts:
			class = "before-first"
		case T > list[n-1].ts:
			class = "after-last"
		}
		prevFlagged := false
		if tsPrev != 0 {
			for i := range list {
				if list[i].ts == tsPrev && list[i].agg.Flagged {
					prevFlagged = true
				}
			}
		}
		if prevFlagged {
			class += "+previous-flagged"
		}
		if n >= 3 && nFlagged >= 1 {
			if exact != nil {
				m.probedEqual = true
			} else if n > 0 && T > list[0].ts && T < list[n-1].ts {
				m.probedBetween = true
			}
			if prevFlagged {
				m.probedAfterFlagged = true
			}
		}
		tm := time.UnixMilli(int64(T))

		// before T (skips flagged) — keeper and gRPC "data before"
		{
			var agg *oracletypes.Aggregate
			var ts time.Time
			var err error
			if p := c08Call(func() { agg, ts, err = k.GetAggregateBefore(ctx, qid, tm) }); p != nil {
				return panicked("before", p)
			}
			var resp *oracletypes.QueryGetDataBeforeResponse
			var gerr error
			if p := c08Call(func() {
				resp, gerr = m.querier.GetDataBefore(ctx, &oracletypes.QueryGetDataBeforeRequest{QueryId: qhex, Timestamp: T})
			}); p != nil {
				return panicked("grpc-data-before", p)
			}
			m.nLookups += 2
			if before == nil {
				if err == nil {
					return viol("before", class, "GetAggregateBefore(%d) returned timestamp %d (flagged=%v) although the list has no unflagged entry before %d", T, ts.UnixMilli(), agg != nil && agg.Flagged, T)
				}
				if gerr == nil {
					return viol("grpc-data-before", class, "gRPC GetDataBefore(%d) returned timestamp %d although the list has no unflagged entry before %d", T, resp.Timestamp, T)
				}
			} else {
				if err != nil || !same(agg, before) || uint64(ts.UnixMilli()) != before.ts {
					return viol("before", class, "GetAggregateBefore(%d) returned (timestamp %d, flagged %v, err %v), the latest unflagged entry before %d is %d", T, ts.UnixMilli(), agg != nil && agg.Flagged, err, T, before.ts)
				}
				if gerr != nil || resp == nil || !same(resp.Aggregate, before) || resp.Timestamp != before.ts {
					return viol("grpc-data-before", class, "gRPC GetDataBefore(%d) returned (%v, err %v), the latest unflagged entry before %d is %d", T, resp, gerr, T, before.ts)
				}
			}
		}
		// timestamp before / after T (strict neighbours, flagged or not)
		{
			var tb, ta time.Time
			var eb, ea error
			if p := c08Call(func() { tb, eb = k.GetTimestampBefore(ctx, qid, tm) }); p != nil {
				return panicked("timestamp-before", p)
			}
			if p := c08Call(func() { ta, ea = k.GetTimestampAfter(ctx, qid, tm) }); p != nil {
				return panicked("timestamp-after", p)
			}
			m.nLookups += 2
			if tsPrev == 0 {
				if eb == nil {
					return viol("timestamp-before", class, "GetTimestampBefore(%d) returned %d although the list has no entry before %d", T, tb.UnixMilli(), T)
				}
			} else if eb != nil || uint64(tb.UnixMilli()) != tsPrev {
				return viol("timestamp-before", class, "GetTimestampBefore(%d) returned (%d, err %v), the list neighbour is %d", T, tb.UnixMilli(), eb, tsPrev)
			}
			if tsNext == 0 {
				if ea == nil {
					return viol("timestamp-after", class, "GetTimestampAfter(%d) returned %d although the list has no entry after %d", T, ta.UnixMilli(), T)
				}
			} else if ea != nil || uint64(ta.UnixMilli()) != tsNext {
				return viol("timestamp-after", class, "GetTimestampAfter(%d) returned (%d, err %v), the list neighbour is %d", T, ta.UnixMilli(), ea, tsNext)
			}
		}
		// exact timestamp — keeper and gRPC RetrieveData
		{
			var agg oracletypes.Aggregate
			var err error
			if p := c08Call(func() { agg, err = k.GetAggregateByTimestamp(ctx, qid, tm) }); p != nil {
				return panicked("by-timestamp", p)
			}
			var resp *oracletypes.QueryRetrieveDataResponse
			var gerr error
			if p := c08Call(func() {
				resp, gerr = m.querier.RetrieveData(ctx, &oracletypes.QueryRetrieveDataRequest{QueryId: qhex, Timestamp: T})
			}); p != nil {
				return panicked("grpc-retrieve-data", p)
			}
			m.nLookups += 2
			if exact == nil {
				if err == nil {
					return viol("by-timestamp", class, "GetAggregateByTimestamp(%d) succeeded although the list has no entry at %d", T, T)
				}
				if gerr == nil {
					return viol("grpc-retrieve-data", class, "gRPC RetrieveData(%d) succeeded although the list has no entry at %d", T, T)
				}
			} else {
				if err != nil || !same(&agg, exact) {
					return viol("by-timestamp", class, "GetAggregateByTimestamp(%d) returned (%v, err %v), the list entry is %v", T, agg.String(), err, exact.agg.String())
				}
				if gerr != nil || resp == nil || !same(resp.Aggregate, exact) {
					return viol("grpc-retrieve-data", class, "gRPC RetrieveData(%d) returned (%v, err %v), the list entry is %v", T, resp, gerr, exact.agg.String())
				}
			}
		}
	}
	if n >= 3 && nFlagged >= 1 && m.probedEqual && m.probedBetween {
		m.nontrivial = true
	}
	return nil
}

func c08Bucket(n int, steps ...int) string {
	out := "0"
	for _, s := range steps {
		if n >= s {
			out = fmt.Sprintf(">=%d", s)
		}
	}
	return out
}

func (m *aggHistMonitor) Classify(info *pbt.CaseInfo) {
	info.Nontrivial = m.nontrivial
	info.Classes = append(info.Classes,
		"aggregates"+c08Bucket(m.nAgg, 1, 3, 6, 12, 24),
		"longest-list"+c08Bucket(m.maxLen, 1, 2, 3, 5, 8),
		"flag-events"+c08Bucket(m.nFlag, 1, 2, 4),
		"queries"+c08Bucket(len(m.order), 1, 3, 6),
	)
	add := func(cond bool, label string) {
		if cond {
			info.Classes = append(info.Classes, label)
		}
	}
	add(m.nWithdrawAgg > 0, "withdrawal-aggregate")
	add(m.nEvidenceFlag > 0, "flag-by-evidence")
	add(m.nDisputeNonDet > 0, "dispute-on-non-determining-report-at-micro-height")
	add(m.nDisputeDet > 0, "dispute-on-determining-report")
	add(m.nLateDispute > 0, "aggregate-determined-by-report-disputed-earlier(unflagged,counted-only)")
	add(m.nSnapEnd > 0, "snapshot-end-block")
	add(m.nSnapReq > 0, "snapshot-by-request")
	add(m.probedAfterFlagged, "probed-right-after-flagged-entry")
	info.Note = map[string]int{"aggregates": m.nAgg, "flags": m.nFlag, "lookups": m.nLookups, "probed_queries": m.nProbe, "snap_end": m.nSnapEnd, "snap_req": m.nSnapReq}
}

// ---------------------------------------------------------------- profile

func c08Shape(t *rapid.T, op *Op) {
	switch op.K {
	case OpSubmit:
		op.V = 0 // well-formed values only (malformed stored values are C02's subject)
		// smartQuery's pool lists the open cycle-list / tipped queries first, then the four deposit queries
		op.R[0] = pick(t, "c08q", []int{0, 0, 0, 0, 1, 1, 2, 3})
		if op.R[1]%8 == 0 {
			op.R[1]++
		}
		if op.R[2]%8 == 0 {
			op.R[2]++
		}
	case OpTip:
		// the three cycle-list queries and the two spot queries mostly, sometimes a custom one
		op.R[0] = pick(t, "c08tipq", []int{0, 1, 2, 3, 3, 4, 4, 5, 10})
		op.Amt = Amount{Kind: AmtAbs, N: pick(t, "c08tip", []int64{10_000, 1_000_000, 50})}
		op.V = 0
	case OpCreateReporter:
		op.V = pick(t, "c08rate", []int{0, 1, 2, 3, 4, 9})
	case OpPropose:
		op.V = pick(t, "c08cat", []int{1, 1, 1, 1, 2})
		op.Amt = Amount{Kind: AmtOfNeeded, N: pick(t, "c08fee", []int64{1000, 1000, 1000, 1000, 1000, 500})}
		op.R[1] = pick(t, "c08alter", []int{0, 0, 0, 0, 0, 0, 0, 0, 1, 4, 5, 6})
		if op.R[2]%4 == 3 {
			op.R[2]-- // pay from the free balance
		}
	case OpAddFee:
		op.Amt = Amount{Kind: AmtOfNeeded, N: 1000}
		op.V = 0
		if op.R[1]%4 == 3 || op.R[1]%8 == 7 {
			op.R[1] = 0
		}
	case OpAddEvidence:
		if op.R[1]%8 == 7 {
			op.R[1]--
		}
		op.V = 0
	case OpReqAttest:
		// cycle-list, spot and withdrawal queries (catalog index 15 = withdraw-1)
		op.R[0] = pick(t, "c08attq", []int{0, 1, 2, 3, 4, 15, 15})
		if op.V > 2 {
			op.V = 0
		}
	case OpWithdrawTokens:
		op.V = 0
		op.Amt = Amount{Kind: AmtAbs, N: pick(t, "c08wd", []int64{1, 123, 1_000_000})}
	case OpUnjailReporter:
		op.V = 0
	}
}

func aggHistProfile() *Profile {
	w := map[string]int{
		OpSubmit: 50, OpTip: 10, OpCreateReporter: 4, OpSelectReporter: 2, OpUnjailReporter: 6, OpRegisterSpec: 1,
		OpPropose: 9, OpAddFee: 2, OpAddEvidence: 4, OpVote: 1,
		OpWithdrawTokens: 3, OpReqAttest: 6,
	}
	return &Profile{Name: "history", Weights: w, MinBlocks: 20, MaxBlocks: 55, MaxOps: 6, AbsentPM: 20, BadVarPM: 60, Setup: true, ThoroughScale: 2,
		// explicit ms, 1 ms, 1 s, 6 s mostly; a few large gaps
		GapW:  []int{8, 6, 14, 14, 2, 1, 1, 0, 1, 0, 0, 0, 0, 0},
		Shape: c08Shape}
}

func TestC08_AggregateHistory(t *testing.T) {
	runHistoryProp(t, "C08", "TestC08_AggregateHistory",
		"histories of 20-55 blocks (x2 thorough) x 0-6 transactions: reports by several reporters on the 3 cycle-list queries and tipped spot/custom queries, bridge withdrawals, fully funded / partially funded+add-fee disputes and evidence on determining and non-determining reports, attestation requests; gaps 1 ms..6 s plus a few large; after every block the whole Aggregates collection is diffed against a per-query list model and every lookup is probed at timestamps {0, 1, t-1, t, t+1, midpoints, 2^63-1} and indexes 0..n+1; non-trivial = some query reached >=3 aggregates with >=1 flagged and was then probed at an equal and at a between timestamp; distinct by SHA-256 of the history JSON",
		aggHistProfile(), func() Monitor { return &aggHistMonitor{} })
}
