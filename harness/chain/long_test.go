package chain

// Long histories for the state-invariant monitors: the generator of TestC02_LongHistory (minting on, bridge-deposit
// reports at several heights, ~2000 operation-free blocks, generated tail in which the 2000-block rounds expire)
// under the supply, escrow, stake-ledger and aggregate-history monitors.

import (
	"testing"

	"pgregory.net/rapid"

	"verif/harness/pbt"
)

type longWrap struct {
	Monitor
	aggsLate int // aggregates produced after block 2000
}

func (w *longWrap) After(c *Chain, wd *World, br *BlockResult, outs []TxOutcome) *pbt.Violation {
	if br.Finalize != nil && br.Height > 2000 {
		for _, ev := range br.Finalize.Events {
			if ev.Type == "aggregate_report" {
				w.aggsLate++
			}
		}
	}
	return w.Monitor.After(c, wd, br, outs)
}

func runLongProp(t *testing.T, property, name string, mk func() Monitor) {
	runLongPropGen(t, property, name, "generator of TestC02_LongHistory (governance starts minting, several reporters report 1-3 bridge-deposit queries over three blocks, ~2000 operation-free blocks, tail of 8-13 generated blocks with cycle-list and deposit reports and any other transaction) under this property's monitor; non-trivial = >=1 aggregate produced after block 2000; distinct by SHA-256 of the history JSON", genLongHalt, mk)
}

func runLongPropGen(t *testing.T, property, name, rule string, gen func(*rapid.T) History, mk func() Monitor) {
	pbt.Run(t, pbt.Prop[History]{Property: property, Name: name,
		Rule: rule,
		Gen:  gen,
		Check: func(h History, info *pbt.CaseInfo, st *pbt.Stats) error {
			mon := &longWrap{Monitor: mk()}
			rs, _, v, err := RunHistory(h, mon)
			if err != nil {
				return err
			}
			mon.Classify(info)
			info.Nontrivial = mon.aggsLate > 0
			if mon.aggsLate > 1 {
				info.Classes = append(info.Classes, "several-aggregates-after-block-2000")
			}
			st.Count("blocks", int64(rs.Blocks))
			st.Count("ops_accepted", int64(rs.OpsOK))
			st.Count("aggregates_after_block_2000", int64(mon.aggsLate))
			if rs.HarnessStop {
				st.Count("harness_stops", 1)
			}
			if rs.Halt != nil {
				st.Count("halted_cases", 1) // C02's verdict; here it only ends the case
			}
			if v != nil {
				return v
			}
			return nil
		}})
}

func TestC03_SupplyLong(t *testing.T) {
	runLongProp(t, "C03", "TestC03_SupplyLong", func() Monitor { return &supplyMonitor{} })
}

func TestC04_EscrowLong(t *testing.T) {
	runLongProp(t, "C04", "TestC04_EscrowLong", func() Monitor { return &escrowMonitor{} })
}

func TestC05_StakeLedgerLong(t *testing.T) {
	runLongProp(t, "C05", "TestC05_StakeLedgerLong", func() Monitor { return &stakeMonitor{} })
}

func TestC08_AggregateHistoryLong(t *testing.T) {
	runLongProp(t, "C08", "TestC08_AggregateHistoryLong", func() Monitor { return &aggHistMonitor{} })
}

func TestC04_EscrowLongDeposit(t *testing.T) {
	runLongPropGen(t, "C04", "TestC04_EscrowLongDeposit",
		"generator of TestC07_LongDepositRound (an untipped bridge-deposit round opened by direct reports, ~2000 operation-free blocks, further deposit reports one block before / at / after its expiry height, tips before or after those reports) under the escrow invariants; non-trivial = >=1 aggregate produced after block 2000; distinct by SHA-256 of the history JSON",
		genLongDeposit, func() Monitor { return &escrowMonitor{} })
}
