package pure

import (
	"encoding/json"
	"os"
	"path/filepath"
	"testing"

	keepertest "github.com/tellor-io/layer/testutil/keeper"
	"pgregory.net/rapid"

	"verif/harness/pbt"
)

// FuzzC06_Aggregate drives the C06 property with Go's coverage-guided fuzzer (thorough tier only):
// the fuzzer's bytes are rapid's bit stream, so the same generator and oracle are used.
func FuzzC06_Aggregate(f *testing.F) {
	k, _, _, _, _, ctx := keepertest.OracleKeeper(f)
	f.Add([]byte{0})
	f.Add([]byte{1, 2, 3, 4, 5, 6, 7, 8, 9, 10, 11, 12, 13, 14, 15, 16})
	f.Add([]byte("equal weights aa bb aa bb"))
	f.Fuzz(rapid.MakeFuzz(func(t *rapid.T) {
		c := genAggCase("")(t)
		info := &pbt.CaseInfo{}
		st := pbt.NewStats("C06", "FuzzC06_Aggregate", "")
		if err := checkAggCase(k, ctx, c, info, st); err != nil {
			if v, ok := err.(*pbt.Violation); ok && !pbt.IsKnown("C06", v.Sig) {
				bz, _ := json.MarshalIndent(map[string]any{"property": "C06", "test": "TestC06_Mode", "signature": v.Sig, "message": v.Msg, "case": c}, "", " ")
				if c.Method == "median" {
					bz, _ = json.MarshalIndent(map[string]any{"property": "C06", "test": "TestC06_Median", "signature": v.Sig, "message": v.Msg, "case": c}, "", " ")
				}
				if d := os.Getenv("VERIF_OUT"); d != "" {
					_ = os.MkdirAll(d, 0o755)
					_ = os.WriteFile(filepath.Join(d, "FuzzC06_Aggregate.fail.json"), bz, 0o644)
				}
				t.Fatalf("VIOLATION %v", v)
			}
		}
	}))
}
