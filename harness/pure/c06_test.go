package pure

// C06 — the aggregate is the true weighted median / weighted mode of the reports.
// Oracle: validity predicates with math/big written from the statement, plus the
// permutation metamorphic relation. Nothing here calls keeper code to compute the
// expected answer.

import (
	"fmt"
	"math/big"
	"strings"
	"testing"

	keepertest "github.com/tellor-io/layer/testutil/keeper"
	oraclekeeper "github.com/tellor-io/layer/x/oracle/keeper"
	oracletypes "github.com/tellor-io/layer/x/oracle/types"
	"pgregory.net/rapid"

	sdk "github.com/cosmos/cosmos-sdk/types"

	"verif/harness/pbt"
)

type Rep struct {
	R int    `json:"r"` // reporter number (unique within a case)
	V string `json:"v"` // hex value as stored
	P uint64 `json:"p"` // power
}

type AggCase struct {
	Method   string   `json:"method"` // "median" | "mode"
	Reports  []Rep    `json:"reports"`
	Shuffles []uint32 `json:"shuffles"` // seeds of the extra permutations tried
}

var smallVals = []string{"a", "b", "c", "0a", "0A", "00b", "ff", "100", "1", "0", "00", "fffffffffffffffffffffffffffffffffffffffffffffffffffffffffffffffff", "8000000000000000", "7fffffffffffffff"}

func genReports(t *rapid.T, method string) []Rep {
	n := rapid.OneOf(rapid.IntRange(1, 6), rapid.IntRange(1, 6), rapid.IntRange(7, 40)).Draw(t, "n")
	alphabet := rapid.IntRange(1, 5).Draw(t, "alphabet")
	reps := make([]Rep, n)
	perm := rapid.Permutation(seq(n)).Draw(t, "reporterOrder")
	var total uint64
	limit := uint64(1) << 62 // keep sum below 2^63
	if method == "mode" {
		limit = 1 << 16 // the implementation loops Power times per report: cost bound of the check
		if pbt.Thorough() {
			limit = 1 << 19
		}
	}
	for i := 0; i < n; i++ {
		var v string
		switch rapid.IntRange(0, 9).Draw(t, "vkind") {
		case 0, 1, 2, 3, 4, 5, 6:
			v = smallVals[rapid.IntRange(0, alphabet-1+0).Draw(t, "vi")%len(smallVals)]
			if rapid.IntRange(0, 7).Draw(t, "far") == 0 {
				v = smallVals[rapid.IntRange(0, len(smallVals)-1).Draw(t, "vj")]
			}
		default:
			v = rapid.StringMatching(`[0-9a-fA-F]{1,80}`).Draw(t, "v")
		}
		var p uint64
		switch rapid.IntRange(0, 7).Draw(t, "pkind") {
		case 0, 1, 2:
			p = uint64(rapid.IntRange(1, 3).Draw(t, "p"))
		case 3:
			p = rapid.SampledFrom([]uint64{1, 2, 3, 1<<32 - 1, 1 << 32, 1 << 61, 1_000_000_000}).Draw(t, "p")
		case 4:
			p = rapid.Uint64Range(1, 1<<61).Draw(t, "p")
		default:
			p = rapid.Uint64Range(1, 2000).Draw(t, "p")
		}
		if method == "mode" && p > limit/uint64(n) {
			p = p%(limit/uint64(n)) + 1
		}
		if total+p >= limit || total+p < total {
			p = 1
		}
		total += p
		reps[i] = Rep{R: perm[i], V: v, P: p}
	}
	return reps
}

func seq(n int) []int {
	s := make([]int, n)
	for i := range s {
		s[i] = i
	}
	return s
}

func toMicro(reps []Rep, method string) []oracletypes.MicroReport {
	out := make([]oracletypes.MicroReport, len(reps))
	am := "weighted-median"
	if method == "mode" {
		am = "weighted-mode"
	}
	for i, r := range reps {
		out[i] = oracletypes.MicroReport{
			Reporter:        fmt.Sprintf("reporter%04d", r.R),
			Power:           r.P,
			QueryType:       "T",
			QueryId:         []byte{1, 2, 3},
			AggregateMethod: am,
			Value:           r.V,
			BlockNumber:     uint64(10 + r.R),
		}
	}
	return out
}

func numVal(s string) *big.Int {
	v, ok := new(big.Int).SetString(s, 16)
	if !ok {
		return nil
	}
	return v
}

// shuffle is a deterministic Fisher-Yates driven by a drawn seed (xorshift), so the
// permutations are part of the case.
func shuffle(reps []Rep, seed uint32) []Rep {
	out := append([]Rep(nil), reps...)
	x := uint64(seed)*2654435761 + 88172645463325252
	for i := len(out) - 1; i > 0; i-- {
		x ^= x << 13
		x ^= x >> 7
		x ^= x << 17
		j := int(x % uint64(i+1))
		out[i], out[j] = out[j], out[i]
	}
	return out
}

func permutations(reps []Rep, yield func([]Rep) bool) {
	n := len(reps)
	idx := seq(n)
	var rec func(k int) bool
	rec = func(k int) bool {
		if k == n {
			p := make([]Rep, n)
			for i, j := range idx {
				p[i] = reps[j]
			}
			return yield(p)
		}
		for i := k; i < n; i++ {
			idx[k], idx[i] = idx[i], idx[k]
			if !rec(k + 1) {
				return false
			}
			idx[k], idx[i] = idx[i], idx[k]
		}
		return true
	}
	rec(0)
}

type aggFn func(reps []oracletypes.MicroReport) (*oracletypes.Aggregate, error)

// validateAggregate is the oracle for one call.
func validateAggregate(method string, reps []Rep, agg *oracletypes.Aggregate) *pbt.Violation {
	T := new(big.Int)
	for _, r := range reps {
		T.Add(T, new(big.Int).SetUint64(r.P))
	}
	if new(big.Int).SetUint64(agg.ReporterPower).Cmp(T) != 0 {
		return pbt.Violf("C06/total-power", "ReporterPower=%d, sum of powers=%s", agg.ReporterPower, T)
	}
	// Reporters lists every report exactly once
	if len(agg.Reporters) != len(reps) {
		return pbt.Violf("C06/reporters-multiset", "%d reporters listed for %d reports", len(agg.Reporters), len(reps))
	}
	seen := map[string]int{}
	for _, r := range reps {
		seen[fmt.Sprintf("reporter%04d|%d|%d", r.R, r.P, 10+r.R)]++
	}
	for _, ar := range agg.Reporters {
		k := fmt.Sprintf("%s|%d|%d", ar.Reporter, ar.Power, ar.BlockNumber)
		seen[k]--
		if seen[k] < 0 {
			return pbt.Violf("C06/reporters-multiset", "reporter entry %s not in input / listed twice", k)
		}
	}
	// the named reporter reported the chosen value and is the entry at the index
	if int(agg.AggregateReportIndex) >= len(agg.Reporters) {
		return pbt.Violf("C06/index", "AggregateReportIndex %d out of range %d", agg.AggregateReportIndex, len(agg.Reporters))
	}
	if agg.Reporters[agg.AggregateReportIndex].Reporter != agg.AggregateReporter {
		return pbt.Violf("C06/index", "Reporters[%d]=%s but AggregateReporter=%s", agg.AggregateReportIndex, agg.Reporters[agg.AggregateReportIndex].Reporter, agg.AggregateReporter)
	}
	okRep := false
	for _, r := range reps {
		if fmt.Sprintf("reporter%04d", r.R) == agg.AggregateReporter {
			if r.V == agg.AggregateValue {
				okRep = true
			}
			if uint64(10+r.R) != agg.MicroHeight {
				return pbt.Violf("C06/micro-height", "MicroHeight %d is not the height of the named reporter's report (%d)", agg.MicroHeight, 10+r.R)
			}
		}
	}
	if !okRep {
		return pbt.Violf("C06/reporter-value", "AggregateReporter %s did not report value %q", agg.AggregateReporter, agg.AggregateValue)
	}
	switch method {
	case "median":
		vs := numVal(agg.AggregateValue)
		if vs == nil {
			return pbt.Violf("C06/median-value", "aggregate value %q unparsable", agg.AggregateValue)
		}
		below, upto := new(big.Int), new(big.Int)
		for _, r := range reps {
			c := numVal(r.V).Cmp(vs)
			if c < 0 {
				below.Add(below, new(big.Int).SetUint64(r.P))
			}
			if c <= 0 {
				upto.Add(upto, new(big.Int).SetUint64(r.P))
			}
		}
		if new(big.Int).Lsh(below, 1).Cmp(T) > 0 {
			return pbt.Violf("C06/median-below", "value %q: strictly smaller reports hold %s of %s (> half)", agg.AggregateValue, below, T)
		}
		if new(big.Int).Lsh(upto, 1).Cmp(T) < 0 {
			return pbt.Violf("C06/median-upto", "value %q: reports up to it hold %s of %s (< half)", agg.AggregateValue, upto, T)
		}
	case "mode":
		w := map[string]*big.Int{}
		for _, r := range reps {
			if w[r.V] == nil {
				w[r.V] = new(big.Int)
			}
			w[r.V].Add(w[r.V], new(big.Int).SetUint64(r.P))
		}
		mine := w[agg.AggregateValue]
		if mine == nil {
			return pbt.Violf("C06/mode-value", "value %q was not reported", agg.AggregateValue)
		}
		for v, x := range w {
			if x.Cmp(mine) > 0 {
				return pbt.Violf("C06/mode-max", "value %q has weight %s but %q has %s", agg.AggregateValue, mine, v, x)
			}
		}
	}
	return nil
}

// classify says what makes a report set non-trivial.
func classify(method string, reps []Rep) (nontrivial bool, classes []string, tie bool) {
	if len(reps) < 2 {
		return false, []string{"n=1"}, false
	}
	T := new(big.Int)
	w := map[string]*big.Int{}
	num := map[string]*big.Int{}
	dup := false
	for _, r := range reps {
		T.Add(T, new(big.Int).SetUint64(r.P))
		key := r.V
		if method == "median" {
			key = numVal(r.V).String()
		}
		if w[key] == nil {
			w[key] = new(big.Int)
			num[key] = numVal(r.V)
		} else {
			dup = true
		}
		w[key].Add(w[key], new(big.Int).SetUint64(r.P))
	}
	if dup {
		classes = append(classes, "duplicate-value")
	}
	// dominant reporter
	for _, r := range reps {
		if new(big.Int).Lsh(new(big.Int).SetUint64(r.P), 1).Cmp(T) > 0 {
			classes = append(classes, "dominant-reporter")
			break
		}
	}
	// equal-max tie
	var max *big.Int
	cnt := 0
	for _, x := range w {
		if max == nil || x.Cmp(max) > 0 {
			max, cnt = x, 1
		} else if x.Cmp(max) == 0 {
			cnt++
		}
	}
	if cnt > 1 {
		classes = append(classes, "equal-max-tie")
		tie = true
	}
	// exact half boundary: some prefix of the value-sorted list holds exactly T/2
	if method == "median" && T.Bit(0) == 0 {
		half := new(big.Int).Rsh(T, 1)
		for k := range w {
			cum := new(big.Int)
			for k2, x := range w {
				if num[k2].Cmp(num[k]) <= 0 {
					cum.Add(cum, x)
				}
			}
			if cum.Cmp(half) == 0 {
				classes = append(classes, "exact-half-boundary")
				break
			}
		}
	}
	if len(reps) > 6 {
		classes = append(classes, "n>6")
	}
	for _, r := range reps {
		if len(r.V) > 64 {
			classes = append(classes, "long-value")
			break
		}
	}
	nt := false
	for _, c := range classes {
		if c == "duplicate-value" || c == "dominant-reporter" || c == "equal-max-tie" || c == "exact-half-boundary" {
			nt = true
		}
	}
	return nt, classes, tie
}

func sameChosen(method, a, b string) bool {
	if method == "median" {
		x, y := numVal(a), numVal(b)
		return x != nil && y != nil && x.Cmp(y) == 0
	}
	return a == b
}

func checkAggCase(k oraclekeeper.Keeper, ctx sdk.Context, c AggCase, info *pbt.CaseInfo, st *pbt.Stats) error {
	if len(c.Reports) == 0 {
		return nil
	}
	call := func(reps []Rep) (*oracletypes.Aggregate, error) {
		in := toMicro(reps, c.Method)
		if c.Method == "median" {
			return k.WeightedMedian(ctx, in, 7)
		}
		return k.WeightedMode(ctx, in, 7)
	}
	nt, classes, tie := classify(c.Method, c.Reports)
	info.Nontrivial, info.Classes = nt, classes
	base, err := call(c.Reports)
	if err != nil {
		return pbt.Violf("C06/error", "%s returned error on valid input: %v", c.Method, err)
	}
	if base.MetaId != 7 {
		return pbt.Violf("C06/meta", "MetaId %d != 7", base.MetaId)
	}
	if v := validateAggregate(c.Method, c.Reports, base); v != nil {
		return v
	}
	st.Count("oracle_evals", 1)
	var viol *pbt.Violation
	try := func(p []Rep) bool {
		agg, err := call(p)
		if err != nil {
			viol = pbt.Violf("C06/error", "error on permutation: %v", err)
			return false
		}
		st.Count("oracle_evals", 1)
		if v := validateAggregate(c.Method, p, agg); v != nil {
			viol = v
			return false
		}
		if !sameChosen(c.Method, base.AggregateValue, agg.AggregateValue) {
			sig := "C06/order-dependent-" + c.Method
			if tie {
				sig += "-tie"
			}
			viol = pbt.Violf(sig, "chosen value %q for one order, %q for another order of the same reports", base.AggregateValue, agg.AggregateValue)
			return false
		}
		return true
	}
	if len(c.Reports) <= 5 {
		permutations(c.Reports, try)
	} else {
		for _, s := range c.Shuffles {
			if !try(shuffle(c.Reports, s)) {
				break
			}
		}
	}
	if viol == nil && tie {
		// a 2-entry Go map flips its iteration order with p ~ 1/8 per range: repeat
		// so that an order-dependent tie-break is seen with probability > 0.999
		for i := 0; i < 64 && viol == nil; i++ {
			try(shuffle(c.Reports, uint32(i)*7919+1))
		}
	}
	if viol != nil {
		return viol
	}
	return nil
}

func genAggCase(method string) func(t *rapid.T) AggCase {
	return func(t *rapid.T) AggCase {
		m := method
		if m == "" {
			m = rapid.SampledFrom([]string{"median", "mode"}).Draw(t, "method")
		}
		reps := genReports(t, m)
		sh := rapid.SliceOfN(rapid.Uint32(), 20, 20).Draw(t, "shuffles")
		return AggCase{Method: m, Reports: reps, Shuffles: sh}
	}
}

const c06Rule = "report sets of 1-40 reporters, values from a small alphabet (duplicates, numeric-equal spellings) or random 1-80 hex chars, powers from {1,2,3,2^32-1,2^32,2^61,1e9} or random with sum<2^62 (mode: sum<=2^16, the implementation loops Power times); non-trivial = n>=2 and one of {duplicate value, exact half-power boundary, equal-max tie, dominant reporter}; distinct by SHA-256 of the case JSON"

func TestC06_Median(t *testing.T) {
	k, _, _, _, _, ctx := keepertest.OracleKeeper(t)
	pbt.Run(t, pbt.Prop[AggCase]{Property: "C06", Name: "TestC06_Median", Rule: c06Rule, Gen: genAggCase("median"),
		Check: func(c AggCase, info *pbt.CaseInfo, st *pbt.Stats) error { return checkAggCase(k, ctx, c, info, st) }})
}

func TestC06_Mode(t *testing.T) {
	k, _, _, _, _, ctx := keepertest.OracleKeeper(t)
	pbt.Run(t, pbt.Prop[AggCase]{Property: "C06", Name: "TestC06_Mode", Rule: c06Rule, Gen: genAggCase("mode"),
		Check: func(c AggCase, info *pbt.CaseInfo, st *pbt.Stats) error { return checkAggCase(k, ctx, c, info, st) }})
}

// Exhaustive small scope: all report lists with n<=4 (5 thorough), powers in {1,2,3},
// values in {a,b,c}; every permutation is tried inside checkAggCase (n<=5).
func TestC06_Exhaustive(t *testing.T) {
	k, _, _, _, _, ctx := keepertest.OracleKeeper(t)
	maxN := 4
	if pbt.Thorough() {
		maxN = 5
	}
	vals := []string{"a", "b", "c"}
	for _, method := range []string{"median", "mode"} {
		method := method
		name := "TestC06_Exhaustive_" + method
		t.Run(method, func(t *testing.T) {
			pbt.RunExhaustive(t, pbt.Prop[AggCase]{Property: "C06", Name: name,
				Rule:  fmt.Sprintf("exhaustive: every multiset of n<=%d reports with powers in {1,2,3} and values in {a,b,c}, all permutations of each", maxN),
				Check: func(c AggCase, info *pbt.CaseInfo, st *pbt.Stats) error { return checkAggCase(k, ctx, c, info, st) }},
				func(yield func(AggCase) bool) {
					for n := 1; n <= maxN; n++ {
						// enumerate non-decreasing sequences of (value,power) codes = multisets
						codes := make([]int, n)
						var rec func(i, min int) bool
						rec = func(i, min int) bool {
							if i == n {
								reps := make([]Rep, n)
								for j, cd := range codes {
									reps[j] = Rep{R: j, V: vals[cd/3], P: uint64(cd%3 + 1)}
								}
								return yield(AggCase{Method: method, Reports: reps})
							}
							for cd := min; cd < 9; cd++ {
								codes[i] = cd
								if !rec(i+1, cd) {
									return false
								}
							}
							return true
						}
						if !rec(0, 0) {
							return
						}
					}
				})
		})
	}
}

var _ = strings.ToLower
