package pure

// Helpers for C15: generators, an independent bech32 encoder, a byte reader for
// the native fuzz target.

import (
	"encoding/hex"
	"fmt"
	"math/big"
	"strings"

	"pgregory.net/rapid"
)

// ---------------------------------------------------------------- bech32 (BIP-173), written from the spec

const c15Bech32Charset = "qpzry9x8gf2tvdw0s3jn54khce6mua7l"

func c15Bech32Polymod(values []byte) uint32 {
	gen := []uint32{0x3b6a57b2, 0x26508e6d, 0x1ea119fa, 0x3d4233dd, 0x2a1462b3}
	chk := uint32(1)
	for _, v := range values {
		top := chk >> 25
		chk = (chk&0x1ffffff)<<5 ^ uint32(v)
		for i := 0; i < 5; i++ {
			if (top>>uint(i))&1 == 1 {
				chk ^= gen[i]
			}
		}
	}
	return chk
}

func c15Bech32Encode(hrp string, data []byte) string {
	// 8 -> 5 bit groups, padded
	var conv []byte
	acc, bits := uint32(0), uint(0)
	for _, b := range data {
		acc = acc<<8 | uint32(b)
		bits += 8
		for bits >= 5 {
			bits -= 5
			conv = append(conv, byte(acc>>bits)&31)
		}
	}
	if bits > 0 {
		conv = append(conv, byte(acc<<(5-bits))&31)
	}
	var exp []byte
	for i := 0; i < len(hrp); i++ {
		exp = append(exp, hrp[i]>>5)
	}
	exp = append(exp, 0)
	for i := 0; i < len(hrp); i++ {
		exp = append(exp, hrp[i]&31)
	}
	values := append(append(exp, conv...), 0, 0, 0, 0, 0, 0)
	pm := c15Bech32Polymod(values) ^ 1
	var sb strings.Builder
	sb.WriteString(hrp)
	sb.WriteByte('1')
	for _, c := range conv {
		sb.WriteByte(c15Bech32Charset[c])
	}
	for i := 0; i < 6; i++ {
		sb.WriteByte(c15Bech32Charset[(pm>>uint(5*(5-i)))&31])
	}
	return sb.String()
}

// ---------------------------------------------------------------- small utilities

func c15Hex(b []byte) string { return hex.EncodeToString(b) }

func c15Unhex(s string) ([]byte, error) {
	b, err := hex.DecodeString(s)
	if err != nil {
		return nil, fmt.Errorf("case field is not hex: %q: %v", s, err)
	}
	return b, nil
}

func c15Big(s string) (*big.Int, error) {
	v, ok := new(big.Int).SetString(s, 10)
	if !ok || v.Sign() < 0 {
		return nil, fmt.Errorf("case field is not a non-negative decimal: %q", s)
	}
	return v, nil
}

func pow2(n uint) *big.Int { return new(big.Int).Lsh(big.NewInt(1), n) }

// safely runs f and returns the recovered panic value, if any.
func safely(f func()) (p any) {
	defer func() { p = recover() }()
	f()
	return nil
}

// ---------------------------------------------------------------- generators

var c15U64Edges = []uint64{0, 1, 2, 3, 999, 1000, 1<<32 - 1, 1 << 32, 1_700_000_000_000, 1<<60 - 1, 1 << 60, 1<<62 - 1, 1 << 62, 1<<62 + 1, 1<<63 - 1, 1 << 63, 1<<63 + 1, 1<<64 - 2, 1<<64 - 1}

func genU64(t *rapid.T, label string) uint64 {
	switch rapid.IntRange(0, 5).Draw(t, label+"_kind") {
	case 0, 1:
		return rapid.SampledFrom(c15U64Edges).Draw(t, label)
	case 2:
		return rapid.Uint64Range(0, 5000).Draw(t, label)
	case 3:
		return rapid.Uint64Range(1_600_000_000_000, 2_000_000_000_000).Draw(t, label) // millisecond timestamps of this decade
	default:
		return rapid.Uint64().Draw(t, label)
	}
}

func genBytesN(t *rapid.T, n int, label string) []byte {
	switch rapid.IntRange(0, 9).Draw(t, label+"_kind") {
	case 0:
		return make([]byte, n)
	case 1:
		b := make([]byte, n)
		for i := range b {
			b[i] = 0xff
		}
		return b
	case 2: // small number: leading zeros
		b := make([]byte, n)
		if n > 0 {
			b[n-1] = byte(rapid.IntRange(1, 255).Draw(t, label+"_low"))
		}
		return b
	case 3: // left-aligned: trailing zeros
		b := make([]byte, n)
		if n > 0 {
			b[0] = byte(rapid.IntRange(1, 255).Draw(t, label+"_high"))
		}
		return b
	default:
		return rapid.SliceOfN(rapid.Byte(), n, n).Draw(t, label)
	}
}

// genBigUpTo draws a non-negative integer below 2^bits with boundary emphasis.
func genBigUpTo(t *rapid.T, bits uint, label string) *big.Int {
	switch rapid.IntRange(0, 5).Draw(t, label+"_kind") {
	case 0:
		return new(big.Int).SetUint64(rapid.SampledFrom(c15U64Edges).Draw(t, label))
	case 1:
		return new(big.Int).SetUint64(rapid.Uint64Range(0, 100000).Draw(t, label))
	case 2:
		e := uint(rapid.IntRange(0, int(bits)).Draw(t, label+"_exp"))
		d := int64(rapid.IntRange(-1, 1).Draw(t, label+"_delta"))
		v := new(big.Int).Add(pow2(e), big.NewInt(d))
		if v.Sign() < 0 || v.BitLen() > int(bits) {
			return new(big.Int).Sub(pow2(bits), big.NewInt(1))
		}
		return v
	default:
		n := rapid.IntRange(0, int(bits)/8).Draw(t, label+"_len")
		return new(big.Int).SetBytes(rapid.SliceOfN(rapid.Byte(), n, n).Draw(t, label))
	}
}

// randomCase flips the case of hex letters according to a mask (the chain hex-decodes
// stored values; both cases denote the same bytes).
func hexWithCase(b []byte, mode int) string {
	s := hex.EncodeToString(b)
	switch mode {
	case 1:
		return strings.ToUpper(s)
	case 2:
		out := []byte(s)
		for i := range out {
			if i%3 == 0 && out[i] >= 'a' && out[i] <= 'f' {
				out[i] -= 32
			}
		}
		return string(out)
	}
	return s
}

// ---------------------------------------------------------------- byte reader for the fuzz target

type c15Reader struct {
	b []byte
	i int
}

func (r *c15Reader) byte() byte {
	if r.i >= len(r.b) {
		return 0
	}
	v := r.b[r.i]
	r.i++
	return v
}

func (r *c15Reader) bytes(n int) []byte {
	out := make([]byte, n)
	for i := range out {
		out[i] = r.byte()
	}
	return out
}

func (r *c15Reader) u64() uint64 {
	var v uint64
	for _, b := range r.bytes(8) {
		v = v<<8 | uint64(b)
	}
	return v
}

// u64e picks an edge value for small selector bytes, otherwise raw bits.
func (r *c15Reader) u64e() uint64 {
	sel := r.byte()
	if int(sel) < len(c15U64Edges) {
		return c15U64Edges[sel]
	}
	return r.u64()
}
