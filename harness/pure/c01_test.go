package pure

// C01 (function level) — repeated execution of the pure aggregation functions on the same
// input gives the same result (value, reporter, index, order of Reporters). A 2-entry Go map
// flips its iteration order with probability ~1/8 per range, so 64 repetitions expose an
// order-dependent choice with probability > 0.999.

import (
	"bytes"
	"testing"

	"github.com/cosmos/gogoproto/proto"
	keepertest "github.com/tellor-io/layer/testutil/keeper"
	oracletypes "github.com/tellor-io/layer/x/oracle/types"

	"verif/harness/pbt"
)

func TestC01_RepeatCall(t *testing.T) {
	k, _, _, _, _, ctx := keepertest.OracleKeeper(t)
	pbt.Run(t, pbt.Prop[AggCase]{Property: "C01", Name: "TestC01_RepeatCall",
		Rule: "tie-heavy report sets (see C06 generator) for WeightedMedian and WeightedMode, each called 64 times on fresh copies of the same input; all proto-marshalled results must be byte-identical; non-trivial = n>=2 with an equal-max tie or duplicate values; distinct by SHA-256 of the case JSON",
		Gen: genAggCase(""),
		Check: func(c AggCase, info *pbt.CaseInfo, st *pbt.Stats) error {
			if len(c.Reports) == 0 {
				return nil
			}
			nt, classes, tie := classify(c.Method, c.Reports)
			info.Nontrivial, info.Classes = nt && len(c.Reports) >= 2, classes
			var first []byte
			for i := 0; i < 64; i++ {
				in := toMicro(c.Reports, c.Method)
				var agg *oracletypes.Aggregate
				var err error
				if c.Method == "median" {
					agg, err = k.WeightedMedian(ctx, in, 7)
				} else {
					agg, err = k.WeightedMode(ctx, in, 7)
				}
				if err != nil {
					return pbt.Violf("C01/repeat-call/error", "%s returned an error: %v", c.Method, err)
				}
				bz, err := proto.Marshal(agg)
				if err != nil {
					return err
				}
				st.Count("calls", 1)
				if i == 0 {
					first = bz
				} else if !bytes.Equal(first, bz) {
					sig := "C01/repeat-call/" + c.Method
					if tie {
						sig += "-tie"
					}
					return pbt.Violf(sig, "call %d on the same reports returned a different aggregate than call 0", i)
				}
			}
			return nil
		}})
}
