package pure

// Exact-rational reference tally for C12, written from the property statement:
//
//   each participating group (>=1 vote cast; the team if it voted) contributes its
//   support/against/invalid fractions (own votes / own votes cast) equally;
//   quorum when the sum over the four groups of 25% x (votes cast / group total)
//   reaches 51% (team: 25% if it voted); with quorum the result is the strict
//   maximum of the three summed fractions; without quorum, after the voting
//   period, the same majority with the NO_QUORUM_ results.

import (
	"fmt"
	"math/big"
)

type tallyRef struct {
	total        *big.Rat    // exact participation in percent
	early3       *big.Rat    // participation of team+users+reporters alone
	quorum       int         // 1 reached, 0 not reached, -1 inside the rounding zone around 51%
	early        int         // same for early3
	score        [3]*big.Rat // summed fractions, all participating groups
	winner       int         // index of the strict maximum, -1 on an exact tie of the two best
	nearTie      bool        // two best differ by <= 1e-6 of a group weight without being equal
	score3       [3]*big.Rat // summed fractions without the token holders
	winner3      int
	nearTie3     bool
	gap3         *big.Rat
	holdersVoted bool
	groups       int
}

var (
	ratZone    = big.NewRat(25, 1000000) // 1e-6 x 25%, in percent
	rat51      = big.NewRat(51, 1)
	ratNearTie = new(big.Rat).Add(big.NewRat(1, 1000000), big.NewRat(1, 100000000000000000)) // 1e-6 (+1e-17: 18-decimal fixed point)
)

func sum3(a [3]uint64) *big.Int {
	s := new(big.Int)
	for _, v := range a {
		s.Add(s, new(big.Int).SetUint64(v))
	}
	return s
}

func pickWinner(sc [3]*big.Rat) (winner int, near bool, gap *big.Rat) {
	best, second := 0, -1
	for i := 1; i < 3; i++ {
		if sc[i].Cmp(sc[best]) > 0 {
			best = i
		}
	}
	for i := 0; i < 3; i++ {
		if i == best {
			continue
		}
		if second < 0 || sc[i].Cmp(sc[second]) > 0 {
			second = i
		}
	}
	gap = new(big.Rat).Sub(sc[best], sc[second])
	if gap.Sign() == 0 {
		return -1, false, gap
	}
	return best, gap.Cmp(ratNearTie) <= 0, gap
}

func quorumClass(total *big.Rat, termsExact bool) int {
	d := new(big.Rat).Sub(total, rat51)
	ad := new(big.Rat).Abs(d)
	if ad.Cmp(ratZone) <= 0 {
		if d.Sign() == 0 && termsExact {
			return 1 // exactly 51% with nothing lost to 1e-6 truncation
		}
		return -1
	}
	if d.Sign() > 0 {
		return 1
	}
	return 0
}

// tallyReference returns the reference, or a non-empty reason when the case is
// outside the domain (more votes in a group than the group's total).
func tallyReference(c TallyCase) (*tallyRef, string) {
	r := &tallyRef{}
	totals := [3]*big.Int{}
	for i, s := range []string{c.Tips, c.Power, c.Supply} {
		v, ok := new(big.Int).SetString(s, 10)
		if !ok || v.Sign() < 0 {
			return nil, "malformed total"
		}
		totals[i] = v
	}
	cells := [3][3]uint64{c.Users, c.Reps, c.Holders}
	zero := func() [3]*big.Rat { return [3]*big.Rat{new(big.Rat), new(big.Rat), new(big.Rat)} }
	r.score, r.score3 = zero(), zero()
	r.total, r.early3 = new(big.Rat), new(big.Rat)
	exactAll, exact3 := true, true
	if c.Team != 0 {
		r.groups++
		r.score[c.Team-1].Add(r.score[c.Team-1], big.NewRat(1, 1))
		r.score3[c.Team-1].Add(r.score3[c.Team-1], big.NewRat(1, 1))
		r.total.Add(r.total, big.NewRat(25, 1))
		r.early3.Add(r.early3, big.NewRat(25, 1))
	}
	for g := 0; g < 3; g++ {
		cast := sum3(cells[g])
		if cast.Cmp(totals[g]) > 0 {
			return nil, fmt.Sprintf("group %d: votes %s above total %s", g, cast, totals[g])
		}
		if cast.Sign() == 0 {
			continue
		}
		r.groups++
		if g == 2 {
			r.holdersVoted = true
		}
		for ch := 0; ch < 3; ch++ {
			f := new(big.Rat).SetFrac(new(big.Int).SetUint64(cells[g][ch]), cast)
			r.score[ch].Add(r.score[ch], f)
			if g < 2 {
				r.score3[ch].Add(r.score3[ch], f)
			}
		}
		part := new(big.Rat).SetFrac(new(big.Int).Mul(cast, big.NewInt(25)), totals[g])
		r.total.Add(r.total, part)
		// is 25 x cast/total a multiple of 1e-6 percent?
		scaled := new(big.Rat).Mul(part, big.NewRat(1000000, 1))
		if !scaled.IsInt() {
			exactAll = false
			if g < 2 {
				exact3 = false
			}
		}
		if g < 2 {
			r.early3.Add(r.early3, part)
		}
	}
	r.quorum = quorumClass(r.total, exactAll)
	r.early = quorumClass(r.early3, exact3)
	r.winner, r.nearTie, _ = pickWinner(r.score)
	r.winner3, r.nearTie3, r.gap3 = pickWinner(r.score3)
	return r, ""
}

func (r *tallyRef) classify(c TallyCase) (bool, []string) {
	var cl []string
	switch r.quorum {
	case 1:
		cl = append(cl, "quorum")
	case 0:
		cl = append(cl, "no-quorum")
	default:
		cl = append(cl, "quorum-rounding-zone")
	}
	if r.early == 1 {
		cl = append(cl, "early-quorum")
		if r.holdersVoted {
			cl = append(cl, "early-quorum+holders-voted")
			if r.winner >= 0 && !r.nearTie && r.winner != r.winner3 {
				cl = append(cl, "early-quorum+holders-decisive")
			}
		}
	}
	voted := [3]bool{}
	huge := false
	if c.Team != 0 {
		voted[c.Team-1] = true
	}
	for _, g := range [][3]uint64{c.Users, c.Reps, c.Holders} {
		for ch, v := range g {
			if v > 0 {
				voted[ch] = true
			}
			if v >= 1<<62 {
				huge = true
			}
		}
	}
	nChoices := 0
	for _, b := range voted {
		if b {
			nChoices++
		}
	}
	tie := r.winner < 0 && nChoices > 0
	if tie {
		cl = append(cl, "exact-tie")
	}
	if r.winner < 0 && nChoices == 0 {
		cl = append(cl, "nobody-voted")
	}
	if r.nearTie {
		cl = append(cl, "near-tie")
	}
	if huge {
		cl = append(cl, "cell>=2^62")
	}
	cl = append(cl, fmt.Sprintf("groups=%d", r.groups), fmt.Sprintf("now=%d", c.Now))
	if r.winner >= 0 {
		cl = append(cl, []string{"winner=support", "winner=against", "winner=invalid"}[r.winner])
	}
	if c.Now >= 3 && c.DispEnd <= 1 {
		cl = append(cl, "dispute-end-passed")
	}
	nt := (r.groups >= 2 && nChoices >= 2) || tie || r.nearTie
	return nt, cl
}
