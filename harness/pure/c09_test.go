package pure

// C09 (function-level part) — each reward is split exactly, non-negatively and
// in proportion to backing stake.
//
// One integration keeper set (tests.SharedSetup: real oracle, reporter, bank and
// account keepers on one multistore) per test; per case the reporter records
// (Reporters, Report snapshots) are written directly into a throw-away branch of
// the store, the source pool is funded, Oraclekeeper.AllocateRewards is called
// with generated aggregates and the deltas of SelectorTips and of the module
// balances are compared with an exact-rational reference written from the
// statement (c09_helpers_test.go).

import (
	"fmt"
	"math/big"
	"testing"

	setup "github.com/tellor-io/layer/tests"
	layertypes "github.com/tellor-io/layer/types"
	minttypes "github.com/tellor-io/layer/x/mint/types"
	oracletypes "github.com/tellor-io/layer/x/oracle/types"
	reporterkeeper "github.com/tellor-io/layer/x/reporter/keeper"
	reportertypes "github.com/tellor-io/layer/x/reporter/types"
	"pgregory.net/rapid"

	"cosmossdk.io/collections"
	"cosmossdk.io/math"

	sdk "github.com/cosmos/cosmos-sdk/types"
	authtypes "github.com/cosmos/cosmos-sdk/x/auth/types"

	"verif/harness/pbt"
)

// C09Origin is one TokenOriginInfo of a report snapshot.
type C09Origin struct {
	Sel int    `json:"s"` // 0 = the reporter itself, 1..5 = its selectors
	Val int    `json:"v"` // validator number
	Amt uint64 `json:"a"` // recorded amount
}

// C09Appearance is one rewarded report of a reporter: the aggregate it is in,
// the power it contributed there and the stake snapshot recorded with it.
type C09Appearance struct {
	Agg     int         `json:"agg"`
	Power   uint64      `json:"power"`
	Height  uint64      `json:"height"`
	Origins []C09Origin `json:"origins"`
}

type C09Reporter struct {
	Rate string          `json:"rate"` // commission rate as stored (decimal)
	App  []C09Appearance `json:"app"`  // ordered by Agg, at most one per aggregate
}

type RewardCase struct {
	Reward    uint64        `json:"reward"`
	Tbr       bool          `json:"tbr"`   // paid from time_based_rewards instead of the oracle module (tips)
	Prior     bool          `json:"prior"` // addresses already hold tips from earlier payouts
	Reporters []C09Reporter `json:"reporters"`
}

const c09Rule = "reward 1..1e15; 1-8 reporters; powers 1..1e9; commission from {-0.5,0,1e-18,0.05,0.5,1,1.5,100} as far as the real CreateReporter accepts it; 0-5 selectors per reporter with 1-3 validators each; 0-3 own origins; reporters in 1-3 aggregates paid together with equal/different powers, heights and snapshots; optional prior tips; non-trivial = >=2 reporters, some non-zero commission, some selector with >=2 origins; distinct by SHA-256 of the case JSON"

// ------------------------------------------------------------------ harness

type rewardEnv struct {
	s        *setup.SharedSetup
	msg      reportertypes.MsgServer
	probe    sdk.AccAddress             // account with enough bonded stake to try CreateReporter
	accepted map[string]*math.LegacyDec // rate string -> stored rate (nil = rejected)
	oracle   sdk.AccAddress
	tbr      sdk.AccAddress
	escrow   sdk.AccAddress
}

func newRewardEnv(t *testing.T) *rewardEnv {
	s := &setup.SharedSetup{}
	s.SetupTest(t)
	e := &rewardEnv{s: s, accepted: map[string]*math.LegacyDec{}}
	accs, _, _ := s.CreateValidators(1)
	e.probe = accs[0]
	e.msg = reporterkeeper.NewMsgServerImpl(s.Reporterkeeper)
	// fund both source pools far beyond what all cases can spend (each case runs in a discarded branch)
	big18 := sdk.NewCoins(sdk.NewCoin(layertypes.BondDenom, math.NewIntWithDecimal(1, 18)))
	for _, mod := range []string{oracletypes.ModuleName, minttypes.TimeBasedRewards} {
		if err := s.Bankkeeper.MintCoins(s.Ctx, authtypes.Minter, big18); err != nil {
			t.Fatalf("mint: %v", err)
		}
		if err := s.Bankkeeper.SendCoinsFromModuleToModule(s.Ctx, authtypes.Minter, mod, big18); err != nil {
			t.Fatalf("fund %s: %v", mod, err)
		}
	}
	e.oracle = s.Accountkeeper.GetModuleAddress(oracletypes.ModuleName)
	e.tbr = s.Accountkeeper.GetModuleAddress(minttypes.TimeBasedRewards)
	// make sure the escrow module account exists in the base state
	e.escrow = s.Accountkeeper.GetModuleAccount(s.Ctx, reportertypes.TipsEscrowPool).GetAddress()
	return e
}

// acceptedRate asks the real CreateReporter handler (in a discarded branch)
// whether it takes this commission rate and returns the rate as stored.
func (e *rewardEnv) acceptedRate(rate string) (*math.LegacyDec, error) {
	if r, ok := e.accepted[rate]; ok {
		return r, nil
	}
	d, err := math.LegacyNewDecFromStr(rate)
	if err != nil {
		return nil, fmt.Errorf("malformed rate %q", rate)
	}
	ctx, _ := e.s.Ctx.CacheContext()
	params, err := e.s.Reporterkeeper.Params.Get(ctx)
	if err != nil {
		return nil, err
	}
	_, err = e.msg.CreateReporter(ctx, &reportertypes.MsgCreateReporter{ReporterAddress: e.probe.String(), CommissionRate: d, MinTokensRequired: params.MinTrb})
	if err != nil {
		e.accepted[rate] = nil
		return nil, nil
	}
	rep, err := e.s.Reporterkeeper.Reporters.Get(ctx, e.probe.Bytes())
	if err != nil {
		return nil, err
	}
	e.accepted[rate] = &rep.CommissionRate
	return &rep.CommissionRate, nil
}

func c09RepAddr(i int) []byte {
	a := make([]byte, 20)
	a[0], a[1] = 0xA9, byte(i)
	return a
}

func c09Addr(i, sel int) []byte {
	if sel == 0 {
		return c09RepAddr(i)
	}
	a := make([]byte, 20)
	a[0], a[1], a[2] = 0xB9, byte(i), byte(sel)
	return a
}

func c09ValAddr(v int) []byte {
	a := make([]byte, 20)
	a[0], a[1] = 0xC9, byte(v)
	return a
}

func c09QueryId(agg int) []byte {
	q := make([]byte, 32)
	q[0], q[31] = 0x09, byte(agg)
	return q
}

var c09PriorTips = math.LegacyMustNewDecFromStr("1000000000000.123456789012345678")

type c09Observed struct {
	delta       map[string]*big.Rat // address (string of bytes) -> SelectorTips after - before
	escrowDelta *big.Int
	sourceDelta *big.Int
	otherDelta  *big.Int // the source pool that was not named
	err         error
}

func decRat(d math.LegacyDec) *big.Rat {
	return new(big.Rat).SetFrac(d.BigInt(), new(big.Int).Exp(big.NewInt(10), big.NewInt(18), nil))
}

func (e *rewardEnv) run(c RewardCase, rates []*math.LegacyDec) (*c09Observed, error) {
	ctx, _ := e.s.Ctx.CacheContext()
	rk, bk := e.s.Reporterkeeper, e.s.Bankkeeper
	addrs := map[string]bool{}
	aggs := map[int]*oracletypes.Aggregate{}
	maxAgg := -1
	for i, r := range c.Reporters {
		ra := c09RepAddr(i)
		addrs[string(ra)] = true
		if err := rk.Reporters.Set(ctx, ra, reportertypes.OracleReporter{CommissionRate: *rates[i], MinTokensRequired: math.NewInt(1000000)}); err != nil {
			return nil, err
		}
		for _, ap := range r.App {
			tot := math.ZeroInt()
			origins := make([]*reportertypes.TokenOriginInfo, len(ap.Origins))
			for j, o := range ap.Origins {
				amt := math.NewIntFromUint64(o.Amt)
				origins[j] = &reportertypes.TokenOriginInfo{DelegatorAddress: c09Addr(i, o.Sel), ValidatorAddress: c09ValAddr(o.Val), Amount: amt}
				tot = tot.Add(amt)
				addrs[string(c09Addr(i, o.Sel))] = true
			}
			q := c09QueryId(ap.Agg)
			if err := rk.Report.Set(ctx, collections.Join(q, collections.Join(ra, ap.Height)), reportertypes.DelegationsAmounts{TokenOrigins: origins, Total: tot}); err != nil {
				return nil, err
			}
			if aggs[ap.Agg] == nil {
				aggs[ap.Agg] = &oracletypes.Aggregate{QueryId: q, AggregateValue: "aa", MetaId: uint64(ap.Agg)}
			}
			if ap.Agg > maxAgg {
				maxAgg = ap.Agg
			}
			aggs[ap.Agg].Reporters = append(aggs[ap.Agg].Reporters, &oracletypes.AggregateReporter{Reporter: sdk.AccAddress(ra).String(), Power: ap.Power, BlockNumber: ap.Height})
			aggs[ap.Agg].ReporterPower += ap.Power
		}
	}
	var list []*oracletypes.Aggregate
	for a := 0; a <= maxAgg; a++ {
		if aggs[a] != nil {
			list = append(list, aggs[a])
		}
	}
	if c.Prior {
		for a := range addrs {
			if err := rk.SelectorTips.Set(ctx, []byte(a), c09PriorTips); err != nil {
				return nil, err
			}
		}
	}
	src, srcAddr, otherAddr := oracletypes.ModuleName, e.oracle, e.tbr
	if c.Tbr {
		src, srcAddr, otherAddr = minttypes.TimeBasedRewards, e.tbr, e.oracle
	}
	bal := func(a sdk.AccAddress) *big.Int { return bk.GetBalance(ctx, a, layertypes.BondDenom).Amount.BigInt() }
	e0, s0, o0 := bal(e.escrow), bal(srcAddr), bal(otherAddr)
	obs := &c09Observed{delta: map[string]*big.Rat{}}
	obs.err = e.s.Oraclekeeper.AllocateRewards(ctx, list, math.NewIntFromUint64(c.Reward), src)
	if obs.err != nil {
		return obs, nil
	}
	obs.escrowDelta = new(big.Int).Sub(bal(e.escrow), e0)
	obs.sourceDelta = new(big.Int).Sub(bal(srcAddr), s0)
	obs.otherDelta = new(big.Int).Sub(bal(otherAddr), o0)
	for a := range addrs {
		after, err := rk.SelectorTips.Get(ctx, []byte(a))
		if err != nil {
			if c.Prior {
				return nil, err
			}
			obs.delta[a] = new(big.Rat)
			continue
		}
		d := decRat(after)
		if c.Prior {
			d.Sub(d, decRat(c09PriorTips))
		}
		obs.delta[a] = d
	}
	return obs, nil
}

func (e *rewardEnv) check(c RewardCase, info *pbt.CaseInfo, st *pbt.Stats) error {
	if bad := c09Wellformed(c); bad != "" {
		return fmt.Errorf("malformed case: %s", bad)
	}
	rates := make([]*math.LegacyDec, len(c.Reporters))
	for i, r := range c.Reporters {
		d, err := e.acceptedRate(r.Rate)
		if err != nil {
			return err
		}
		if d == nil {
			// a rate CreateReporter rejects is outside the quantifier
			info.Classes = []string{"rate-rejected-at-creation"}
			return nil
		}
		rates[i] = d
	}
	info.Nontrivial, info.Classes = c09Classify(c)
	obs, err := e.run(c, rates)
	if err != nil {
		return err
	}
	st.Count("oracle_evals", 1)
	rateRats := make([]*big.Rat, len(rates))
	for i, d := range rates {
		rateRats[i] = decRat(*d)
	}
	v, precision := c09Judge(c, rateRats, obs)
	if v != nil {
		return v
	}
	if precision != nil {
		// The statement grants 10^-18 per credit for the SUM; for "each reporter's part is proportional"
		// it names no tolerance. A reporter's part that deviates from R*power/total by at most
		// 0.5*10^-18*R (the 18-decimal fixed-point representation of power/total, scaled by the reward;
		// < 10^-3 loya for R <= 10^15) is counted here, not raised: demanding more would assert an
		// exactness the statement does not claim. Larger deviations are raised as C09/reporter-share.
		info.Classes = append(info.Classes, "reporter-part-within-R*1e-18-of-exact(counted)")
		st.Count("reporter_share_fixed_point_deviation", 1)
	}
	return nil
}

// ------------------------------------------------------------------ generator

var c09Rates = []string{"0", "0.000000000000000001", "0.05", "0.5", "1", "1.5", "100", "-0.5", "100.000000000000000001"}

func c09Uni(t *rapid.T, label string, n int) int {
	return int(rapid.Uint32().Draw(t, label) % uint32(n))
}

func genC09Amount(t *rapid.T) uint64 {
	switch c09Uni(t, "akind", 5) {
	case 0:
		return uint64(1 + c09Uni(t, "as", 3))
	case 1:
		return uint64(1+c09Uni(t, "am", 1000)) * 1000000
	case 2:
		return 1000000
	case 3:
		return rapid.Uint64Range(1, 10000000000000).Draw(t, "ar")
	default:
		return uint64(1 + c09Uni(t, "a7", 7))
	}
}

func genC09Power(t *rapid.T) uint64 {
	switch c09Uni(t, "pkind", 5) {
	case 0:
		return uint64(1 + c09Uni(t, "ps", 3))
	case 1:
		return 1000000000
	case 2:
		return rapid.Uint64Range(1, 1000000000).Draw(t, "pr")
	default:
		return uint64(1 + c09Uni(t, "pm", 1000))
	}
}

func genC09Snapshot(t *rapid.T, own int, nSel int) []C09Origin {
	var out []C09Origin
	for k := 0; k < own; k++ {
		out = append(out, C09Origin{Sel: 0, Val: k, Amt: genC09Amount(t)})
	}
	for s := 1; s <= nSel; s++ {
		nv := 1
		if c09Uni(t, "multiVal", 3) == 0 {
			nv = 2 + c09Uni(t, "nv", 2)
		}
		for k := 0; k < nv; k++ {
			out = append(out, C09Origin{Sel: s, Val: k, Amt: genC09Amount(t)})
		}
	}
	if c09Uni(t, "shuffle", 3) == 0 && len(out) > 1 {
		p := rapid.Permutation(out).Draw(t, "order")
		out = p
	}
	return out
}

func genRewardCase(t *rapid.T) RewardCase {
	var c RewardCase
	switch c09Uni(t, "rkind", 6) {
	case 0:
		c.Reward = uint64(1 + c09Uni(t, "rs", 10))
	case 1:
		c.Reward = []uint64{1000000, 1000000000000000, 999999999999999, 1000003, 7}[c09Uni(t, "rsp", 5)]
	case 2:
		c.Reward = rapid.Uint64Range(1, 1000000000000000).Draw(t, "rr")
	default:
		// log-uniform
		e := c09Uni(t, "re", 16)
		lo := uint64(1)
		for i := 0; i < e; i++ {
			lo *= 10
		}
		hi := lo*10 - 1
		if hi > 1000000000000000 {
			hi = 1000000000000000
		}
		if lo > hi {
			lo = hi
		}
		c.Reward = rapid.Uint64Range(lo, hi).Draw(t, "rl")
	}
	c.Tbr = c09Uni(t, "tbr", 2) == 0
	c.Prior = c09Uni(t, "prior", 4) == 0
	// case-level switches keep a good share of cases free of the shapes that trigger already-known defects
	allowHighRate := c09Uni(t, "allowHighRate", 5) == 0
	allowOddOwn := c09Uni(t, "allowOddOwn", 3) == 0
	allowDiffPower := c09Uni(t, "allowDiffPower", 3) == 0
	nAgg := 1
	if c09Uni(t, "multiAgg", 2) == 0 {
		nAgg = 2 + c09Uni(t, "nAgg", 2)
	}
	nRep := 1 + c09Uni(t, "nRep", 4)
	if c09Uni(t, "manyRep", 4) == 0 {
		nRep = 5 + c09Uni(t, "nRep2", 4)
	}
	for i := 0; i < nRep; i++ {
		var r C09Reporter
		r.Rate = c09Rates[c09Uni(t, "rate", 5)] // 0 .. 1
		if allowHighRate && c09Uni(t, "high", 2) == 0 {
			// 1.5, 100, -0.5 and (rarely) a rate CreateReporter rejects
			r.Rate = c09Rates[[]int{5, 5, 5, 6, 6, 7, 7, 8}[c09Uni(t, "rateHi", 8)]]
		}
		own := 1
		if allowOddOwn {
			own = c09Uni(t, "own", 4)
		}
		nSel := c09Uni(t, "nSel", 4)
		if c09Uni(t, "maxSel", 6) == 0 {
			nSel = 5
		}
		if own == 0 && nSel == 0 {
			nSel = 1
		}
		// which aggregates
		nApp := 1
		if nAgg > 1 && c09Uni(t, "multiApp", 2) == 0 {
			nApp = 2 + c09Uni(t, "nApp", nAgg-1)
		}
		first := c09Uni(t, "firstAgg", nAgg-nApp+1)
		base := genC09Snapshot(t, own, nSel)
		power := genC09Power(t)
		height := uint64(1 + c09Uni(t, "height", 1000))
		for k := 0; k < nApp; k++ {
			ap := C09Appearance{Agg: first + k, Power: power, Height: height, Origins: base}
			if k > 0 {
				if allowDiffPower && c09Uni(t, "diffPower", 2) == 0 {
					ap.Power = genC09Power(t)
				}
				if c09Uni(t, "diffHeight", 2) == 0 {
					ap.Height = uint64(1 + c09Uni(t, "height2", 1000))
				}
				if c09Uni(t, "diffSnap", 2) == 0 {
					own2, nSel2 := own, nSel
					if c09Uni(t, "reshape", 2) == 0 {
						nSel2 = c09Uni(t, "nSel2", 6)
						if own2 == 0 && nSel2 == 0 {
							nSel2 = 1
						}
					}
					ap.Origins = genC09Snapshot(t, own2, nSel2)
				}
			}
			r.App = append(r.App, ap)
		}
		c.Reporters = append(c.Reporters, r)
	}
	return c
}

func TestC09_RewardSplit(t *testing.T) {
	e := newRewardEnv(t)
	pbt.Run(t, pbt.Prop[RewardCase]{Property: "C09", Name: "TestC09_RewardSplit", Rule: c09Rule, Gen: genRewardCase, Check: e.check})
}
