package pure

// Exact-rational reference for C09, written from the property statement:
//
//   reporter i's part   = R x (sum of the powers it contributed to the rewarded aggregates) / (sum of all powers)
//   within a reporter   = commission rate x part to the reporter exactly once, the remainder divided in
//                         proportion to each selector's stake recorded with the report
//   all credits sum to R within 1e-18 per credit, every credit is non-negative,
//   and the escrow pool receives exactly R from the named source pool.
//
// The check is two-level so that one deviation is reported where it arises:
// (a) the total credited to a reporter's addresses against the exact part,
// (b) the division inside the reporter relative to the total it actually got;
// where a reporter has several rewarded reports with different snapshots the
// division may follow any one of them.

import (
	"fmt"
	"math/big"
	"sort"

	"verif/harness/pbt"
)

var c09Unit = new(big.Rat).SetFrac(big.NewInt(1), new(big.Int).Exp(big.NewInt(10), big.NewInt(18), nil))

func c09Wellformed(c RewardCase) string {
	if c.Reward < 1 || len(c.Reporters) < 1 || len(c.Reporters) > 8 {
		return "reward/reporters out of range"
	}
	for _, r := range c.Reporters {
		if len(r.App) < 1 || len(r.App) > 3 {
			return "appearances out of range"
		}
		last := -1
		for _, ap := range r.App {
			if ap.Agg <= last || ap.Agg > 2 || ap.Power < 1 || ap.Height < 1 || len(ap.Origins) < 1 {
				return "appearance malformed"
			}
			last = ap.Agg
			for _, o := range ap.Origins {
				if o.Sel < 0 || o.Sel > 5 || o.Amt < 1 || o.Val < 0 || o.Val > 255 {
					return "origin malformed"
				}
			}
		}
	}
	return ""
}

func c09Classify(c RewardCase) (bool, []string) {
	var cl []string
	nonzero, multiOrigin, multiApp, diffPower, diffSnap := false, false, false, false, false
	for _, r := range c.Reporters {
		if r.Rate != "0" {
			nonzero = true
		}
		if len(r.App) > 1 {
			multiApp = true
			for _, ap := range r.App[1:] {
				if ap.Power != r.App[0].Power {
					diffPower = true
				}
				if fmt.Sprint(ap.Origins) != fmt.Sprint(r.App[0].Origins) {
					diffSnap = true
				}
			}
		}
		for _, ap := range r.App {
			cnt := map[int]int{}
			for _, o := range ap.Origins {
				if o.Sel != 0 {
					cnt[o.Sel]++
				}
			}
			for _, n := range cnt {
				if n >= 2 {
					multiOrigin = true
				}
			}
		}
	}
	if multiApp {
		cl = append(cl, "reporter-in-several-aggregates")
	}
	if diffPower {
		cl = append(cl, "several-aggregates-different-powers")
	}
	if diffSnap {
		cl = append(cl, "several-aggregates-different-snapshots")
	}
	if multiOrigin {
		cl = append(cl, "selector-with->=2-validators")
	}
	if c.Prior {
		cl = append(cl, "prior-tips")
	}
	if c.Tbr {
		cl = append(cl, "from-tbr-pool")
	} else {
		cl = append(cl, "from-oracle-pool")
	}
	cl = append(cl, fmt.Sprintf("reporters=%d", len(c.Reporters)))
	return len(c.Reporters) >= 2 && nonzero && multiOrigin, cl
}

// c09Shape names the already-known defect a case's shape can trigger ("" = none).
func c09Shape(c RewardCase, rates []*big.Rat) string {
	one := big.NewRat(1, 1)
	for _, r := range rates {
		if r.Cmp(one) > 0 {
			return "C09/commission-rate-above-one"
		}
	}
	for _, r := range rates {
		if r.Sign() < 0 {
			return "C09/commission-rate-negative"
		}
	}
	for _, r := range c.Reporters {
		for _, ap := range r.App[1:] {
			if ap.Power != r.App[0].Power {
				return "C09/multi-aggregate-power"
			}
		}
	}
	for i, r := range c.Reporters {
		if rates[i].Sign() == 0 {
			continue
		}
		for _, ap := range r.App {
			own := 0
			for _, o := range ap.Origins {
				if o.Sel == 0 {
					own++
				}
			}
			if own != 1 {
				return "C09/commission-per-origin"
			}
		}
	}
	return ""
}

func ratU64(x uint64) *big.Rat { return new(big.Rat).SetInt(new(big.Int).SetUint64(x)) }

func ratAbs(x *big.Rat) *big.Rat { return new(big.Rat).Abs(x) }

func inUnits(x *big.Rat) string {
	return new(big.Rat).Quo(x, c09Unit).FloatString(2) + "e-18"
}

// c09Judge returns the first real violation, and separately the deviation that
// is fully explained by rounding power/totalPower to 18 decimals before
// multiplying by the reward (reported last so that it never hides another one).
func c09Judge(c RewardCase, rates []*big.Rat, obs *c09Observed) (viol *pbt.Violation, precision *pbt.Violation) {
	shape := c09Shape(c, rates)
	sig := func(generic string) string {
		if shape != "" {
			return shape
		}
		return "C09/" + generic
	}
	if obs.err != nil {
		return pbt.Violf(sig("error"), "AllocateRewards returned %v", obs.err), nil
	}
	R := ratU64(c.Reward)
	n := len(c.Reporters)
	totalPower := new(big.Rat)
	for _, r := range c.Reporters {
		for _, ap := range r.App {
			totalPower.Add(totalPower, ratU64(ap.Power))
		}
	}
	type repView struct {
		share   *big.Rat
		got     *big.Rat
		credits int64
		sels    []int
	}
	reps := make([]repView, n)
	sum := new(big.Rat)
	var allCredits int64
	// 1. every credit non-negative
	for i, r := range c.Reporters {
		seen := map[int]bool{0: true}
		p := new(big.Rat)
		var credits int64
		for _, ap := range r.App {
			p.Add(p, ratU64(ap.Power))
			credits += int64(len(ap.Origins)) + 1
			for _, o := range ap.Origins {
				seen[o.Sel] = true
			}
		}
		rv := repView{share: new(big.Rat).Quo(new(big.Rat).Mul(R, p), totalPower), got: new(big.Rat), credits: credits}
		for s := range seen {
			rv.sels = append(rv.sels, s)
		}
		sort.Ints(rv.sels)
		for _, s := range rv.sels {
			d := obs.delta[string(c09Addr(i, s))]
			if d.Sign() < 0 {
				who := "selector"
				if s == 0 {
					who = "the reporter itself"
				}
				return pbt.Violf(sig("negative-credit"), "reporter %d (rate %s): %s %d is credited %s", i, r.Rate, who, s, d.FloatString(18)), nil
			}
			rv.got.Add(rv.got, d)
		}
		sum.Add(sum, rv.got)
		allCredits += credits
		reps[i] = rv
	}
	// 2. the money follows: escrow +R, named source -R, the other pool untouched
	Rint := new(big.Int).SetUint64(c.Reward)
	if obs.escrowDelta.Cmp(Rint) != 0 || new(big.Int).Neg(obs.sourceDelta).Cmp(Rint) != 0 || obs.otherDelta.Sign() != 0 {
		return pbt.Violf(sig("escrow-balance"), "reward %d: escrow pool %+d, source pool %+d, other pool %+d", c.Reward, obs.escrowDelta, obs.sourceDelta, obs.otherDelta), nil
	}
	// 3. credits sum to R
	tolSum := new(big.Rat).Mul(big.NewRat(allCredits, 1), c09Unit)
	if d := new(big.Rat).Sub(sum, R); ratAbs(d).Cmp(tolSum) > 0 {
		return pbt.Violf(sig("sum"), "credits sum to %s for reward %d (off by %s, %d credits)", sum.FloatString(18), c.Reward, d.FloatString(18), allCredits), nil
	}
	// 4. (a) each reporter's part
	half := new(big.Rat).Mul(new(big.Rat).Mul(R, big.NewRat(1, 2)), c09Unit) // 18-decimal rounding of power/total, times R
	var worst *pbt.Violation
	outliers, worstI := 0, -1
	devs := make([]*big.Rat, n)
	for i, rv := range reps {
		devs[i] = ratAbs(new(big.Rat).Sub(rv.got, rv.share))
		tol := new(big.Rat).Mul(big.NewRat(rv.credits, 1), c09Unit)
		if devs[i].Cmp(tol) <= 0 {
			continue
		}
		if worst == nil || devs[i].Cmp(devs[worstI]) > 0 {
			worstI = i
			worst = pbt.Violf("", "reporter %d: credited %s in total, exact part R*power/total = %s (off by %s, tolerance %d credits x 1e-18); reward %d, %d reporters",
				i, rv.got.FloatString(18), rv.share.FloatString(18), inUnits(devs[i]), rv.credits, c.Reward, n)
		}
		if devs[i].Cmp(new(big.Rat).Add(half, tol)) > 0 {
			outliers++
		}
	}
	if worst != nil {
		explained := outliers == 0
		if outliers == 1 {
			// the reporter that receives the remainder absorbs the others' rounding
			lim := new(big.Rat).Add(new(big.Rat).Mul(half, big.NewRat(int64(n-1), 1)), tolSum)
			explained = true
			for i := range reps {
				tol := new(big.Rat).Mul(big.NewRat(reps[i].credits, 1), c09Unit)
				if devs[i].Cmp(new(big.Rat).Add(half, tol)) > 0 && devs[i].Cmp(lim) > 0 {
					explained = false
				}
			}
		}
		if explained {
			precision = pbt.Violf("C09/reporter-share-precision", "power/totalPower is rounded to 18 decimals before it is multiplied by the reward: %s", worst.Msg)
		} else {
			return pbt.Violf(sig("reporter-share"), "%s", worst.Msg), nil
		}
	}
	// 5. (b) division inside each reporter, relative to what the reporter got
	for i, r := range c.Reporters {
		rv := reps[i]
		rate := rates[i]
		var firstMsg string
		ok := false
		for k, ap := range r.App {
			amt := map[int]*big.Rat{}
			cnt := map[int]int64{}
			tot := new(big.Rat)
			for _, o := range ap.Origins {
				if amt[o.Sel] == nil {
					amt[o.Sel] = new(big.Rat)
				}
				amt[o.Sel].Add(amt[o.Sel], ratU64(o.Amt))
				cnt[o.Sel]++
				tot.Add(tot, ratU64(o.Amt))
			}
			good := true
			for _, s := range rv.sels {
				w := new(big.Rat)
				if amt[s] != nil {
					w.Mul(new(big.Rat).Sub(big.NewRat(1, 1), rate), new(big.Rat).Quo(amt[s], tot))
				}
				credits := cnt[s]
				if s == 0 {
					w.Add(w, rate)
					if rate.Sign() != 0 {
						credits++ // the commission is a credit of its own
					}
				}
				want := new(big.Rat).Mul(rv.got, w)
				tol := new(big.Rat).Add(big.NewRat(credits, 1), new(big.Rat).Mul(big.NewRat(rv.credits, 1), ratAbs(w)))
				tol.Mul(tol, c09Unit)
				got := obs.delta[string(c09Addr(i, s))]
				if d := new(big.Rat).Sub(got, want); ratAbs(d).Cmp(tol) > 0 {
					good = false
					if firstMsg == "" || k == 0 && s == 0 {
						who := fmt.Sprintf("selector %d", s)
						if s == 0 {
							who = "the reporter itself"
						}
						firstMsg = fmt.Sprintf("reporter %d (rate %s, credited %s in total): %s got %s, by the snapshot of its report in aggregate %d it is due %s (commission once + stake share; off by %s)",
							i, r.Rate, rv.got.FloatString(18), who, got.FloatString(18), ap.Agg, want.FloatString(18), d.FloatString(18))
					}
					break
				}
			}
			if good {
				ok = true
				break
			}
		}
		if !ok {
			return pbt.Violf(sig("selector-share"), "%s", firstMsg), nil
		}
	}
	return nil, precision
}
