package pure

import (
	"sync"
	"testing"

	"pgregory.net/rapid"

	"verif/harness/pbt"
)

// Coverage-guided variants of the function-level properties (thorough tier only). The environments need a
// *testing.T, so they are built lazily by the first execution of each fuzz worker process.

func FuzzC09_RewardSplit(f *testing.F) {
	var once sync.Once
	var e *rewardEnv
	f.Add([]byte{0})
	f.Add([]byte{1, 2, 3, 4, 5, 6, 7, 8, 9, 10, 11, 12, 13, 14, 15, 16, 17, 18, 19, 20, 21, 22, 23, 24, 25, 26, 27, 28, 29, 30, 31, 32})
	f.Add([]byte("\xff\xff\xff\xff\xff\xff\xff\xff several reporters several selectors \x00\x01\x02\x03"))
	f.Fuzz(func(t *testing.T, b []byte) {
		once.Do(func() { e = newRewardEnv(t) })
		rapid.MakeFuzz(pbt.FuzzProp("C09", "FuzzC09_RewardSplit", "TestC09_RewardSplit", genRewardCase, e.check))(t, b)
	})
}

func FuzzC12_Tally(f *testing.F) {
	e := newTallyEnv(f)
	f.Add([]byte{0})
	f.Add([]byte{1, 2, 3, 4, 5, 6, 7, 8, 9, 10, 11, 12, 13, 14, 15, 16, 17, 18, 19, 20, 21, 22, 23, 24, 25, 26, 27, 28, 29, 30, 31, 32})
	f.Add([]byte("\xff\xff\xff\xff\xff\xff\xff\xff quorum edge \x80\x80\x80\x80 tie \x00\x01\x02\x03"))
	f.Fuzz(rapid.MakeFuzz(pbt.FuzzProp("C12", "FuzzC12_Tally", "TestC12_Tally", genTallyCase, e.check)))
}
