package pure

// C15 — bridge byte encodings agree with the EVM contracts.
//
// Oracle: verif/harness/evmref, an independent reference (own ABI encoder, own
// keccak import, no x/bridge code, no go-ethereum accounts/abi) whose type lists
// and argument orders are extracted at run time from BlobstreamO.sol,
// Constants.sol and TokenBridge.sol under $VERIF_REPO (default /repo). The chain
// side is the real bridge keeper (testutil keeper over an in-memory store) and,
// for the signing convention, the real app.VoteExtHandler signing functions over
// an in-memory keyring.

import (
	"bytes"
	"crypto/sha256"
	"encoding/hex"
	"fmt"
	"math/big"
	"os"
	"strings"
	"sync"
	"testing"
	"time"

	"github.com/spf13/viper"
	"github.com/stretchr/testify/mock"
	"github.com/tellor-io/layer/app"
	keepertest "github.com/tellor-io/layer/testutil/keeper"
	layertypes "github.com/tellor-io/layer/types"
	bridgekeeper "github.com/tellor-io/layer/x/bridge/keeper"
	bridgetypes "github.com/tellor-io/layer/x/bridge/types"
	"pgregory.net/rapid"

	"cosmossdk.io/log"
	"cosmossdk.io/math"

	"github.com/cosmos/cosmos-sdk/codec"
	codectypes "github.com/cosmos/cosmos-sdk/codec/types"
	cryptocodec "github.com/cosmos/cosmos-sdk/crypto/codec"
	sdk "github.com/cosmos/cosmos-sdk/types"

	"verif/harness/evmref"
	"verif/harness/pbt"
)

type c15Env struct {
	k     bridgekeeper.Keeper
	ctx   sdk.Context
	reset func() // forgets the calls recorded by the testify mocks (they only grow; matters under native fuzzing)
	n     int
}

func newC15Env(t testing.TB) *c15Env {
	k, _, _, _, _, sk, ctx := keepertest.BridgeKeeper(t)
	sk.On("TotalBondedTokens", mock.Anything).Return(math.NewInt(123456789), nil)
	return &c15Env{k: k, ctx: ctx, reset: func() { sk.Calls = nil }}
}

func (e *c15Env) fresh() sdk.Context {
	if e.n++; e.n%20000 == 0 && e.reset != nil {
		e.reset()
	}
	c, _ := e.ctx.CacheContext()
	return c
}

func mismatch(sig, what string, chain, ref []byte, extra string) *pbt.Violation {
	return pbt.Violf(sig, "%s: chain=%x reference=%x %s", what, chain, ref, extra)
}

// ================================================================ Valset: hash, checkpoint, threshold

type C15Val struct {
	Addr  string `json:"addr"` // 20 bytes hex
	Power uint64 `json:"power"`
}

type C15ValsetCase struct {
	Vals      []C15Val `json:"vals"`
	Threshold uint64   `json:"threshold"` // arbitrary threshold for the direct checkpoint call
	Timestamp uint64   `json:"timestamp"` // arbitrary validator timestamp for the direct checkpoint call
	BlockMs   int64    `json:"block_ms"`  // block time (ms) under which the chain stores the set's params
}

func genC15Vals(t *rapid.T, maxN int) []C15Val {
	n := rapid.OneOf(rapid.Just(1), rapid.IntRange(2, 5), rapid.IntRange(2, 5), rapid.IntRange(6, 40), rapid.IntRange(41, 100), rapid.Just(100)).Draw(t, "n")
	if n > maxN {
		n = maxN
	}
	big := rapid.IntRange(0, 9).Draw(t, "regime") == 0 // ~10%: totals beyond 2^62
	vals := make([]C15Val, n)
	var total uint64
	const budget = uint64(1) << 62
	for i := range vals {
		var addr []byte
		if i > 0 && rapid.IntRange(0, 15).Draw(t, "dup") == 0 {
			addr, _ = hex.DecodeString(vals[rapid.IntRange(0, i-1).Draw(t, "dupOf")].Addr)
		} else {
			addr = genBytesN(t, 20, "addr")
		}
		var p uint64
		if big {
			switch rapid.IntRange(0, 5).Draw(t, "pkind") {
			case 0:
				p = rapid.SampledFrom([]uint64{1<<63 - 1, 1 << 63, 1 << 62, 1<<62 + 1, 1 << 61}).Draw(t, "p")
			case 1:
				p = rapid.Uint64Range(1, 1<<63).Draw(t, "p")
			default:
				p = rapid.Uint64Range(1, 1000).Draw(t, "p")
			}
		} else {
			switch rapid.IntRange(0, 7).Draw(t, "pkind") {
			case 0, 1, 2:
				p = rapid.Uint64Range(1, 3).Draw(t, "p")
			case 3:
				p = rapid.SampledFrom([]uint64{1, 2, 1<<32 - 1, 1 << 32, 1 << 60, 1<<60 + 1, 1_000_000, 0}).Draw(t, "p")
			case 4:
				p = rapid.Uint64Range(1, budget/uint64(n)).Draw(t, "p")
			default:
				p = rapid.Uint64Range(1, 5_000_000).Draw(t, "p")
			}
			if total+p > budget {
				p = 1
			}
			total += p
		}
		vals[i] = C15Val{Addr: c15Hex(addr), Power: p}
	}
	return vals
}

func genC15Valset(t *rapid.T) C15ValsetCase {
	c := C15ValsetCase{Vals: genC15Vals(t, 100)}
	c.Threshold = genU64(t, "threshold")
	c.Timestamp = genU64(t, "timestamp")
	c.BlockMs = int64(genU64(t, "block_ms") & (1<<63 - 1))
	return c
}

func c15Sets(vals []C15Val) ([]evmref.Validator, *bridgetypes.BridgeValidatorSet, error) {
	ref := make([]evmref.Validator, len(vals))
	chain := &bridgetypes.BridgeValidatorSet{}
	for i, v := range vals {
		a, err := c15Unhex(v.Addr)
		if err != nil || len(a) != 20 {
			return nil, nil, fmt.Errorf("validator %d: address must be 20 bytes hex: %q", i, v.Addr)
		}
		copy(ref[i].Addr[:], a)
		ref[i].Power = v.Power
		chain.BridgeValidatorSet = append(chain.BridgeValidatorSet, &bridgetypes.BridgeValidator{EthereumAddress: a, Power: v.Power})
	}
	return ref, chain, nil
}

const c15ValsetRule = "validator sets of 1-100 members (addresses: zero, ff.., low/high-aligned, random, duplicates; powers 1-3, 2^32, 2^60, random; ~10% of cases in a big-power regime with 2^61..2^63 members so that the total exceeds 2^62), arbitrary uint64 threshold/timestamp (edges 0,1,2^63,2^64-1) for the direct checkpoint call, block time 0..2^63-1 ms for the stored params; non-trivial = at least 2 validators; distinct by SHA-256 of the case JSON"

func checkC15Valset(e *c15Env, c C15ValsetCase, info *pbt.CaseInfo, st *pbt.Stats) error {
	sp, err := evmref.Default()
	if err != nil {
		return err
	}
	if len(c.Vals) == 0 || c.BlockMs < 0 {
		return nil
	}
	ref, chainSet, err := c15Sets(c.Vals)
	if err != nil {
		return err
	}
	total := evmref.TotalPower(ref)
	info.Nontrivial = len(ref) >= 2
	switch {
	case len(ref) == 1:
		info.Classes = append(info.Classes, "n=1")
	case len(ref) <= 5:
		info.Classes = append(info.Classes, "n=2-5")
	case len(ref) < 100:
		info.Classes = append(info.Classes, "n=6-99")
	default:
		info.Classes = append(info.Classes, "n=100")
	}
	seen := map[[20]byte]bool{}
	for _, v := range ref {
		if seen[v.Addr] {
			info.Classes = append(info.Classes, "duplicate-address")
			break
		}
		seen[v.Addr] = true
	}
	if seen[[20]byte{}] {
		info.Classes = append(info.Classes, "zero-address")
	}
	switch {
	case total.Cmp(pow2(62)) <= 0:
		info.Classes = append(info.Classes, "total<=2^62")
	case total.Cmp(pow2(63)) < 0:
		info.Classes = append(info.Classes, "total in (2^62,2^63)")
	case total.Cmp(pow2(64)) < 0:
		info.Classes = append(info.Classes, "total in [2^63,2^64): 2*total overflows uint64")
	default:
		info.Classes = append(info.Classes, "total>=2^64: sum overflows uint64")
	}
	if new(big.Int).Mod(total, big.NewInt(3)).Sign() == 0 {
		info.Classes = append(info.Classes, "total%3==0")
	}

	// 1. validator-set encoding and hash
	refEnc, err := sp.ValsetEncoding(ref)
	if err != nil {
		return err
	}
	refHash := evmref.Keccak256Hash(refEnc)
	ctx := e.fresh()
	chainEnc, chainHash, err := e.k.EncodeAndHashValidatorSet(ctx, chainSet)
	if err != nil {
		return pbt.Violf("C15/valset-error", "EncodeAndHashValidatorSet failed: %v", err)
	}
	if !bytes.Equal(chainEnc, refEnc) {
		i := 0
		for i < len(chainEnc) && i < len(refEnc) && chainEnc[i] == refEnc[i] {
			i++
		}
		return pbt.Violf("C15/valset-encoding", "abi.encode(Validator[]) differs at byte %d (word %d): chain len %d, reference len %d; chain word=%x reference word=%x",
			i, i/32, len(chainEnc), len(refEnc), wordAt(chainEnc, i/32), wordAt(refEnc, i/32))
	}
	if !bytes.Equal(chainHash, refHash[:]) {
		return mismatch("C15/valset-hash", "validator set hash", chainHash, refHash[:], "")
	}
	st.Count("oracle_evals", 2)

	// 2. domain-separated checkpoint for arbitrary threshold / timestamp
	refCp, err := sp.Checkpoint(new(big.Int).SetUint64(c.Threshold), new(big.Int).SetUint64(c.Timestamp), refHash)
	if err != nil {
		return err
	}
	chainCp, err := e.k.CalculateValidatorSetCheckpoint(ctx, c.Threshold, c.Timestamp, chainHash)
	if err != nil {
		return pbt.Violf("C15/checkpoint-error", "CalculateValidatorSetCheckpoint failed: %v", err)
	}
	if !bytes.Equal(chainCp, refCp[:]) {
		return mismatch("C15/checkpoint", "checkpoint", chainCp, refCp[:], fmt.Sprintf("(threshold=%d timestamp=%d)", c.Threshold, c.Timestamp))
	}
	st.Count("oracle_evals", 1)

	// 3. what the chain stores for this set: threshold = 2/3 of total, checkpoint over it
	ctx2 := e.fresh().WithBlockTime(time.UnixMilli(c.BlockMs))
	if err := e.k.SetBridgeValidatorParams(ctx2, chainSet); err != nil {
		return pbt.Violf("C15/params-error", "SetBridgeValidatorParams failed: %v", err)
	}
	params, err := e.k.GetValidatorCheckpointParamsFromStorage(ctx2, uint64(c.BlockMs))
	if err != nil {
		return pbt.Violf("C15/params-error", "no checkpoint params stored at timestamp %d: %v", c.BlockMs, err)
	}
	if !bytes.Equal(params.ValsetHash, refHash[:]) || params.Timestamp != uint64(c.BlockMs) {
		return pbt.Violf("C15/stored-params", "stored valset hash %x / timestamp %d, reference %x / %d", params.ValsetHash, params.Timestamp, refHash, c.BlockMs)
	}
	refTh := evmref.Threshold(total)
	if new(big.Int).SetUint64(params.PowerThreshold).Cmp(refTh) != 0 {
		sig := "C15/threshold"
		if total.Cmp(pow2(64)) >= 0 { // the sum itself does not fit the chain's uint64 power field
			sig = "C15/total-power-exceeds-uint64"
		} else if total.Cmp(pow2(63)) >= 0 { // 2*total does not fit uint64
			sig = "C15/threshold-overflow"
		}
		return pbt.Violf(sig, "total power %s: chain threshold %d, two thirds is %s", total, params.PowerThreshold, refTh)
	}
	refCp2, err := sp.Checkpoint(refTh, big.NewInt(c.BlockMs), refHash)
	if err != nil {
		return err
	}
	if !bytes.Equal(params.Checkpoint, refCp2[:]) {
		return mismatch("C15/stored-checkpoint", "stored checkpoint", params.Checkpoint, refCp2[:], "")
	}
	cur, err := e.k.GetValidatorCheckpointFromStorage(ctx2)
	if err != nil || !bytes.Equal(cur.Checkpoint, refCp2[:]) {
		return pbt.Violf("C15/stored-checkpoint", "current ValidatorCheckpoint is %v (err %v), reference %x", cur, err, refCp2)
	}
	st.Count("oracle_evals", 3)

	// 4. a contract initialised with the chain's numbers accepts the chain's validator set
	bs := evmref.NewBlobstream(sp, params.PowerThreshold, params.Timestamp, evmref.Bytes32FromBytes(params.Checkpoint))
	err = bs.VerifyOracleData(uint64(c.BlockMs/1000), evmref.OracleAttestationData{}, ref, make([]evmref.Sig, len(ref)))
	if err == evmref.ErrSuppliedValidatorSetInvalid {
		return pbt.Violf("C15/contract-rejects-valset", "BlobstreamO initialised with the chain's threshold/timestamp/checkpoint reverts SuppliedValidatorSetInvalid for the chain's own validator set")
	}
	if err != nil && !evmref.IsRevert(err) {
		return err
	}
	return nil
}

func wordAt(b []byte, w int) []byte {
	if w*32 >= len(b) {
		return nil
	}
	end := w*32 + 32
	if end > len(b) {
		end = len(b)
	}
	return b[w*32 : end]
}

func TestC15_Valset(t *testing.T) {
	e := newC15Env(t)
	pbt.Run(t, pbt.Prop[C15ValsetCase]{Property: "C15", Name: "TestC15_Valset", Rule: c15ValsetRule, Gen: genC15Valset,
		Check: func(c C15ValsetCase, info *pbt.CaseInfo, st *pbt.Stats) error { return checkC15Valset(e, c, info, st) }})
}

// ================================================================ Attestation digest

type C15AttCase struct {
	QueryId    string `json:"query_id"`   // hex, normally 32 bytes
	Value      string `json:"value"`      // hex string exactly as the chain stores the aggregate value
	Timestamp  uint64 `json:"timestamp"`  // report timestamp (ms)
	Power      uint64 `json:"power"`      // aggregate power
	Prev       uint64 `json:"prev"`       // previous report timestamp
	Next       uint64 `json:"next"`       // next report timestamp
	Checkpoint string `json:"checkpoint"` // hex 32 bytes
	AttestTs   uint64 `json:"attest_ts"`  // attestation timestamp
}

func genC15Att(t *rapid.T) C15AttCase {
	qlen := 32
	if rapid.IntRange(0, 9).Draw(t, "qid_odd") == 0 {
		qlen = rapid.IntRange(0, 48).Draw(t, "qid_len")
	}
	vlen := rapid.OneOf(rapid.SampledFrom([]int{0, 1, 31, 32, 33, 63, 64, 65, 96, 128, 160, 192, 200}), rapid.IntRange(0, 200), rapid.IntRange(0, 200)).Draw(t, "value_len")
	return C15AttCase{
		QueryId:    c15Hex(genBytesN(t, qlen, "query_id")),
		Value:      hexWithCase(genBytesN(t, vlen, "value"), rapid.IntRange(0, 2).Draw(t, "hexcase")),
		Timestamp:  genU64(t, "timestamp"),
		Power:      genU64(t, "power"),
		Prev:       genU64(t, "prev"),
		Next:       genU64(t, "next"),
		Checkpoint: c15Hex(genBytesN(t, 32, "checkpoint")),
		AttestTs:   genU64(t, "attest_ts"),
	}
}

const c15AttRule = "attestation tuples: query id 32 bytes (10%: 0-48 bytes, compared under Solidity's bytes->bytes32 conversion), value 0-200 bytes as a lower/upper/mixed-case hex string, five uint64 fields with edges 0,1,2^63,2^64-1 and random, 32-byte checkpoint (zero, ff.., aligned, random); non-trivial = value length not a multiple of 32 or longer than one word; distinct by SHA-256 of the case JSON"

func checkC15Att(e *c15Env, c C15AttCase, info *pbt.CaseInfo, st *pbt.Stats) error {
	sp, err := evmref.Default()
	if err != nil {
		return err
	}
	qid, err := c15Unhex(c.QueryId)
	if err != nil {
		return err
	}
	val, err := c15Unhex(c.Value)
	if err != nil {
		return err
	}
	cp, err := c15Unhex(c.Checkpoint)
	if err != nil || len(cp) != 32 {
		return fmt.Errorf("checkpoint must be 32 bytes hex: %q", c.Checkpoint)
	}
	info.Nontrivial = len(val)%32 != 0 || len(val) > 32
	switch {
	case len(val) == 0:
		info.Classes = append(info.Classes, "value-empty")
	case len(val)%32 == 0:
		info.Classes = append(info.Classes, "value-len%32==0")
	default:
		info.Classes = append(info.Classes, "value-len%32!=0")
	}
	if len(val) > 32 {
		info.Classes = append(info.Classes, "value-multiword")
	}
	switch {
	case len(qid) == 32:
		info.Classes = append(info.Classes, "qid-len=32")
	case len(qid) < 32:
		info.Classes = append(info.Classes, "qid-len<32")
	default:
		info.Classes = append(info.Classes, "qid-len>32")
	}
	if c.Value != strings.ToLower(c.Value) {
		info.Classes = append(info.Classes, "value-hex-uppercase")
	}
	for _, x := range []uint64{c.Timestamp, c.Power, c.Prev, c.Next, c.AttestTs} {
		if x >= 1<<63 {
			info.Classes = append(info.Classes, "field>=2^63")
			break
		}
	}
	att := evmref.OracleAttestationData{
		QueryId:              evmref.Bytes32FromBytes(qid),
		Report:               evmref.ReportData{Value: val, Timestamp: c.Timestamp, AggregatePower: c.Power, PreviousTimestamp: c.Prev, NextTimestamp: c.Next},
		AttestationTimestamp: c.AttestTs,
	}
	refDigest, err := sp.AttestationDigest(att, evmref.Bytes32FromBytes(cp))
	if err != nil {
		return err
	}
	chainDigest, err := e.k.EncodeOracleAttestationData(qid, c.Value, c.Timestamp, c.Power, c.Prev, c.Next, cp, c.AttestTs)
	if err != nil {
		return pbt.Violf("C15/attestation-error", "EncodeOracleAttestationData failed on a well-formed tuple: %v", err)
	}
	if !bytes.Equal(chainDigest, refDigest[:]) {
		enc, _ := sp.AttestationEncoding(att, evmref.Bytes32FromBytes(cp))
		return mismatch("C15/attestation-digest", "attestation digest", chainDigest, refDigest[:], fmt.Sprintf("(reference preimage %x)", enc))
	}
	st.Count("oracle_evals", 1)
	return nil
}

func TestC15_AttestationDigest(t *testing.T) {
	e := newC15Env(t)
	pbt.Run(t, pbt.Prop[C15AttCase]{Property: "C15", Name: "TestC15_AttestationDigest", Rule: c15AttRule, Gen: genC15Att,
		Check: func(c C15AttCase, info *pbt.CaseInfo, st *pbt.Stats) error { return checkC15Att(e, c, info, st) }})
}

// ================================================================ Deposit / withdrawal ids and values

type C15BridgeCase struct {
	Id uint64 `json:"id"`
	// withdrawal
	Recipient string `json:"recipient"` // EVM recipient bytes, hex (normally 20 bytes)
	Sender    string `json:"sender"`    // layer account address bytes, hex (0-70 bytes)
	Amount    string `json:"amount"`    // loya, decimal
	// deposit (what TokenBridge.depositToLayer records)
	DepSender       string `json:"dep_sender"`        // 20 bytes hex
	DepRecipient    string `json:"dep_recipient"`     // layer account address bytes, hex (1-64 bytes); bech32-encoded for the report
	DepRecipientRaw string `json:"dep_recipient_raw"` // if non-empty: used verbatim as the recipient string (not bech32)
	DepAmount       string `json:"dep_amount"`        // 18-decimals token units, decimal
	DepTip          string `json:"dep_tip"`
	HexCase         int    `json:"hex_case"`
}

func genC15Bridge(t *rapid.T) C15BridgeCase {
	c := C15BridgeCase{Id: genU64(t, "id")}
	rlen := 20
	if rapid.IntRange(0, 9).Draw(t, "rcp_odd") == 0 {
		rlen = rapid.IntRange(0, 40).Draw(t, "rcp_len")
	}
	c.Recipient = c15Hex(genBytesN(t, rlen, "recipient"))
	slen := rapid.OneOf(rapid.Just(20), rapid.Just(32), rapid.IntRange(0, 70)).Draw(t, "sender_len")
	c.Sender = c15Hex(genBytesN(t, slen, "sender"))
	if rapid.IntRange(0, 19).Draw(t, "amt_wide") == 0 {
		c.Amount = genBigUpTo(t, 256, "amount").String()
	} else {
		c.Amount = new(big.Int).SetUint64(genU64(t, "amount")).String()
	}
	c.DepSender = c15Hex(genBytesN(t, 20, "dep_sender"))
	dlen := rapid.OneOf(rapid.Just(20), rapid.Just(32), rapid.IntRange(1, 64)).Draw(t, "dep_rcp_len")
	c.DepRecipient = c15Hex(genBytesN(t, dlen, "dep_recipient"))
	if rapid.IntRange(0, 14).Draw(t, "raw") == 0 {
		c.DepRecipientRaw = rapid.OneOf(rapid.StringN(0, 120, 120), rapid.StringMatching(`[a-z0-9 ]{1,120}`)).Draw(t, "dep_recipient_raw")
	}
	// amounts: mostly what the contract admits (amount > 0.1 token, tip <= amount, tip 0 or >= 1e12),
	// also arbitrary uint256
	switch rapid.IntRange(0, 9).Draw(t, "dep_kind") {
	case 0:
		c.DepAmount = genBigUpTo(t, 256, "dep_amount").String()
		c.DepTip = genBigUpTo(t, 256, "dep_tip").String()
	default:
		loya := new(big.Int).SetUint64(rapid.OneOf(rapid.Uint64Range(100_001, 10_000_000_000), rapid.Uint64Range(100_001, 1<<63-1)).Draw(t, "dep_loya"))
		amt := new(big.Int).Mul(loya, big.NewInt(1_000_000_000_000))
		amt.Add(amt, big.NewInt(int64(rapid.SampledFrom([]int{0, 0, 1, 999_999_999_999}).Draw(t, "dep_dust"))))
		tip := new(big.Int)
		if rapid.Bool().Draw(t, "has_tip") {
			tl := new(big.Int).SetUint64(rapid.Uint64Range(1, loya.Uint64()).Draw(t, "tip_loya"))
			tip.Mul(tl, big.NewInt(1_000_000_000_000))
			tip.Add(tip, big.NewInt(int64(rapid.SampledFrom([]int{0, 0, 5, 999_999_999_999}).Draw(t, "tip_dust"))))
			if tip.Cmp(amt) > 0 {
				tip.Set(amt)
			}
		}
		c.DepAmount, c.DepTip = amt.String(), tip.String()
	}
	c.HexCase = rapid.IntRange(0, 2).Draw(t, "hex_case")
	return c
}

const c15BridgeRule = "ids with edges 0,1,2^63,2^64-1 and random; withdrawal: recipient 20 bytes (10%: 0-40 bytes, compared under address(uint160(...))), sender account of 0-70 bytes (bech32 string of 0-~125 chars computed by an independent encoder), amount uint64 with edges (5%: up to 2^256-1, where the chain may refuse but must not produce different bytes); deposit: reference-encoded (address,string,uint256,uint256) value with bech32 recipient of 1-64 address bytes (7%: arbitrary non-bech32 strings up to 120 runes, expecting a clean error), amounts mostly within the contract's preconditions, 10% arbitrary uint256; non-trivial = sender string longer than one word, or recipient length != 20, or id >= 2^32; distinct by SHA-256 of the case JSON"

func checkC15Bridge(e *c15Env, c C15BridgeCase, info *pbt.CaseInfo, st *pbt.Stats) error {
	sp, err := evmref.Default()
	if err != nil {
		return err
	}
	hrp := sdk.GetConfig().GetBech32AccountAddrPrefix()

	// ---- query ids
	refW, err := sp.WithdrawQueryId(c.Id)
	if err != nil {
		return err
	}
	refD, err := sp.DepositQueryId(c.Id)
	if err != nil {
		return err
	}
	chainW, err := e.k.GetWithdrawalQueryId(c.Id)
	if err != nil {
		return pbt.Violf("C15/query-id-error", "GetWithdrawalQueryId(%d): %v", c.Id, err)
	}
	chainD, err := e.k.GetDepositQueryId(c.Id)
	if err != nil {
		return pbt.Violf("C15/query-id-error", "GetDepositQueryId(%d): %v", c.Id, err)
	}
	if !bytes.Equal(chainW, refW[:]) {
		return mismatch("C15/withdraw-query-id", fmt.Sprintf("withdraw query id for id %d", c.Id), chainW, refW[:], "")
	}
	if !bytes.Equal(chainD, refD[:]) {
		return mismatch("C15/deposit-query-id", fmt.Sprintf("deposit query id for id %d", c.Id), chainD, refD[:], "")
	}
	st.Count("oracle_evals", 2)

	// ---- withdrawal report value
	rcp, err := c15Unhex(c.Recipient)
	if err != nil {
		return err
	}
	snd, err := c15Unhex(c.Sender)
	if err != nil {
		return err
	}
	amount, err := c15Big(c.Amount)
	if err != nil || amount.BitLen() > 256 {
		return fmt.Errorf("amount: %q", c.Amount)
	}
	senderStr := ""
	if len(snd) > 0 {
		senderStr = c15Bech32Encode(hrp, snd)
	}
	if got := sdk.AccAddress(snd).String(); got != senderStr {
		return fmt.Errorf("harness bech32 encoder disagrees with the SDK for %x: %q vs %q", snd, senderStr, got)
	}
	info.Nontrivial = len(senderStr) > 32 || len(rcp) != 20 || c.Id >= 1<<32
	if len(rcp) == 20 {
		info.Classes = append(info.Classes, "recipient-len=20")
	} else {
		info.Classes = append(info.Classes, "recipient-len!=20")
	}
	switch {
	case len(senderStr) == 0:
		info.Classes = append(info.Classes, "sender-empty")
	case len(senderStr) <= 32:
		info.Classes = append(info.Classes, "sender-1-word")
	case len(senderStr) <= 64:
		info.Classes = append(info.Classes, "sender-2-words")
	default:
		info.Classes = append(info.Classes, "sender-3+words")
	}
	if c.Id >= 1<<63 {
		info.Classes = append(info.Classes, "id>=2^63")
	}
	refVal, err := sp.WithdrawReportValue(evmref.AddressFromBytes(rcp), senderStr, amount, new(big.Int))
	if err != nil {
		return err
	}
	coin := sdk.Coin{Denom: layertypes.BondDenom, Amount: math.NewIntFromBigInt(amount)}
	var chainVal []byte
	var cerr error
	p := safely(func() { chainVal, cerr = e.k.GetWithdrawalReportValue(coin, sdk.AccAddress(snd), rcp) })
	wide := !amount.IsUint64()
	if wide {
		info.Classes = append(info.Classes, "withdraw-amount>2^64-1")
	}
	switch {
	case p != nil || cerr != nil:
		if !wide {
			return pbt.Violf("C15/withdraw-value-error", "GetWithdrawalReportValue(amount=%s sender=%x recipient=%x) failed: panic=%v err=%v", amount, snd, rcp, p, cerr)
		}
		info.Classes = append(info.Classes, "withdraw-amount>2^64-1:chain-refuses")
	default:
		if !bytes.Equal(chainVal, refVal) {
			back, derr := sp.DecodeWithdrawValue(chainVal)
			return pbt.Violf("C15/withdraw-value", "withdraw report value: chain=%x reference=%x; the contract would read recipient=%x sender=%q amount=%v tip=%v (decode err %v), intended recipient=%x sender=%q amount=%s tip=0",
				chainVal, refVal, back.Recipient, back.LayerSender, back.AmountLoya, back.Tip, derr, evmref.AddressFromBytes(rcp), senderStr, amount)
		}
		st.Count("oracle_evals", 1)
	}
	if !wide {
		// what the chain actually stores as the aggregate of a withdrawal
		var agg interface {
			GetQueryId() []byte
			GetAggregateValue() string
		}
		p := safely(func() {
			a, err := e.k.CreateWithdrawalAggregate(e.fresh(), coin, sdk.AccAddress(snd), rcp, c.Id)
			cerr = err
			if err == nil {
				agg = a
			}
		})
		if p != nil || cerr != nil {
			return pbt.Violf("C15/withdraw-aggregate-error", "CreateWithdrawalAggregate failed: panic=%v err=%v", p, cerr)
		}
		if !bytes.Equal(agg.GetQueryId(), refW[:]) || agg.GetAggregateValue() != hex.EncodeToString(refVal) {
			return pbt.Violf("C15/withdraw-aggregate", "withdrawal aggregate: query id %x value %s, reference %x / %x", agg.GetQueryId(), agg.GetAggregateValue(), refW, refVal)
		}
		st.Count("oracle_evals", 1)
	}

	// ---- deposit report value: reference-encode what depositToLayer records, chain decodes
	ds, err := c15Unhex(c.DepSender)
	if err != nil || len(ds) != 20 {
		return fmt.Errorf("dep_sender must be 20 bytes hex: %q", c.DepSender)
	}
	dr, err := c15Unhex(c.DepRecipient)
	if err != nil {
		return err
	}
	dAmt, err := c15Big(c.DepAmount)
	if err != nil || dAmt.BitLen() > 256 {
		return fmt.Errorf("dep_amount: %q", c.DepAmount)
	}
	dTip, err := c15Big(c.DepTip)
	if err != nil || dTip.BitLen() > 256 {
		return fmt.Errorf("dep_tip: %q", c.DepTip)
	}
	recipientStr := c.DepRecipientRaw
	validRecipient := false
	if recipientStr == "" {
		if len(dr) == 0 {
			return nil
		}
		recipientStr = c15Bech32Encode(hrp, dr)
		validRecipient = true
	}
	dep := evmref.DepositFields{Sender: evmref.AddressFromBytes(ds), Recipient: recipientStr, Amount: dAmt, Tip: dTip}
	depVal, err := sp.EncodeDepositValue(dep)
	if err != nil {
		return err
	}
	if back, err := sp.DecodeDepositValue(depVal); err != nil || back.Recipient != recipientStr || back.Amount.Cmp(dAmt) != 0 || back.Tip.Cmp(dTip) != 0 || back.Sender != dep.Sender {
		return fmt.Errorf("reference encoder/decoder do not round-trip: %v %+v", err, back)
	}
	e12 := big.NewInt(1_000_000_000_000)
	wantAmt, wantTip := new(big.Int).Div(dAmt, e12), new(big.Int).Div(dTip, e12)
	pre := dAmt.Cmp(big.NewInt(100_000_000_000_000_000)) > 0 && dTip.Cmp(dAmt) <= 0 && (dTip.Sign() == 0 || dTip.Cmp(e12) >= 0)
	if pre {
		info.Classes = append(info.Classes, "deposit-within-contract-preconditions")
	} else {
		info.Classes = append(info.Classes, "deposit-outside-contract-preconditions")
	}
	bigLoya := !wantAmt.IsInt64() || !wantTip.IsInt64()
	if bigLoya {
		info.Classes = append(info.Classes, "deposit-amount>=2^63-loya")
	}
	if !validRecipient {
		info.Classes = append(info.Classes, "deposit-recipient-not-bech32")
	}
	if len(recipientStr) > 64 {
		info.Classes = append(info.Classes, "deposit-recipient-3+words")
	}
	var gotRcp sdk.AccAddress
	var gotAmt, gotTip sdk.Coins
	p = safely(func() {
		gotRcp, gotAmt, gotTip, cerr = e.k.DecodeDepositReportValue(e.fresh(), hexWithCase(depVal, c.HexCase))
	})
	wrapSig := func(s string) string {
		if bigLoya {
			return "C15/deposit-amount-int64-wrap"
		}
		return s
	}
	if p != nil {
		return pbt.Violf(wrapSig("C15/deposit-decode-panic"), "DecodeDepositReportValue panicked (%v) on recipient=%q amount=%s tip=%s value=%x", p, recipientStr, dAmt, dTip, depVal)
	}
	if !validRecipient {
		if cerr == nil {
			// an arbitrary string can by accident be valid bech32 with the right prefix; then it must decode consistently
			if c15Bech32Encode(hrp, gotRcp) != strings.ToLower(recipientStr) {
				return pbt.Violf("C15/deposit-decode", "recipient string %q accepted as address %x", recipientStr, []byte(gotRcp))
			}
		}
		return nil
	}
	if cerr != nil {
		return pbt.Violf(wrapSig("C15/deposit-decode-error"), "DecodeDepositReportValue failed on a value the contract can emit: %v (recipient=%q amount=%s tip=%s)", cerr, recipientStr, dAmt, dTip)
	}
	if !bytes.Equal(gotRcp, dr) {
		return pbt.Violf("C15/deposit-decode", "recipient: chain %x, deposited to %x (%s)", []byte(gotRcp), dr, recipientStr)
	}
	ga, gt := gotAmt.AmountOf(layertypes.BondDenom).BigInt(), gotTip.AmountOf(layertypes.BondDenom).BigInt()
	if ga.Cmp(wantAmt) != 0 || gt.Cmp(wantTip) != 0 {
		return pbt.Violf(wrapSig("C15/deposit-decode"), "amount/tip: chain %s/%s loya, deposit was %s/%s token units = %s/%s loya", ga, gt, dAmt, dTip, wantAmt, wantTip)
	}
	st.Count("oracle_evals", 1)
	return nil
}

func TestC15_DepositWithdraw(t *testing.T) {
	e := newC15Env(t)
	pbt.Run(t, pbt.Prop[C15BridgeCase]{Property: "C15", Name: "TestC15_DepositWithdraw", Rule: c15BridgeRule, Gen: genC15Bridge,
		Check: func(c C15BridgeCase, info *pbt.CaseInfo, st *pbt.Stats) error { return checkC15Bridge(e, c, info, st) }})
}

// ================================================================ Signature convention

type C15SigCase struct {
	Seeds   []string   `json:"seeds"`  // 32-byte hex seeds, one per validator; key = sha256-derived scalar
	Powers  []uint64   `json:"powers"` // one per validator
	Signs   []bool     `json:"signs"`  // which validators sign the attestation
	Digest  string     `json:"digest"` // free 32-byte digest signed by validator 0
	BlockMs int64      `json:"block_ms"`
	Att     C15AttCase `json:"att"` // checkpoint field ignored: the chain's stored checkpoint is used
}

func genC15Sig(t *rapid.T) C15SigCase {
	n := rapid.OneOf(rapid.Just(1), rapid.IntRange(2, 4), rapid.IntRange(2, 4)).Draw(t, "n")
	c := C15SigCase{}
	for i := 0; i < n; i++ {
		if i > 0 && rapid.IntRange(0, 11).Draw(t, "dupkey") == 0 {
			c.Seeds = append(c.Seeds, c.Seeds[rapid.IntRange(0, i-1).Draw(t, "dupOf")])
		} else {
			c.Seeds = append(c.Seeds, c15Hex(genBytesN(t, 32, "seed")))
		}
		c.Powers = append(c.Powers, rapid.OneOf(rapid.Uint64Range(1, 5), rapid.Uint64Range(1, 1<<40)).Draw(t, "power"))
		c.Signs = append(c.Signs, rapid.IntRange(0, 3).Draw(t, "signs") != 0)
	}
	c.Digest = c15Hex(genBytesN(t, 32, "digest"))
	c.BlockMs = int64(rapid.Uint64Range(1_600_000_000_000, 2_000_000_000_000).Draw(t, "block_ms"))
	c.Att = genC15Att(t)
	return c
}

const c15SigRule = "1-4 validators with secp256k1 keys derived from case bytes (zero/ff/aligned/random seeds, duplicate keys), powers 1-5 or up to 2^40, a random subset signs; each key is imported into an in-memory keyring and signs through app.VoteExtHandler.SignInitialMessage / SignMessage (the functions ExtendVote uses); non-trivial = at least 2 validators; distinct by SHA-256 of the case JSON"

// c15Signer wraps the chain's own signing path: the VoteExtHandler with a memory keyring.
type c15Signer struct {
	mu   sync.Mutex
	h    *app.VoteExtHandler
	have map[string]bool
}

func newC15Signer() (*c15Signer, error) {
	reg := codectypes.NewInterfaceRegistry()
	cryptocodec.RegisterInterfaces(reg)
	cdc := codec.NewProtoCodec(reg)
	dir, err := os.MkdirTemp("", "c15kr")
	if err != nil {
		return nil, err
	}
	viper.Set("keyring-backend", "memory")
	viper.Set("keyring-dir", dir)
	h := app.NewVoteExtHandler(log.NewNopLogger(), cdc, nil, nil)
	if _, err := h.GetKeyring(); err != nil {
		return nil, fmt.Errorf("keyring: %w", err)
	}
	_ = os.RemoveAll(dir) // the memory backend keeps nothing on disk
	return &c15Signer{h: h, have: map[string]bool{}}, nil
}

// use makes key the signing key of the handler (as --key-name does for a validator).
func (s *c15Signer) use(priv []byte) error {
	name := "k" + hex.EncodeToString(priv)
	if !s.have[name] {
		kr, err := s.h.GetKeyring()
		if err != nil {
			return err
		}
		// the in-memory keyring only grows: under native fuzzing (millions of distinct keys) forget old keys
		if len(s.have) >= 4096 {
			for old := range s.have {
				_ = kr.Delete(old)
			}
			s.have = map[string]bool{}
		}
		if err := kr.ImportPrivKeyHex(name, hex.EncodeToString(priv), "secp256k1"); err != nil {
			return fmt.Errorf("import key: %w", err)
		}
		s.have[name] = true
	}
	viper.Set("key-name", name)
	return nil
}

// privFromSeed maps any 32 bytes to a valid secp256k1 scalar in [1, n-1].
func privFromSeed(seed []byte) []byte {
	n, _ := new(big.Int).SetString("fffffffffffffffffffffffffffffffebaaedce6af48a03bbfd25e8cd0364141", 16)
	v := new(big.Int).SetBytes(seed)
	if v.Sign() == 0 || v.Cmp(n) >= 0 {
		h := sha256.Sum256(seed)
		v.SetBytes(h[:])
		v.Mod(v, new(big.Int).Sub(n, big.NewInt(1)))
		v.Add(v, big.NewInt(1))
	}
	out := make([]byte, 32)
	v.FillBytes(out)
	return out
}

func checkC15Sig(e *c15Env, s *c15Signer, c C15SigCase, info *pbt.CaseInfo, st *pbt.Stats) error {
	sp, err := evmref.Default()
	if err != nil {
		return err
	}
	n := len(c.Seeds)
	if n == 0 || len(c.Powers) != n || len(c.Signs) != n || c.BlockMs < 0 {
		return fmt.Errorf("malformed case")
	}
	s.mu.Lock()
	defer s.mu.Unlock()
	info.Nontrivial = n >= 2
	info.Classes = append(info.Classes, fmt.Sprintf("n=%d", n))
	digest, err := c15Unhex(c.Digest)
	if err != nil || len(digest) != 32 {
		return fmt.Errorf("digest must be 32 bytes hex")
	}
	ctx := e.fresh().WithBlockTime(time.UnixMilli(c.BlockMs))
	privs := make([][]byte, n)
	ref := make([]evmref.Validator, n)
	chainSet := &bridgetypes.BridgeValidatorSet{}
	for i := range c.Seeds {
		seed, err := c15Unhex(c.Seeds[i])
		if err != nil || len(seed) != 32 {
			return fmt.Errorf("seed must be 32 bytes hex")
		}
		privs[i] = privFromSeed(seed)
		if err := s.use(privs[i]); err != nil {
			return err
		}
		// the address the chain registers for this validator: from its two initial signatures
		sigA, sigB, err := s.h.SignInitialMessage()
		if err != nil {
			return fmt.Errorf("SignInitialMessage: %w", err)
		}
		chainAddr, err := e.k.EVMAddressFromSignatures(ctx, sigA, sigB)
		if err != nil {
			return pbt.Violf("C15/evm-address-error", "EVMAddressFromSignatures failed on the validator's own initial signatures: %v", err)
		}
		refAddr, err := evmref.AddressFromPrivKey(privs[i])
		if err != nil {
			return err
		}
		if !bytes.Equal(chainAddr.Bytes(), refAddr[:]) {
			return pbt.Violf("C15/evm-address-derivation", "key %d: chain registers EVM address %x, the key's Ethereum address is %x", i, chainAddr.Bytes(), refAddr)
		}
		ref[i] = evmref.Validator{Addr: refAddr, Power: c.Powers[i]}
		chainSet.BridgeValidatorSet = append(chainSet.BridgeValidatorSet, &bridgetypes.BridgeValidator{EthereumAddress: chainAddr.Bytes(), Power: c.Powers[i]})
		st.Count("oracle_evals", 1)
	}

	// free digest signed by validator 0 the way ExtendVote signs snapshots / checkpoints
	if err := s.use(privs[0]); err != nil {
		return err
	}
	sig, err := s.h.SignMessage(digest)
	if err != nil {
		return fmt.Errorf("SignMessage: %w", err)
	}
	if len(sig) != 64 {
		return pbt.Violf("C15/signature-length", "SignMessage returned %d bytes, the relayer/contract convention is 64-byte r||s", len(sig))
	}
	d32 := evmref.Bytes32FromBytes(digest)
	got, ok := evmref.SigFromRS(sig, d32, ref[0].Addr)
	if !ok {
		var r, sS [32]byte
		copy(r[:], sig[:32])
		copy(sS[:], sig[32:])
		return pbt.Violf("C15/signature-convention", "digest %x signed by the chain: ecrecover(sha256(digest), v, r, s) gives %x (v=27) / %x (v=28), validator address is %x",
			digest, evmref.Ecrecover(evmref.SignedDigest(d32), 27, r, sS), evmref.Ecrecover(evmref.SignedDigest(d32), 28, r, sS), ref[0].Addr)
	}
	info.Classes = append(info.Classes, fmt.Sprintf("v=%d", got.V))
	// the chain's own recovery with ids 0/1 is the contract's with v=27/28
	sd := evmref.SignedDigest(d32)
	both, err := e.k.TryRecoverAddressWithBothIDs(sig, sd[:])
	if err != nil || len(both) != 2 {
		return pbt.Violf("C15/recover-ids", "TryRecoverAddressWithBothIDs failed on a chain signature: %v", err)
	}
	for id, v := range []uint8{27, 28} {
		a := evmref.Ecrecover(sd, v, got.R, got.S)
		if !bytes.Equal(both[id].Bytes(), a[:]) {
			return pbt.Violf("C15/recover-ids", "recovery id %d gives %x on chain, ecrecover with v=%d gives %x", id, both[id].Bytes(), v, a)
		}
	}
	st.Count("oracle_evals", 2)

	// end to end: chain stores params for this set, builds an attestation digest over its checkpoint,
	// validators sign it; the contract initialised with the chain's params verifies iff enough power signed
	if err := e.k.SetBridgeValidatorParams(ctx, chainSet); err != nil {
		return pbt.Violf("C15/params-error", "SetBridgeValidatorParams failed: %v", err)
	}
	params, err := e.k.GetValidatorCheckpointParamsFromStorage(ctx, uint64(c.BlockMs))
	if err != nil {
		return pbt.Violf("C15/params-error", "no params stored: %v", err)
	}
	qid, err := c15Unhex(c.Att.QueryId)
	if err != nil {
		return err
	}
	val, err := c15Unhex(c.Att.Value)
	if err != nil {
		return err
	}
	chainDigest, err := e.k.EncodeOracleAttestationData(qid, c.Att.Value, c.Att.Timestamp, c.Att.Power, c.Att.Prev, c.Att.Next, params.Checkpoint, c.Att.AttestTs)
	if err != nil {
		return pbt.Violf("C15/attestation-error", "EncodeOracleAttestationData failed: %v", err)
	}
	sigs := make([]evmref.Sig, n)
	signed := new(big.Int)
	for i := range ref {
		if !c.Signs[i] {
			continue
		}
		if err := s.use(privs[i]); err != nil {
			return err
		}
		rs, err := s.h.SignMessage(chainDigest)
		if err != nil {
			return fmt.Errorf("SignMessage: %w", err)
		}
		sg, ok := evmref.SigFromRS(rs, evmref.Bytes32FromBytes(chainDigest), ref[i].Addr)
		if !ok {
			return pbt.Violf("C15/signature-convention", "validator %d: attestation signature over %x does not recover to %x under the contract's convention", i, chainDigest, ref[i].Addr)
		}
		sigs[i] = sg
		signed.Add(signed, new(big.Int).SetUint64(ref[i].Power))
	}
	bs := evmref.NewBlobstream(sp, params.PowerThreshold, params.Timestamp, evmref.Bytes32FromBytes(params.Checkpoint))
	att := evmref.OracleAttestationData{
		QueryId:              evmref.Bytes32FromBytes(qid),
		Report:               evmref.ReportData{Value: val, Timestamp: c.Att.Timestamp, AggregatePower: c.Att.Power, PreviousTimestamp: c.Att.Prev, NextTimestamp: c.Att.Next},
		AttestationTimestamp: c.Att.AttestTs,
	}
	verr := bs.VerifyOracleData(uint64(c.BlockMs/1000)+60, att, ref, sigs)
	enough := signed.Cmp(new(big.Int).SetUint64(params.PowerThreshold)) >= 0
	if enough {
		info.Classes = append(info.Classes, "enough-power-signed")
	} else {
		info.Classes = append(info.Classes, "insufficient-power-signed")
	}
	switch {
	case verr != nil && !evmref.IsRevert(verr):
		return verr
	case enough && verr != nil:
		return pbt.Violf("C15/contract-rejects-chain-attestation", "BlobstreamO.verifyOracleData reverts %v although %s of threshold %d signed the chain's digest %x", verr, signed, params.PowerThreshold, chainDigest)
	case !enough && verr != evmref.ErrInsufficientVotingPower:
		return pbt.Violf("C15/contract-accepts-insufficient-power", "verifyOracleData returned %v with %s of threshold %d signed", verr, signed, params.PowerThreshold)
	}
	st.Count("oracle_evals", 1)
	return nil
}

func TestC15_SignatureConvention(t *testing.T) {
	e := newC15Env(t)
	s, err := newC15Signer()
	if err != nil {
		t.Fatalf("INFRA signer: %v", err)
	}
	pbt.Run(t, pbt.Prop[C15SigCase]{Property: "C15", Name: "TestC15_SignatureConvention", Rule: c15SigRule, Gen: genC15Sig,
		Check: func(c C15SigCase, info *pbt.CaseInfo, st *pbt.Stats) error { return checkC15Sig(e, s, c, info, st) }})
}

// ================================================================ native fuzz target (seeds only under plain `go test`)

// FuzzC15_Encodings decodes the fuzz input into the three encoding cases and applies
// the same oracles. Run with: go test -tags verif -run '^$' -fuzz FuzzC15_Encodings ./pure
func FuzzC15_Encodings(f *testing.F) {
	f.Add([]byte{})
	f.Add([]byte{3, 0, 1, 2, 3, 4, 5, 6, 7, 8, 9, 10, 11, 12, 13, 14, 15, 16, 17, 18, 19, 20, 200, 0, 0, 0, 0, 0, 0, 0, 5})
	f.Add(bytes.Repeat([]byte{0xff}, 300))
	f.Add(bytes.Repeat([]byte{0x00, 0x41, 0x80, 0x07}, 120))
	e := newC15Env(f)
	f.Fuzz(func(t *testing.T, data []byte) {
		r := &c15Reader{b: data}
		n := int(r.byte())%100 + 1
		vc := C15ValsetCase{}
		wide := r.byte()%8 == 0
		for i := 0; i < n; i++ {
			a := r.bytes(20)
			p := r.u64e()
			if !wide {
				p = p%(1<<62/uint64(n)) + 1
			}
			vc.Vals = append(vc.Vals, C15Val{Addr: c15Hex(a), Power: p})
		}
		vc.Threshold, vc.Timestamp, vc.BlockMs = r.u64e(), r.u64e(), int64(r.u64e()&(1<<63-1))
		ac := C15AttCase{QueryId: c15Hex(r.bytes(32)), Timestamp: r.u64e(), Power: r.u64e(), Prev: r.u64e(), Next: r.u64e(), AttestTs: r.u64e(), Checkpoint: c15Hex(r.bytes(32))}
		ac.Value = c15Hex(r.bytes(int(r.byte()) % 201))
		bc := C15BridgeCase{Id: r.u64e(), Recipient: c15Hex(r.bytes(20)), Sender: c15Hex(r.bytes(int(r.byte()) % 71)),
			Amount: new(big.Int).SetUint64(r.u64e()).String(), DepSender: c15Hex(r.bytes(20)), DepRecipient: c15Hex(r.bytes(int(r.byte())%64 + 1)),
			DepAmount: new(big.Int).SetBytes(r.bytes(int(r.byte()) % 33)).String(), DepTip: new(big.Int).SetBytes(r.bytes(int(r.byte()) % 33)).String()}
		st := pbt.NewStats("C15", "FuzzC15_Encodings", "")
		for _, err := range []error{
			checkC15Valset(e, vc, &pbt.CaseInfo{}, st),
			checkC15Att(e, ac, &pbt.CaseInfo{}, st),
			checkC15Bridge(e, bc, &pbt.CaseInfo{}, st),
		} {
			if err == nil {
				continue
			}
			if v, ok := err.(*pbt.Violation); ok {
				if pbt.IsKnown("C15", v.Sig) {
					continue
				}
				t.Fatalf("VIOLATION %v", v)
			}
			t.Fatalf("INFRA %v", err)
		}
	})
}
