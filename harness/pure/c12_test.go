package pure

// C12 (function-level part) — the recorded dispute result equals the specified
// tally formula and is decided for every possible vote distribution.
//
// A real dispute keeper on real stores (bank/oracle/reporter mocked, only
// GetSupply is ever consulted by TallyVote) gets generated records written
// straight into its collections (Disputes, Votes, BlockInfo, VoteCountsByGroup,
// Voter); then k.TallyVote is called and Votes[id].VoteResult / the dispute
// status are compared with an exact-rational reference written from the
// statement (c12_helpers_test.go). Nothing here calls keeper code to compute an
// expected value.

import (
	"context"
	"fmt"
	"math/big"
	"testing"
	"time"

	tmproto "github.com/cometbft/cometbft/proto/tendermint/types"
	tmdb "github.com/cosmos/cosmos-db"
	disputekeeper "github.com/tellor-io/layer/x/dispute/keeper"
	"github.com/tellor-io/layer/x/dispute/mocks"
	disputetypes "github.com/tellor-io/layer/x/dispute/types"
	"pgregory.net/rapid"

	"cosmossdk.io/collections"
	"cosmossdk.io/log"
	"cosmossdk.io/math"
	"cosmossdk.io/store"
	storemetrics "cosmossdk.io/store/metrics"
	storetypes "cosmossdk.io/store/types"

	"github.com/cosmos/cosmos-sdk/codec"
	codectypes "github.com/cosmos/cosmos-sdk/codec/types"
	"github.com/cosmos/cosmos-sdk/runtime"
	sdk "github.com/cosmos/cosmos-sdk/types"

	"verif/harness/pbt"
)

// TallyCase is one vote table plus the formula's other inputs.
type TallyCase struct {
	Users   [3]uint64 `json:"users"`       // support, against, invalid (tips that voted)
	Reps    [3]uint64 `json:"reporters"`   // support, against, invalid (reporting power that voted)
	Holders [3]uint64 `json:"holders"`     // support, against, invalid (token balance that voted)
	Team    int       `json:"team"`        // 0 none, 1 support, 2 against, 3 invalid
	Tips    string    `json:"total_tips"`  // BlockInfo.TotalUserTips (decimal)
	Power   string    `json:"total_power"` // BlockInfo.TotalReporterPower (decimal)
	Supply  string    `json:"supply"`      // bank supply (decimal)
	Now     int       `json:"now"`         // block time: 0 VoteEnd-1h, 1 VoteEnd-1ns, 2 =VoteEnd, 3 VoteEnd+1ns, 4 VoteEnd+1h
	DispEnd int       `json:"disp_end"`    // DisputeEndTime: 0 now-1h, 1 now-1ns, 2 =now, 3 now+1ns, 4 now+1day
}

const c12Rule = "vote tables 4 groups x 3 choices: cells from {0, small, equal opposing, one unit apart, 2^32, 2^53+1, 1e18, 2^63-1, 2^63, (2^64-1)/3, 2^64-1, random}; group totals >= votes cast (100%, +1, x2, x4, x25 and x25+-1 = the 51% boundary, x100, 2^64-1, random), zero totals with zero votes; supply >= token-holder votes; team none/S/A/I; block time VoteEnd-1h/-1ns/=/+1ns/+1h and DisputeEndTime before/at/after it; non-trivial = >=2 participating groups whose votes are not unanimous, or an exact tie, or a near tie (<=1e-6 of a group weight); distinct by SHA-256 of the case JSON"

// ------------------------------------------------------------------ harness

type tallyEnv struct {
	k      disputekeeper.Keeper
	base   sdk.Context
	supply *math.Int
	team   sdk.AccAddress
}

// supplyBank is the mocked bank keeper of keepertest.DisputeKeeper with the one
// method TallyVote consults answered from the case (the supply is an input of
// the formula); any other bank call hits the expectation-less mock and panics.
type supplyBank struct {
	*mocks.BankKeeper
	supply *math.Int
}

func (b supplyBank) GetSupply(_ context.Context, denom string) sdk.Coin {
	return sdk.Coin{Denom: denom, Amount: *b.supply}
}

// newTallyEnv is keepertest.DisputeKeeper (real keeper, real IAVL-backed store,
// default params) with supplyBank in place of the bare bank mock.
func newTallyEnv(t testing.TB) *tallyEnv {
	storeKey := storetypes.NewKVStoreKey(disputetypes.StoreKey)
	db := tmdb.NewMemDB()
	stateStore := store.NewCommitMultiStore(db, log.NewNopLogger(), storemetrics.NewNoOpMetrics())
	stateStore.MountStoreWithDB(storeKey, storetypes.StoreTypeIAVL, db)
	if err := stateStore.LoadLatestVersion(); err != nil {
		t.Fatalf("store: %v", err)
	}
	cdc := codec.NewProtoCodec(codectypes.NewInterfaceRegistry())
	s := math.ZeroInt()
	e := &tallyEnv{supply: &s}
	e.k = disputekeeper.NewKeeper(cdc, runtime.NewKVStoreService(storeKey), new(mocks.AccountKeeper),
		supplyBank{BankKeeper: new(mocks.BankKeeper), supply: e.supply}, new(mocks.OracleKeeper), new(mocks.ReporterKeeper))
	e.base = sdk.NewContext(stateStore, tmproto.Header{}, false, log.NewNopLogger())
	if err := e.k.Params.Set(e.base, disputetypes.DefaultParams()); err != nil {
		t.Fatalf("params: %v", err)
	}
	if err := e.k.Dust.Set(e.base, math.ZeroInt()); err != nil {
		t.Fatalf("dust: %v", err)
	}
	team, err := e.k.GetTeamAddress(e.base)
	if err != nil {
		t.Fatalf("team address: %v", err)
	}
	e.team = team
	return e
}

var c12T0 = time.Date(2025, 3, 1, 12, 0, 0, 0, time.UTC)

var c12NowOff = []time.Duration{-time.Hour, -time.Nanosecond, 0, time.Nanosecond, time.Hour}
var c12EndOff = []time.Duration{-time.Hour, -time.Nanosecond, 0, time.Nanosecond, 24 * time.Hour}

func mustInt(s string) (math.Int, bool) {
	v, ok := math.NewIntFromString(s)
	if !ok || v.IsNegative() {
		return math.Int{}, false
	}
	return v, true
}

// run writes the case into a throw-away branch of the store, calls TallyVote
// and returns what was recorded.
func (e *tallyEnv) run(c TallyCase) (res disputetypes.VoteResult, status disputetypes.DisputeStatus, voteEnd time.Time, callErr error, infra error) {
	const id = uint64(1)
	tips, ok1 := mustInt(c.Tips)
	power, ok2 := mustInt(c.Power)
	supply, ok3 := mustInt(c.Supply)
	if !ok1 || !ok2 || !ok3 || c.Now < 0 || c.Now > 4 || c.DispEnd < 0 || c.DispEnd > 4 || c.Team < 0 || c.Team > 3 {
		return 0, 0, time.Time{}, nil, fmt.Errorf("malformed case")
	}
	*e.supply = supply
	voteEndT := c12T0.Add(48 * time.Hour)
	now := voteEndT.Add(c12NowOff[c.Now])
	ctx, _ := e.base.CacheContext()
	ctx = ctx.WithBlockTime(now).WithBlockHeight(100)
	k := e.k
	hash := []byte("c12-hash")
	if err := k.Disputes.Set(ctx, id, disputetypes.Dispute{
		HashId: hash, DisputeId: id, DisputeStatus: disputetypes.Voting, Open: true,
		DisputeStartTime: c12T0, DisputeEndTime: now.Add(c12EndOff[c.DispEnd]), DisputeStartBlock: 10, DisputeRound: 1, BlockNumber: 10,
		DisputeFee: math.NewInt(1000), SlashAmount: math.NewInt(1000), BurnAmount: math.NewInt(50), FeeTotal: math.NewInt(1000), VoterReward: math.ZeroInt(),
	}); err != nil {
		return 0, 0, time.Time{}, nil, err
	}
	if err := k.Votes.Set(ctx, id, disputetypes.Vote{Id: id, VoteStart: c12T0, VoteEnd: voteEndT, VoteResult: disputetypes.VoteResult_NO_TALLY}); err != nil {
		return 0, 0, time.Time{}, nil, err
	}
	if err := k.BlockInfo.Set(ctx, hash, disputetypes.BlockInfo{TotalReporterPower: power, TotalUserTips: tips}); err != nil {
		return 0, 0, time.Time{}, nil, err
	}
	vc := disputetypes.StakeholderVoteCounts{
		Users:        disputetypes.VoteCounts{Support: c.Users[0], Against: c.Users[1], Invalid: c.Users[2]},
		Reporters:    disputetypes.VoteCounts{Support: c.Reps[0], Against: c.Reps[1], Invalid: c.Reps[2]},
		Tokenholders: disputetypes.VoteCounts{Support: c.Holders[0], Against: c.Holders[1], Invalid: c.Holders[2]},
	}
	choice := []disputetypes.VoteEnum{disputetypes.VoteEnum_VOTE_SUPPORT, disputetypes.VoteEnum_VOTE_AGAINST, disputetypes.VoteEnum_VOTE_INVALID}
	if c.Team != 0 {
		// what the vote handler records for a team vote
		switch c.Team {
		case 1:
			vc.Team.Support = 1
		case 2:
			vc.Team.Against = 1
		case 3:
			vc.Team.Invalid = 1
		}
		if err := k.Voter.Set(ctx, collections.Join(id, e.team.Bytes()), disputetypes.Voter{Vote: choice[c.Team-1],
			VoterPower: math.NewInt(25000000), ReporterPower: math.ZeroInt(), TokenholderPower: math.ZeroInt()}); err != nil {
			return 0, 0, time.Time{}, nil, err
		}
	}
	// one voter record per non-zero cell: a non-zero counter always has a voter behind it
	for g, cells := range [][3]uint64{c.Users, c.Reps, c.Holders} {
		for ch, n := range cells {
			if n == 0 {
				continue
			}
			addr := make([]byte, 20)
			addr[0], addr[1], addr[2] = 0xC1, byte(g), byte(ch)
			v := disputetypes.Voter{Vote: choice[ch], VoterPower: math.NewIntFromUint64(n), ReporterPower: math.ZeroInt(), TokenholderPower: math.ZeroInt()}
			if g == 1 {
				v.ReporterPower = math.NewIntFromUint64(n)
			}
			if g == 2 {
				v.TokenholderPower = math.NewIntFromUint64(n)
			}
			if err := k.Voter.Set(ctx, collections.Join(id, addr), v); err != nil {
				return 0, 0, time.Time{}, nil, err
			}
		}
	}
	if err := k.VoteCountsByGroup.Set(ctx, id, vc); err != nil {
		return 0, 0, time.Time{}, nil, err
	}
	// the tally runs in its own branch as it does in a transaction / in BeginBlock:
	// on error nothing it wrote counts
	tctx, _ := ctx.CacheContext()
	callErr = k.TallyVote(tctx, id)
	rctx := tctx
	if callErr != nil {
		rctx = ctx
	}
	vote, err := k.Votes.Get(rctx, id)
	if err != nil {
		return 0, 0, time.Time{}, callErr, err
	}
	d, err := k.Disputes.Get(rctx, id)
	if err != nil {
		return 0, 0, time.Time{}, callErr, err
	}
	return vote.VoteResult, d.DisputeStatus, vote.VoteEnd, callErr, nil
}

// ------------------------------------------------------------------ check

func (e *tallyEnv) check(c TallyCase, info *pbt.CaseInfo, st *pbt.Stats) error {
	ref, bad := tallyReference(c)
	if bad != "" {
		// outside the domain (votes above the group total): not a case
		info.Classes = []string{"precondition-violated"}
		return nil
	}
	info.Nontrivial, info.Classes = ref.classify(c)
	res, status, _, callErr, infra := e.run(c)
	if infra != nil {
		return infra
	}
	st.Count("oracle_evals", 1)
	periodOver := c.Now >= 3
	atEnd := c.Now == 2

	isQuorumRes := res == disputetypes.VoteResult_SUPPORT || res == disputetypes.VoteResult_AGAINST || res == disputetypes.VoteResult_INVALID
	isNoQuorumRes := res == disputetypes.VoteResult_NO_QUORUM_MAJORITY_SUPPORT || res == disputetypes.VoteResult_NO_QUORUM_MAJORITY_AGAINST || res == disputetypes.VoteResult_NO_QUORUM_MAJORITY_INVALID

	// ---- is a result demanded / forbidden?
	demanded := ref.quorum == 1 || periodOver
	forbidden := ref.quorum == 0 && c.Now <= 1
	if forbidden {
		if res != disputetypes.VoteResult_NO_TALLY {
			return pbt.Violf("C12/premature-result", "no quorum (exact participation %s%%) and voting still open, but TallyVote err=%v result=%s", ref.total.FloatString(8), callErr, res)
		}
		if status != disputetypes.Voting {
			return pbt.Violf("C12/premature-status", "no quorum and voting still open, dispute status moved to %s", status)
		}
		st.Count("still_voting_ok", 1)
		return nil
	}
	if callErr != nil {
		if !demanded {
			// quorum in the rounding zone or block time == VoteEnd: either answer is allowed
			st.Count("dontcare_no_result", 1)
			return nil
		}
		return e.classifyError(c, ref, callErr)
	}
	// ---- a result was recorded
	if res == disputetypes.VoteResult_NO_TALLY || (!isQuorumRes && !isNoQuorumRes) {
		return pbt.Violf("C12/no-result-recorded", "TallyVote returned nil but VoteResult=%s", res)
	}
	switch {
	case ref.quorum == 1 && !isQuorumRes:
		return pbt.Violf("C12/quorum-mismatch/reached-not-recognised", "exact participation %s%% >= 51%% but result %s", ref.total.FloatString(8), res)
	case ref.quorum == 0 && !isNoQuorumRes:
		return pbt.Violf("C12/quorum-mismatch/not-reached-but-recognised", "exact participation %s%% < 51%% but result %s", ref.total.FloatString(8), res)
	case ref.quorum == 0 && isNoQuorumRes && !(periodOver || atEnd):
		return pbt.Violf("C12/premature-result", "no-quorum result %s recorded before the voting period was over", res)
	case ref.quorum == -1:
		st.Count("quorum_rounding_zone", 1)
		if isNoQuorumRes && !(periodOver || atEnd) {
			return pbt.Violf("C12/premature-result", "no-quorum result %s recorded before the voting period was over", res)
		}
	}
	// status
	if isQuorumRes && status != disputetypes.Resolved {
		return pbt.Violf("C12/status/quorum", "quorum result %s but dispute status %s", res, status)
	}
	if isNoQuorumRes && status != disputetypes.Unresolved && status != disputetypes.Resolved {
		return pbt.Violf("C12/status/no-quorum", "no-quorum result %s but dispute status %s", res, status)
	}
	// ---- which result
	got := int(res-1) % 3 // 0 support, 1 against, 2 invalid
	if ref.winner < 0 {
		st.Count("exact_tie_some_result", 1)
		return nil
	}
	if ref.nearTie {
		st.Count("near_tie_exempt", 1)
		return nil
	}
	if got == ref.winner {
		return nil
	}
	names := []string{"support", "against", "invalid"}
	msg := fmt.Sprintf("recorded %s, exact scores support=%s against=%s invalid=%s (winner %s); table users=%v reporters=%v holders=%v team=%d totals tips=%s power=%s supply=%s",
		res, ref.score[0].FloatString(9), ref.score[1].FloatString(9), ref.score[2].FloatString(9), names[ref.winner], c.Users, c.Reps, c.Holders, c.Team, c.Tips, c.Power, c.Supply)
	if ref.holdersVoted && ref.early != 0 && (ref.winner3 < 0 || ref.nearTie3 || got == ref.winner3) {
		return pbt.Violf("C12/early-quorum-ignores-tokenholders", "team+users+reporters reach quorum (%s%%), token holders voted and change the winner, but their fractions were left out: %s", ref.early3.FloatString(6), msg)
	}
	return pbt.Violf("C12/wrong-result", "%s", msg)
}

func (e *tallyEnv) classifyError(c TallyCase, ref *tallyRef, callErr error) error {
	desc := fmt.Sprintf("TallyVote error %q; exact scores support=%s against=%s invalid=%s participation=%s%%; table users=%v reporters=%v holders=%v team=%d totals tips=%s power=%s supply=%s now=%d",
		callErr.Error(), ref.score[0].FloatString(9), ref.score[1].FloatString(9), ref.score[2].FloatString(9), ref.total.FloatString(6), c.Users, c.Reps, c.Holders, c.Team, c.Tips, c.Power, c.Supply, c.Now)
	if callErr.Error() != "no majority" {
		return pbt.Violf("C12/tally-error", "a result is due but %s", desc)
	}
	switch {
	case ref.winner < 0:
		return pbt.Violf("C12/tally-tie-no-result", "exact tie of the two best scores leaves the dispute undecided: %s", desc)
	case ref.nearTie:
		return pbt.Violf("C12/tally-near-tie-no-result", "scores differ by <=1e-6 of a group weight, truncation makes them equal and the dispute stays undecided: %s", desc)
	case ref.holdersVoted && ref.early != 0 && (ref.winner3 < 0 || ref.nearTie3):
		return pbt.Violf("C12/early-quorum-ignores-tokenholders/tie", "team+users+reporters reach quorum and tie (gap %s) among themselves; token holders voted and decide the table but are left out: %s", ref.gap3.FloatString(9), desc)
	case ref.early != 0 && ref.gap3.Cmp(big.NewRat(4, 1000000)) < 0:
		return pbt.Violf("C12/early-quorum-div4-truncation-tie", "early-quorum branch divides by 4 before truncating to 1e-6: scores %s apart become equal: %s", ref.gap3.FloatString(9), desc)
	}
	return pbt.Violf("C12/no-result", "%s", desc)
}

// ------------------------------------------------------------------ generators

var c12Specials = []uint64{1, 2, 3, 10, 300000, 450000, 1000000, 25000000, 1<<32 - 1, 1 << 32, 1<<53 + 1, 1000000000000000000,
	1 << 62, 1<<63 - 1, 1 << 63, 1<<63 + 1, (1<<64 - 1) / 3, (1<<64 - 1) / 2, 1<<64 - 2, 1<<64 - 1}

func c12Uni(t *rapid.T, label string, n int) int {
	// rapid's IntRange is biased to small values; draw a byte-ish uniform instead
	return int(rapid.Uint32().Draw(t, label) % uint32(n))
}

func genX(t *rapid.T) uint64 {
	switch c12Uni(t, "xkind", 6) {
	case 0, 1:
		return uint64(1 + c12Uni(t, "xs", 5))
	case 2, 3:
		return c12Specials[c12Uni(t, "xsp", len(c12Specials))]
	case 4:
		return rapid.Uint64Range(1, 1<<40).Draw(t, "xm")
	default:
		return rapid.Uint64Range(1, 1<<64-1).Draw(t, "xr")
	}
}

func genCells(t *rapid.T) [3]uint64 {
	var a [3]uint64
	switch c12Uni(t, "ckind", 8) {
	case 0:
		// nobody voted
	case 1:
		for i := range a {
			a[i] = uint64(c12Uni(t, "cs", 4))
		}
	case 2: // equal opposing
		x := genX(t)
		a[0], a[1] = x, x
		switch c12Uni(t, "third", 3) {
		case 1:
			a[2] = x
		case 2:
			a[2] = uint64(c12Uni(t, "cs3", 3))
		}
	case 3: // one unit apart
		x := genX(t)
		if x == 1<<64-1 {
			x--
		}
		a[0], a[1] = x, x+1
		if c12Uni(t, "third", 3) == 1 {
			a[2] = x
		}
	case 4: // single choice
		a[0] = genX(t)
	case 5: // two choices
		a[0], a[1] = genX(t), genX(t)
	default:
		a[0], a[1], a[2] = genX(t), genX(t), genX(t)
	}
	// keep the group's sum inside uint64 except in 1 of 16 cases
	sum := new(big.Int)
	for _, v := range a {
		sum.Add(sum, new(big.Int).SetUint64(v))
	}
	if sum.BitLen() > 64 && c12Uni(t, "allowBig", 16) != 0 {
		for i := range a {
			a[i] /= 3
		}
	}
	// random assignment of the three numbers to support/against/invalid
	p := rapid.Permutation([]int{0, 1, 2}).Draw(t, "perm")
	return [3]uint64{a[p[0]], a[p[1]], a[p[2]]}
}

func genTotal(t *rapid.T, cells [3]uint64, label string) string {
	sum := new(big.Int)
	for _, v := range cells {
		sum.Add(sum, new(big.Int).SetUint64(v))
	}
	max64 := new(big.Int).SetUint64(1<<64 - 1)
	mul := func(m int64, d int64) *big.Int {
		r := new(big.Int).Mul(sum, big.NewInt(m))
		return r.Add(r, big.NewInt(d))
	}
	var tot *big.Int
	if sum.Sign() == 0 {
		switch c12Uni(t, label+"z", 4) {
		case 0:
			tot = new(big.Int)
		case 1:
			tot = big.NewInt(int64(1 + c12Uni(t, label+"zs", 100)))
		case 2:
			tot = new(big.Int).SetUint64(genX(t))
		default:
			tot = max64
		}
		return tot.String()
	}
	switch c12Uni(t, label+"k", 12) {
	case 0, 1:
		tot = mul(1, 0)
	case 2:
		tot = mul(1, 1)
	case 3:
		tot = mul(2, 0)
	case 4:
		tot = mul(4, 0)
	case 5:
		tot = mul(25, 0)
	case 6:
		tot = mul(25, 1)
	case 7:
		tot = mul(25, -1)
	case 8:
		tot = mul(100, 0)
	case 9:
		tot = new(big.Int).Set(max64)
	case 10:
		tot = new(big.Int).Add(sum, new(big.Int).SetUint64(genX(t)))
	default:
		tot = mul(int64(1+c12Uni(t, label+"m", 60)), int64(c12Uni(t, label+"d", 3)))
	}
	if tot.Cmp(sum) < 0 {
		tot = sum
	}
	return tot.String()
}

func genTallyCase(t *rapid.T) TallyCase {
	var c TallyCase
	c.Users = genCells(t)
	c.Reps = genCells(t)
	c.Holders = genCells(t)
	c.Team = c12Uni(t, "team", 4)
	c.Tips = genTotal(t, c.Users, "tips")
	c.Power = genTotal(t, c.Reps, "power")
	c.Supply = genTotal(t, c.Holders, "supply")
	// time: after VoteEnd in half of the cases
	switch c12Uni(t, "now", 8) {
	case 0:
		c.Now = 0
	case 1:
		c.Now = 1
	case 2:
		c.Now = 2
	case 3, 4:
		c.Now = 3
	default:
		c.Now = 4
	}
	c.DispEnd = c12Uni(t, "dispEnd", 5)
	return c
}

// ------------------------------------------------------------------ tests

func TestC12_Tally(t *testing.T) {
	e := newTallyEnv(t)
	pbt.Run(t, pbt.Prop[TallyCase]{Property: "C12", Name: "TestC12_Tally", Rule: c12Rule, Gen: genTallyCase, Check: e.check})
}

// Exhaustive small scope: every table with cells in {0,1,2}, team in {none,S,A,I},
// group totals all 6 (quorum depends on the table: 6 is the largest possible
// number of votes in a group) or all 1000 (quorum never reached), block time
// after VoteEnd.
func TestC12_TallyExhaustive(t *testing.T) {
	e := newTallyEnv(t)
	pbt.RunExhaustive(t, pbt.Prop[TallyCase]{Property: "C12", Name: "TestC12_TallyExhaustive",
		Rule:  "exhaustive: every 3x3 table with cells in {0,1,2} x team in {none,S,A,I} x group totals in {6 each, 1000 each}, block time VoteEnd+1h, dispute end not reached; non-trivial as in TestC12_Tally",
		Check: e.check},
		func(yield func(TallyCase) bool) {
			for _, tot := range []string{"6", "1000"} {
				for team := 0; team < 4; team++ {
					for code := 0; code < 19683; code++ {
						var cells [9]uint64
						x := code
						for i := range cells {
							cells[i] = uint64(x % 3)
							x /= 3
						}
						c := TallyCase{Team: team, Tips: tot, Power: tot, Supply: tot, Now: 4, DispEnd: 4}
						copy(c.Users[:], cells[0:3])
						copy(c.Reps[:], cells[3:6])
						copy(c.Holders[:], cells[6:9])
						if !yield(c) {
							return
						}
					}
				}
			}
		})
}

// Ratio(total, part) is the building block of the quorum: 25% x part/total,
// in units of 1e-6 percent, rounded down.
type RatioCase struct {
	Total string `json:"total"`
	Part  string `json:"part"`
}

func TestC12_Ratio(t *testing.T) {
	pbt.Run(t, pbt.Prop[RatioCase]{Property: "C12", Name: "TestC12_Ratio",
		Rule: "Ratio(total, part) for part <= total, values from {0, small, specials up to 2^64-1, 3x(2^64-1), random}; non-trivial = 0 < part and the exact value is not an integer",
		Gen: func(t *rapid.T) RatioCase {
			var total *big.Int
			if c12Uni(t, "zero", 12) == 0 {
				total = new(big.Int)
			} else {
				total = new(big.Int).SetUint64(genX(t))
				if c12Uni(t, "x3", 10) == 0 {
					total.Mul(total, big.NewInt(3))
				}
			}
			var part *big.Int
			switch c12Uni(t, "pk", 6) {
			case 0:
				part = new(big.Int)
			case 1:
				part = new(big.Int).Set(total)
			case 2:
				part = new(big.Int).Quo(total, big.NewInt(int64(1+c12Uni(t, "div", 30))))
			case 3:
				part = new(big.Int).SetUint64(genX(t))
			default:
				part = new(big.Int).SetUint64(rapid.Uint64().Draw(t, "p"))
			}
			if total.Sign() > 0 {
				if part.Cmp(total) > 0 {
					part.Mod(part, new(big.Int).Add(total, big.NewInt(1)))
				}
			} else if c12Uni(t, "pz", 2) == 0 {
				part = new(big.Int)
			}
			return RatioCase{Total: total.String(), Part: part.String()}
		},
		Check: func(c RatioCase, info *pbt.CaseInfo, st *pbt.Stats) error {
			total, ok1 := mustInt(c.Total)
			part, ok2 := mustInt(c.Part)
			if !ok1 || !ok2 {
				return fmt.Errorf("malformed case")
			}
			got := disputekeeper.Ratio(total, part).BigInt()
			st.Count("oracle_evals", 1)
			if total.IsZero() {
				info.Classes = []string{"total=0"}
				if got.Sign() != 0 {
					return pbt.Violf("C12/ratio/zero-total", "Ratio(0,%s)=%s, an empty group cannot contribute participation", c.Part, got)
				}
				return nil
			}
			// exact = part * 1e6 * 100 / (4 * total)
			num := new(big.Int).Mul(part.BigInt(), big.NewInt(100000000))
			den := new(big.Int).Mul(total.BigInt(), big.NewInt(4))
			fl, rem := new(big.Int).QuoRem(num, den, new(big.Int))
			info.Nontrivial = part.IsPositive() && rem.Sign() != 0
			if total.BigInt().BitLen() > 62 {
				info.Classes = append(info.Classes, "total>2^62")
			}
			if got.Cmp(fl) == 0 {
				return nil
			}
			// 18-decimal fixed point: a value within 1e-16 below an integer may round up to it
			// (far inside the 1e-6 x 25% quorum don't-care zone): counted, not raised
			slack := new(big.Rat).SetFrac(new(big.Int).Sub(den, rem), den) // distance to the next integer
			if got.Cmp(new(big.Int).Add(fl, big.NewInt(1))) == 0 && slack.Cmp(big.NewRat(1, 10000000000000000)) <= 0 {
				st.Count("rounded_up_within_1e-16", 1)
				return nil
			}
			return pbt.Violf("C12/ratio", "Ratio(total=%s, part=%s)=%s, floor(part*1e8/(4*total))=%s", c.Total, c.Part, got, fl)
		}})
}
