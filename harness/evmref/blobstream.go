package evmref

// Go transcription of BlobstreamO.sol: updateValidatorSet, verifyOracleData,
// _checkValidatorSignatures, _verifySig. The encodings inside come from the Spec
// (extracted from the source); the control flow is transcribed by hand and
// Load() asserts that the function bodies still read exactly as transcribed
// (bodyXxx constants below), so a changed contract gives an infrastructure
// error instead of a silently stale model.

import (
	"crypto/sha256"
	"errors"
	"math/big"

	ethcrypto "github.com/ethereum/go-ethereum/crypto"
)

const (
	bodyUpdateValidatorSet       = `if(_currentValidatorSet.length!=_sigs.length){revertMalformedCurrentValidatorSet();}if(_newValidatorTimestamp<validatorTimestamp){revertValidatorTimestampMustIncrease();}if(_newPowerThreshold==0){revertInvalidPowerThreshold();}bytes32_currentValidatorSetHash=keccak256(abi.encode(_currentValidatorSet));if(_domainSeparateValidatorSetHash(powerThreshold,validatorTimestamp,_currentValidatorSetHash)!=lastValidatorSetCheckpoint){revertSuppliedValidatorSetInvalid();}bytes32_newCheckpoint=_domainSeparateValidatorSetHash(_newPowerThreshold,_newValidatorTimestamp,_newValidatorSetHash);_checkValidatorSignatures(_currentValidatorSet,_sigs,_newCheckpoint,powerThreshold);lastValidatorSetCheckpoint=_newCheckpoint;powerThreshold=_newPowerThreshold;validatorTimestamp=_newValidatorTimestamp;emitValidatorSetUpdated(_newPowerThreshold,_newValidatorTimestamp,_newValidatorSetHash);`
	bodyCheckValidatorSignatures = `if(block.timestamp-(validatorTimestamp/1000)>unbondingPeriod){revertStaleValidatorSet();}uint256_cumulativePower=0;for(uint256_i=0;_i<_currentValidators.length;_i++){if(_sigs[_i].r==0&&_sigs[_i].s==0&&_sigs[_i].v==0){continue;}if(!_verifySig(_currentValidators[_i].addr,_digest,_sigs[_i])){revertInvalidSignature();}_cumulativePower+=_currentValidators[_i].power;if(_cumulativePower>=_powerThreshold){break;}}if(_cumulativePower<_powerThreshold){revertInsufficientVotingPower();}`
	bodyVerifySig                = `_digest=sha256(abi.encodePacked(_digest));return_signer==ecrecover(_digest,_sig.v,_sig.r,_sig.s);`
)

// Reverts of BlobstreamO (custom errors) and Solidity's checked-arithmetic panic.
var (
	ErrMalformedCurrentValidatorSet   = errors.New("MalformedCurrentValidatorSet()")
	ErrValidatorTimestampMustIncrease = errors.New("ValidatorTimestampMustIncrease()")
	ErrInvalidPowerThreshold          = errors.New("InvalidPowerThreshold()")
	ErrSuppliedValidatorSetInvalid    = errors.New("SuppliedValidatorSetInvalid()")
	ErrStaleValidatorSet              = errors.New("StaleValidatorSet()")
	ErrInvalidSignature               = errors.New("InvalidSignature()")
	ErrInsufficientVotingPower        = errors.New("InsufficientVotingPower()")
	ErrArithmetic                     = errors.New("Panic(0x11): arithmetic underflow or overflow")
)

// DefaultUnbondingPeriod is the value the contract tests deploy with (3 weeks, seconds).
const DefaultUnbondingPeriod = 86400 * 7 * 3

// Blobstream is the storage of a BlobstreamO instance after init().
type Blobstream struct {
	Spec                       *Spec
	PowerThreshold             *big.Int // uint256
	ValidatorTimestamp         *big.Int // uint256, milliseconds
	UnbondingPeriod            *big.Int // uint256, seconds
	LastValidatorSetCheckpoint [32]byte
}

// NewBlobstream is constructor + init(threshold, timestamp, DefaultUnbondingPeriod, checkpoint).
// Change UnbondingPeriod afterwards if another value is wanted.
func NewBlobstream(sp *Spec, threshold, timestamp uint64, checkpoint [32]byte) *Blobstream {
	return &Blobstream{
		Spec:                       sp,
		PowerThreshold:             new(big.Int).SetUint64(threshold),
		ValidatorTimestamp:         new(big.Int).SetUint64(timestamp),
		UnbondingPeriod:            big.NewInt(DefaultUnbondingPeriod),
		LastValidatorSetCheckpoint: checkpoint,
	}
}

var (
	secp256k1N, _ = new(big.Int).SetString("fffffffffffffffffffffffffffffffebaaedce6af48a03bbfd25e8cd0364141", 16)
	uint256Max    = new(big.Int).Sub(new(big.Int).Lsh(big.NewInt(1), 256), big.NewInt(1))
)

// Ecrecover is the EVM precompile 0x01 as Solidity's ecrecover sees it: v must be
// 27 or 28, 0 < r,s < n (high s allowed); any failure yields the zero address.
func Ecrecover(hash [32]byte, v uint8, r, s [32]byte) (addr [20]byte) {
	if v != 27 && v != 28 {
		return addr
	}
	rb, sb := new(big.Int).SetBytes(r[:]), new(big.Int).SetBytes(s[:])
	if rb.Sign() == 0 || sb.Sign() == 0 || rb.Cmp(secp256k1N) >= 0 || sb.Cmp(secp256k1N) >= 0 {
		return addr
	}
	sig := make([]byte, 65)
	copy(sig[:32], r[:])
	copy(sig[32:64], s[:])
	sig[64] = v - 27
	pub, err := ethcrypto.Ecrecover(hash[:], sig)
	if err != nil || len(pub) != 65 {
		return addr
	}
	copy(addr[:], Keccak256(pub[1:])[12:])
	return addr
}

// SignedDigest is what _verifySig feeds to ecrecover: sha256(abi.encodePacked(digest)).
func SignedDigest(digest [32]byte) [32]byte { return sha256.Sum256(digest[:]) }

// VerifySig is BlobstreamO._verifySig.
func VerifySig(signer [20]byte, digest [32]byte, sig Sig) bool {
	return signer == Ecrecover(SignedDigest(digest), sig.V, sig.R, sig.S)
}

// SigFromRS does what a relayer does with a 64-byte r||s signature from the chain:
// try v=27 and v=28 and keep the one that recovers to signer under the contract's
// convention. ok=false if neither does (or rs is not 64 bytes).
func SigFromRS(rs []byte, digest [32]byte, signer [20]byte) (sig Sig, ok bool) {
	if len(rs) != 64 {
		return sig, false
	}
	copy(sig.R[:], rs[:32])
	copy(sig.S[:], rs[32:])
	for _, v := range []uint8{27, 28} {
		sig.V = v
		if VerifySig(signer, digest, sig) {
			return sig, true
		}
	}
	return Sig{}, false
}

// AddressFromPrivKey derives the Ethereum address of a secp256k1 private key using
// only Sign + Ecrecover + keccak: address = keccak256(X||Y)[12:].
func AddressFromPrivKey(priv []byte) (addr [20]byte, err error) {
	k, err := ethcrypto.ToECDSA(priv)
	if err != nil {
		return addr, err
	}
	h := sha256.Sum256([]byte("evmref address derivation"))
	sig, err := ethcrypto.Sign(h[:], k)
	if err != nil {
		return addr, err
	}
	pub, err := ethcrypto.Ecrecover(h[:], sig)
	if err != nil {
		return addr, err
	}
	copy(addr[:], Keccak256(pub[1:])[12:])
	return addr, nil
}

func (s Sig) isNil() bool { return s.V == 0 && s.R == [32]byte{} && s.S == [32]byte{} }

func (b *Blobstream) currentCheckpointMatches(cur []Validator) (bool, error) {
	h, err := b.Spec.ValsetHash(cur)
	if err != nil {
		return false, err
	}
	cp, err := b.Spec.Checkpoint(b.PowerThreshold, b.ValidatorTimestamp, h)
	if err != nil {
		return false, err
	}
	return cp == b.LastValidatorSetCheckpoint, nil
}

// checkValidatorSignatures is _checkValidatorSignatures; now is block.timestamp (seconds).
func (b *Blobstream) checkValidatorSignatures(now uint64, cur []Validator, sigs []Sig, digest [32]byte, threshold *big.Int) error {
	age := new(big.Int).Sub(new(big.Int).SetUint64(now), new(big.Int).Div(b.ValidatorTimestamp, big.NewInt(1000)))
	if age.Sign() < 0 {
		return ErrArithmetic
	}
	if age.Cmp(b.UnbondingPeriod) > 0 {
		return ErrStaleValidatorSet
	}
	cum := new(big.Int)
	for i := range cur {
		if sigs[i].isNil() {
			continue
		}
		if !VerifySig(cur[i].Addr, digest, sigs[i]) {
			return ErrInvalidSignature
		}
		cum.Add(cum, new(big.Int).SetUint64(cur[i].Power))
		if cum.Cmp(uint256Max) > 0 {
			return ErrArithmetic
		}
		if cum.Cmp(threshold) >= 0 {
			break
		}
	}
	if cum.Cmp(threshold) < 0 {
		return ErrInsufficientVotingPower
	}
	return nil
}

// UpdateValidatorSet is BlobstreamO.updateValidatorSet at block.timestamp = now.
// A non-nil error is the revert; state is unchanged then.
func (b *Blobstream) UpdateValidatorSet(now uint64, newValsetHash [32]byte, newThreshold uint64, newTimestamp uint64, cur []Validator, sigs []Sig) error {
	if len(cur) != len(sigs) {
		return ErrMalformedCurrentValidatorSet
	}
	nt := new(big.Int).SetUint64(newTimestamp)
	if nt.Cmp(b.ValidatorTimestamp) < 0 {
		return ErrValidatorTimestampMustIncrease
	}
	if newThreshold == 0 {
		return ErrInvalidPowerThreshold
	}
	ok, err := b.currentCheckpointMatches(cur)
	if err != nil {
		return err
	}
	if !ok {
		return ErrSuppliedValidatorSetInvalid
	}
	nth := new(big.Int).SetUint64(newThreshold)
	newCp, err := b.Spec.Checkpoint(nth, nt, newValsetHash)
	if err != nil {
		return err
	}
	if err := b.checkValidatorSignatures(now, cur, sigs, newCp, b.PowerThreshold); err != nil {
		return err
	}
	b.LastValidatorSetCheckpoint = newCp
	b.PowerThreshold = nth
	b.ValidatorTimestamp = nt
	return nil
}

// VerifyOracleData is BlobstreamO.verifyOracleData at block.timestamp = now.
func (b *Blobstream) VerifyOracleData(now uint64, att OracleAttestationData, cur []Validator, sigs []Sig) error {
	if len(cur) != len(sigs) {
		return ErrMalformedCurrentValidatorSet
	}
	ok, err := b.currentCheckpointMatches(cur)
	if err != nil {
		return err
	}
	if !ok {
		return ErrSuppliedValidatorSetInvalid
	}
	digest, err := b.Spec.AttestationDigest(att, b.LastValidatorSetCheckpoint)
	if err != nil {
		return err
	}
	return b.checkValidatorSignatures(now, cur, sigs, digest, b.PowerThreshold)
}

// IsRevert reports whether err is one of the contract's reverts (as opposed to an
// infrastructure error from the reference itself).
func IsRevert(err error) bool {
	for _, e := range []error{ErrMalformedCurrentValidatorSet, ErrValidatorTimestampMustIncrease, ErrInvalidPowerThreshold,
		ErrSuppliedValidatorSetInvalid, ErrStaleValidatorSet, ErrInvalidSignature, ErrInsufficientVotingPower, ErrArithmetic} {
		if errors.Is(err, e) {
			return true
		}
	}
	return false
}
