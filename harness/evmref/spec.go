package evmref

import (
	"encoding/hex"
	"errors"
	"fmt"
	"math/big"
	"os"
	"path/filepath"
	"strings"
	"sync"
)

// Logical values, named after the Solidity structs in BlobstreamO.sol.

type Validator struct {
	Addr  [20]byte
	Power uint64
}

type ReportData struct {
	Value             []byte
	Timestamp         uint64
	AggregatePower    uint64
	PreviousTimestamp uint64
	NextTimestamp     uint64
}

type OracleAttestationData struct {
	QueryId              [32]byte
	Report               ReportData
	AttestationTimestamp uint64
}

// Sig is the contract's Signature struct.
type Sig struct {
	V uint8
	R [32]byte
	S [32]byte
}

// solidity field name -> value, used to resolve member paths from the sources.
func (v Validator) sol() map[string]any {
	return map[string]any{"addr": v.Addr, "power": v.Power}
}

func (r ReportData) sol() map[string]any {
	return map[string]any{"value": r.Value, "timestamp": r.Timestamp, "aggregatePower": r.AggregatePower,
		"previousTimestamp": r.PreviousTimestamp, "nextTimestamp": r.NextTimestamp}
}

func (a OracleAttestationData) sol() map[string]any {
	return map[string]any{"queryId": a.QueryId, "report": a.Report.sol(), "attestationTimestamp": a.AttestationTimestamp}
}

// what the Go model above knows; a struct in the .sol with other members needs a model update
var modelStructs = map[string][]string{
	"Validator":             {"addr", "power"},
	"ReportData":            {"value", "timestamp", "aggregatePower", "previousTimestamp", "nextTimestamp"},
	"OracleAttestationData": {"queryId", "report", "attestationTimestamp"},
	"Signature":             {"v", "r", "s"},
}

// Spec is everything extracted from the contract sources.
type Spec struct {
	Root      string
	Structs   map[string]StructDef
	Constants map[string][32]byte

	ValidatorArray    Type  // type of the argument of keccak256(abi.encode(_currentValidatorSet))
	CheckpointArgs    []Arg // abi.encode(...) in _domainSeparateValidatorSetHash
	DigestArgs        []Arg // abi.encode(...) of _dataDigest in verifyOracleData
	AttestParam       string
	WithdrawQueryArgs []Arg   // abi.encode("TRBBridge", abi.encode(false, _depositId)) in withdrawFromLayer
	WithdrawIdParam   string  // the uint256 id parameter referenced there
	WithdrawValue     []Field // abi.decode tuple of withdrawFromLayer: type + role-name (destructuring names)
	WithdrawTypes     []Type
	DepositValue      []Field // (sender, recipient, amount, tip) of DepositDetails / Deposit event
	DepositTypes      []Type
}

const (
	blobstreamPath  = "evm/contracts/bridge/BlobstreamO.sol"
	constantsPath   = "evm/contracts/bridge/Constants.sol"
	tokenBridgePath = "evm/contracts/token-bridge/TokenBridge.sol"
	ifacePath       = "evm/contracts/interfaces/IBlobstreamO.sol"
)

// RepoRoot is $VERIF_REPO or /repo.
func RepoRoot() string {
	if r := os.Getenv("VERIF_REPO"); r != "" {
		return r
	}
	return "/repo"
}

var (
	defOnce sync.Once
	defSpec *Spec
	defErr  error
)

// Default loads the spec from RepoRoot() once per process.
func Default() (*Spec, error) {
	defOnce.Do(func() { defSpec, defErr = Load(RepoRoot()) })
	return defSpec, defErr
}

func readCode(root, rel string) (string, error) {
	b, err := os.ReadFile(filepath.Join(root, rel))
	if err != nil {
		return "", infraf("cannot read %s: %v", rel, err)
	}
	return stripComments(string(b)), nil
}

func mustContain(where, body string, snippets ...string) error {
	sq := squash(body)
	for _, s := range snippets {
		if !strings.Contains(sq, s) {
			return infraf("%s no longer contains `%s`; the Go transcription in evmref must be re-checked against the contract", where, s)
		}
	}
	return nil
}

func mustEqualBody(where, body, want string) error {
	if squash(body) != want {
		return infraf("%s body changed; the Go transcription in evmref (BlobstreamModel) must be re-checked.\n have: %s\n want: %s", where, squash(body), want)
	}
	return nil
}

func sameFields(a, b []Field) bool {
	if len(a) != len(b) {
		return false
	}
	for i := range a {
		if a[i] != b[i] {
			return false
		}
	}
	return true
}

// Load reads the three contracts under root and extracts the Spec.
func Load(root string) (*Spec, error) {
	blob, err := readCode(root, blobstreamPath)
	if err != nil {
		return nil, err
	}
	consts, err := readCode(root, constantsPath)
	if err != nil {
		return nil, err
	}
	tb, err := readCode(root, tokenBridgePath)
	if err != nil {
		return nil, err
	}
	iface, err := readCode(root, ifacePath)
	if err != nil {
		return nil, err
	}
	sp := &Spec{Root: root, Constants: map[string][32]byte{}}

	// ---- structs
	sp.Structs, err = parseStructs(blob)
	if err != nil {
		return nil, err
	}
	for name, members := range modelStructs {
		sd, ok := sp.Structs[name]
		if !ok {
			return nil, infraf("struct %s not found in %s", name, blobstreamPath)
		}
		have := map[string]bool{}
		for _, f := range sd.Fields {
			have[f.Name] = true
		}
		if len(have) != len(members) || len(sd.Fields) != len(members) {
			return nil, infraf("struct %s has members %v, reference model knows %v", name, sd.Fields, members)
		}
		for _, m := range members {
			if !have[m] {
				return nil, infraf("struct %s lost member %q (has %v)", name, m, sd.Fields)
			}
		}
	}
	// TokenBridge sees these structs through the interface file: they must be the same text-wise
	ifaceStructs, err := parseStructs(iface)
	if err != nil {
		return nil, err
	}
	for name := range modelStructs {
		is, ok := ifaceStructs[name]
		if !ok || !sameFields(is.Fields, sp.Structs[name].Fields) {
			return nil, infraf("struct %s differs between %s and %s", name, ifacePath, blobstreamPath)
		}
	}
	tbStructs, err := parseStructs(tb)
	if err != nil {
		return nil, err
	}
	for n, sd := range tbStructs {
		sp.Structs[n] = sd
	}

	// ---- constants
	constTypes := map[string]string{}
	for name, f := range parseConstants(consts) {
		constTypes[name] = f.Type
		if f.Type != "bytes32" {
			continue
		}
		raw, err := hex.DecodeString(strings.TrimPrefix(f.Name, "0x"))
		if err != nil || len(raw) != 32 {
			return nil, infraf("constant %s is not a 32-byte hex literal: %s", name, f.Name)
		}
		var v [32]byte
		copy(v[:], raw)
		sp.Constants[name] = v
	}
	if len(sp.Constants) == 0 {
		return nil, infraf("no bytes32 constants found in %s", constantsPath)
	}
	stateVars := parseStateVars(blob)

	// ---- _domainSeparateValidatorSetHash
	fnDom, err := findFunction(blob, "_domainSeparateValidatorSetHash")
	if err != nil {
		return nil, err
	}
	wantDom := []Field{{"uint256", "_powerThreshold"}, {"uint256", "_validatorTimestamp"}, {"bytes32", "_validatorSetHash"}}
	if !sameFields(fnDom.Params, wantDom) {
		return nil, infraf("_domainSeparateValidatorSetHash parameters are %v, expected %v", fnDom.Params, wantDom)
	}
	cs := topLevelCalls(findCalls(fnDom.Body, "abi.encode"))
	if len(cs) != 1 {
		return nil, infraf("_domainSeparateValidatorSetHash: expected one abi.encode, found %d", len(cs))
	}
	if err := mustContain("_domainSeparateValidatorSetHash", fnDom.Body, "returnkeccak256(abi.encode("); err != nil {
		return nil, err
	}
	sc := &scope{structs: sp.Structs, vars: []map[string]string{merge(fieldsToMap(fnDom.Params), localVars(fnDom.Body)), stateVars, constTypes}}
	if sp.CheckpointArgs, err = sc.parseArgs(cs[0].Args); err != nil {
		return nil, err
	}

	// ---- verifyOracleData
	fnVer, err := findFunction(blob, "verifyOracleData")
	if err != nil {
		return nil, err
	}
	wantVer := []Field{{"OracleAttestationData", "_attestData"}, {"Validator[]", "_currentValidatorSet"}, {"Signature[]", "_sigs"}}
	if !sameFields(fnVer.Params, wantVer) {
		return nil, infraf("verifyOracleData parameters are %v, expected %v", fnVer.Params, wantVer)
	}
	sp.AttestParam = "_attestData"
	sc = &scope{structs: sp.Structs, vars: []map[string]string{merge(fieldsToMap(fnVer.Params), localVars(fnVer.Body)), stateVars, constTypes}}
	cs = topLevelCalls(findCalls(fnVer.Body, "abi.encode"))
	if len(cs) != 2 {
		return nil, infraf("verifyOracleData: expected two abi.encode expressions, found %d", len(cs))
	}
	valsetSeen := false
	for _, c := range cs {
		args, err := sc.parseArgs(c.Args)
		if err != nil {
			return nil, err
		}
		if len(args) == 1 && args[0].Kind == ArgRef && args[0].Expr == "_currentValidatorSet" {
			sp.ValidatorArray = args[0].Type
			valsetSeen = true
			continue
		}
		sp.DigestArgs = args
	}
	if !valsetSeen || sp.DigestArgs == nil {
		return nil, infraf("verifyOracleData: did not find both abi.encode(_currentValidatorSet) and the digest encoding")
	}
	if sp.ValidatorArray.Kind != KArray || sp.ValidatorArray.Elem.Kind != KTuple || sp.ValidatorArray.Elem.Struct != "Validator" {
		return nil, infraf("_currentValidatorSet has type %s, expected Validator[]", sp.ValidatorArray)
	}
	if err := mustContain("verifyOracleData", fnVer.Body,
		"if(_currentValidatorSet.length!=_sigs.length){revertMalformedCurrentValidatorSet();}",
		"bytes32_currentValidatorSetHash=keccak256(abi.encode(_currentValidatorSet));",
		"if(_domainSeparateValidatorSetHash(powerThreshold,validatorTimestamp,_currentValidatorSetHash)!=lastValidatorSetCheckpoint){revertSuppliedValidatorSetInvalid();}",
		"bytes32_dataDigest=keccak256(abi.encode(",
		"_checkValidatorSignatures(_currentValidatorSet,_sigs,_dataDigest,powerThreshold);",
	); err != nil {
		return nil, err
	}

	// ---- functions transcribed by hand in blobstream.go: the text must be what was transcribed
	fnUpd, err := findFunction(blob, "updateValidatorSet")
	if err != nil {
		return nil, err
	}
	wantUpd := []Field{{"bytes32", "_newValidatorSetHash"}, {"uint64", "_newPowerThreshold"}, {"uint256", "_newValidatorTimestamp"},
		{"Validator[]", "_currentValidatorSet"}, {"Signature[]", "_sigs"}}
	if !sameFields(fnUpd.Params, wantUpd) {
		return nil, infraf("updateValidatorSet parameters are %v, expected %v", fnUpd.Params, wantUpd)
	}
	if err := mustEqualBody("updateValidatorSet", fnUpd.Body, bodyUpdateValidatorSet); err != nil {
		return nil, err
	}
	fnChk, err := findFunction(blob, "_checkValidatorSignatures")
	if err != nil {
		return nil, err
	}
	wantChk := []Field{{"Validator[]", "_currentValidators"}, {"Signature[]", "_sigs"}, {"bytes32", "_digest"}, {"uint256", "_powerThreshold"}}
	if !sameFields(fnChk.Params, wantChk) {
		return nil, infraf("_checkValidatorSignatures parameters are %v, expected %v", fnChk.Params, wantChk)
	}
	if err := mustEqualBody("_checkValidatorSignatures", fnChk.Body, bodyCheckValidatorSignatures); err != nil {
		return nil, err
	}
	fnSig, err := findFunction(blob, "_verifySig")
	if err != nil {
		return nil, err
	}
	if err := mustEqualBody("_verifySig", fnSig.Body, bodyVerifySig); err != nil {
		return nil, err
	}
	for v, t := range map[string]string{"lastValidatorSetCheckpoint": "bytes32", "powerThreshold": "uint256", "validatorTimestamp": "uint256", "unbondingPeriod": "uint256"} {
		if stateVars[v] != t {
			return nil, infraf("state variable %s has type %q, expected %s", v, stateVars[v], t)
		}
	}
	sigT, err := resolveType(sp.Structs, "Signature")
	if err != nil {
		return nil, err
	}
	if sigT.String() != "(uint8,bytes32,bytes32)" || sp.Structs["Signature"].Fields[0].Name != "v" {
		return nil, infraf("Signature struct is %s %v, expected (uint8 v, bytes32 r, bytes32 s)", sigT, sp.Structs["Signature"].Fields)
	}

	// ---- TokenBridge.withdrawFromLayer
	fnW, err := findFunction(tb, "withdrawFromLayer")
	if err != nil {
		return nil, err
	}
	tbVars := parseStateVars(tb)
	sc = &scope{structs: sp.Structs, vars: []map[string]string{merge(fieldsToMap(fnW.Params), localVars(fnW.Body)), tbVars, constTypes}}
	cs = topLevelCalls(findCalls(fnW.Body, "abi.encode"))
	if len(cs) != 1 {
		return nil, infraf("withdrawFromLayer: expected one abi.encode expression, found %d", len(cs))
	}
	if err := mustContain("withdrawFromLayer", fnW.Body, "require(_attestData.queryId==keccak256(abi.encode(",
		"bridge.verifyOracleData(_attestData,_valset,_sigs);"); err != nil {
		return nil, err
	}
	if sp.WithdrawQueryArgs, err = sc.parseArgs(cs[0].Args); err != nil {
		return nil, err
	}
	nBool, nRef := 0, 0
	var walk func(as []Arg)
	walk = func(as []Arg) {
		for _, a := range as {
			switch a.Kind {
			case ArgBool:
				nBool++
				if a.Bool {
					nBool += 100 // withdraw direction must be `false`
				}
			case ArgRef:
				nRef++
				sp.WithdrawIdParam = a.Path[0]
				if len(a.Path) != 1 || a.Type.Kind != KUint {
					nRef += 100
				}
			case ArgNested:
				walk(a.Nested)
			}
		}
	}
	walk(sp.WithdrawQueryArgs)
	if nBool != 1 || nRef != 1 {
		return nil, infraf("withdrawFromLayer query id expression %v: expected exactly one `false` literal and one uint id parameter", cs[0].Args)
	}
	ds := findCalls(fnW.Body, "abi.decode")
	if len(ds) != 1 || len(ds[0].Args) != 2 {
		return nil, infraf("withdrawFromLayer: expected one abi.decode(value,(types)), found %d", len(ds))
	}
	if squash(ds[0].Args[0]) != "_attestData.report.value" {
		return nil, infraf("withdrawFromLayer: abi.decode is applied to %q, expected _attestData.report.value", ds[0].Args[0])
	}
	tup := strings.TrimSpace(ds[0].Args[1])
	if !strings.HasPrefix(tup, "(") || matchClose(tup, 0) != len(tup)-1 {
		return nil, infraf("withdrawFromLayer: abi.decode type tuple %q", tup)
	}
	decl, err := parseDeclList(tup[1 : len(tup)-1])
	if err != nil {
		return nil, err
	}
	// destructuring pattern to the left of "= abi.decode"
	before := fnW.Body[:ds[0].Start]
	stmt := before[strings.LastIndexAny(before, ";{}")+1:]
	stmt = strings.TrimSpace(stmt)
	if !strings.HasSuffix(stmt, "=") || !strings.HasPrefix(stmt, "(") {
		return nil, infraf("withdrawFromLayer: cannot find destructuring pattern before abi.decode: %q", stmt)
	}
	pat := strings.TrimSpace(strings.TrimSuffix(stmt, "="))
	if matchClose(pat, 0) != len(pat)-1 {
		return nil, infraf("withdrawFromLayer: destructuring pattern %q", pat)
	}
	lhs, err := parseDeclList(pat[1 : len(pat)-1])
	if err != nil {
		return nil, err
	}
	if len(lhs) != len(decl) {
		return nil, infraf("withdrawFromLayer: %d destructured names for %d decoded types", len(lhs), len(decl))
	}
	for i := range decl {
		if lhs[i].Type != "" && lhs[i].Type != decl[i].Type {
			return nil, infraf("withdrawFromLayer: destructured slot %d is %s, decoded type is %s", i, lhs[i].Type, decl[i].Type)
		}
		t, err := resolveType(sp.Structs, decl[i].Type)
		if err != nil {
			return nil, err
		}
		sp.WithdrawTypes = append(sp.WithdrawTypes, t)
		sp.WithdrawValue = append(sp.WithdrawValue, Field{Type: decl[i].Type, Name: lhs[i].Name})
	}
	roles := map[string]int{}
	for _, f := range sp.WithdrawValue {
		roles[f.Name]++
	}
	if len(sp.WithdrawValue) != 4 || roles["_recipient"] != 1 || roles["_layerSender"] != 1 || roles["_amountLoya"] != 1 || roles[""] != 1 {
		return nil, infraf("withdrawFromLayer: decoded slots %v, expected _recipient, _layerSender, _amountLoya and one unnamed (tip) slot", sp.WithdrawValue)
	}
	if err := mustContain("withdrawFromLayer", fnW.Body, "uint256_amountConverted=_amountLoya*1e12;", "token.transfer(_recipient,_amountConverted)"); err != nil {
		return nil, err
	}

	// ---- TokenBridge.depositToLayer: what a deposit report carries
	fnD, err := findFunction(tb, "depositToLayer")
	if err != nil {
		return nil, err
	}
	if err := mustContain("depositToLayer", fnD.Body,
		"deposits[depositId]=DepositDetails(msg.sender,_layerRecipient,_amount,_tip,block.number);",
		"emitDeposit(depositId,msg.sender,_layerRecipient,_amount,_tip);"); err != nil {
		return nil, err
	}
	dd, ok := sp.Structs["DepositDetails"]
	if !ok || len(dd.Fields) != 5 {
		return nil, infraf("struct DepositDetails not found or not 5 members: %v", dd.Fields)
	}
	events, err := parseEvents(tb)
	if err != nil {
		return nil, err
	}
	ev := events["Deposit"]
	if len(ev) != 5 {
		return nil, infraf("event Deposit has parameters %v, expected 5", ev)
	}
	for i, name := range []string{"sender", "recipient", "amount", "tip"} {
		f := dd.Fields[i]
		if f.Name != name || ev[i+1].Type != f.Type || ev[i+1].Name != "_"+name {
			return nil, infraf("DepositDetails member %d is %v / event parameter %v, expected %s", i, f, ev[i+1], name)
		}
		t, err := resolveType(sp.Structs, f.Type)
		if err != nil {
			return nil, err
		}
		sp.DepositValue = append(sp.DepositValue, f)
		sp.DepositTypes = append(sp.DepositTypes, t)
	}
	return sp, nil
}

// ---------------------------------------------------------------- reference functions

func (sp *Spec) constEnv() map[string]any {
	env := map[string]any{}
	for k, v := range sp.Constants {
		env[k] = v
	}
	return env
}

// ValsetEncoding is abi.encode(_currentValidatorSet) for Validator[] as defined in the source.
func (sp *Spec) ValsetEncoding(vals []Validator) ([]byte, error) {
	items := make([]any, len(vals))
	for i, v := range vals {
		items[i] = v.sol()
	}
	return Encode([]Type{sp.ValidatorArray}, []any{items})
}

// ValsetHash is keccak256(abi.encode(_currentValidatorSet)).
func (sp *Spec) ValsetHash(vals []Validator) ([32]byte, error) {
	enc, err := sp.ValsetEncoding(vals)
	if err != nil {
		return [32]byte{}, err
	}
	return Keccak256Hash(enc), nil
}

// CheckpointEncoding is the abi.encode(...) inside _domainSeparateValidatorSetHash.
func (sp *Spec) CheckpointEncoding(threshold, timestamp *big.Int, valsetHash [32]byte) ([]byte, error) {
	env := sp.constEnv()
	env["_powerThreshold"] = threshold
	env["_validatorTimestamp"] = timestamp
	env["_validatorSetHash"] = valsetHash
	ts, vs, err := evalArgs(sp.CheckpointArgs, env)
	if err != nil {
		return nil, err
	}
	return Encode(ts, vs)
}

// Checkpoint is _domainSeparateValidatorSetHash(threshold, timestamp, valsetHash).
func (sp *Spec) Checkpoint(threshold, timestamp *big.Int, valsetHash [32]byte) ([32]byte, error) {
	enc, err := sp.CheckpointEncoding(threshold, timestamp, valsetHash)
	if err != nil {
		return [32]byte{}, err
	}
	return Keccak256Hash(enc), nil
}

// AttestationEncoding is the abi.encode(...) hashed into _dataDigest in verifyOracleData.
func (sp *Spec) AttestationEncoding(att OracleAttestationData, lastValidatorSetCheckpoint [32]byte) ([]byte, error) {
	env := sp.constEnv()
	env[sp.AttestParam] = att.sol()
	env["lastValidatorSetCheckpoint"] = lastValidatorSetCheckpoint
	ts, vs, err := evalArgs(sp.DigestArgs, env)
	if err != nil {
		return nil, err
	}
	return Encode(ts, vs)
}

// AttestationDigest is the digest validators sign for an oracle attestation.
func (sp *Spec) AttestationDigest(att OracleAttestationData, lastValidatorSetCheckpoint [32]byte) ([32]byte, error) {
	enc, err := sp.AttestationEncoding(att, lastValidatorSetCheckpoint)
	if err != nil {
		return [32]byte{}, err
	}
	return Keccak256Hash(enc), nil
}

func flipDirection(args []Arg, toLayer bool) []Arg {
	out := make([]Arg, len(args))
	for i, a := range args {
		if a.Kind == ArgBool {
			a.Bool = toLayer
		}
		if a.Kind == ArgNested {
			a.Nested = flipDirection(a.Nested, toLayer)
		}
		out[i] = a
	}
	return out
}

// BridgeQueryData is the TRBBridge query data: the expression of withdrawFromLayer
// with the direction flag set to toLayer (false = withdrawal, as in the contract;
// true = deposit, the only other value of the flag).
func (sp *Spec) BridgeQueryData(toLayer bool, id *big.Int) ([]byte, error) {
	env := map[string]any{sp.WithdrawIdParam: id}
	ts, vs, err := evalArgs(flipDirection(sp.WithdrawQueryArgs, toLayer), env)
	if err != nil {
		return nil, err
	}
	return Encode(ts, vs)
}

func (sp *Spec) WithdrawQueryId(id uint64) ([32]byte, error) {
	enc, err := sp.BridgeQueryData(false, new(big.Int).SetUint64(id))
	if err != nil {
		return [32]byte{}, err
	}
	return Keccak256Hash(enc), nil
}

func (sp *Spec) DepositQueryId(id uint64) ([32]byte, error) {
	enc, err := sp.BridgeQueryData(true, new(big.Int).SetUint64(id))
	if err != nil {
		return [32]byte{}, err
	}
	return Keccak256Hash(enc), nil
}

// WithdrawReportValue is the report value withdrawFromLayer abi.decode()s:
// slots are bound by the names of the destructuring pattern in the contract.
func (sp *Spec) WithdrawReportValue(recipient [20]byte, layerSender string, amountLoya, tip *big.Int) ([]byte, error) {
	vals := make([]any, len(sp.WithdrawValue))
	for i, f := range sp.WithdrawValue {
		switch f.Name {
		case "_recipient":
			vals[i] = recipient
		case "_layerSender":
			vals[i] = layerSender
		case "_amountLoya":
			vals[i] = amountLoya
		case "":
			vals[i] = tip
		}
	}
	return Encode(sp.WithdrawTypes, vals)
}

// WithdrawFields is what the contract reads back from a withdrawal report value.
type WithdrawFields struct {
	Recipient   [20]byte
	LayerSender string
	AmountLoya  *big.Int
	Tip         *big.Int
}

// DecodeWithdrawValue is the abi.decode of withdrawFromLayer.
func (sp *Spec) DecodeWithdrawValue(data []byte) (WithdrawFields, error) {
	var out WithdrawFields
	vals, err := Decode(sp.WithdrawTypes, data)
	if err != nil {
		return out, err
	}
	for i, f := range sp.WithdrawValue {
		var ok bool
		switch f.Name {
		case "_recipient":
			out.Recipient, ok = vals[i].([20]byte)
		case "_layerSender":
			out.LayerSender, ok = vals[i].(string)
		case "_amountLoya":
			out.AmountLoya, ok = vals[i].(*big.Int)
		case "":
			out.Tip, ok = vals[i].(*big.Int)
		}
		if !ok {
			return out, infraf("withdraw value slot %d (%s %s) decoded to %T", i, f.Type, f.Name, vals[i])
		}
	}
	return out, nil
}

// DepositFields is what a deposit report value carries (TokenBridge.depositToLayer).
type DepositFields struct {
	Sender    [20]byte
	Recipient string
	Amount    *big.Int // 18-decimals token units, as on Ethereum
	Tip       *big.Int
}

// EncodeDepositValue is abi.encode(sender, recipient, amount, tip) with the types
// of DepositDetails / the Deposit event.
func (sp *Spec) EncodeDepositValue(d DepositFields) ([]byte, error) {
	vals := make([]any, len(sp.DepositValue))
	for i, f := range sp.DepositValue {
		switch f.Name {
		case "sender":
			vals[i] = d.Sender
		case "recipient":
			vals[i] = d.Recipient
		case "amount":
			vals[i] = d.Amount
		case "tip":
			vals[i] = d.Tip
		}
	}
	return Encode(sp.DepositTypes, vals)
}

func (sp *Spec) DecodeDepositValue(data []byte) (DepositFields, error) {
	var out DepositFields
	vals, err := Decode(sp.DepositTypes, data)
	if err != nil {
		return out, err
	}
	for i, f := range sp.DepositValue {
		var ok bool
		switch f.Name {
		case "sender":
			out.Sender, ok = vals[i].([20]byte)
		case "recipient":
			out.Recipient, ok = vals[i].(string)
		case "amount":
			out.Amount, ok = vals[i].(*big.Int)
		case "tip":
			out.Tip, ok = vals[i].(*big.Int)
		}
		if !ok {
			return out, infraf("deposit value slot %d (%s %s) decoded to %T", i, f.Type, f.Name, vals[i])
		}
	}
	return out, nil
}

// Threshold is two thirds of the total validator power, floor(2*total/3), in big ints.
func Threshold(total *big.Int) *big.Int {
	t := new(big.Int).Lsh(total, 1)
	return t.Div(t, big.NewInt(3))
}

// TotalPower sums powers without overflow.
func TotalPower(vals []Validator) *big.Int {
	t := new(big.Int)
	for _, v := range vals {
		t.Add(t, new(big.Int).SetUint64(v.Power))
	}
	return t
}

// Bytes32FromBytes is Solidity's explicit conversion bytes -> bytes32
// (left-aligned: shorter input is zero-padded on the right, longer is truncated).
func Bytes32FromBytes(b []byte) (out [32]byte) {
	copy(out[:], b)
	return out
}

// AddressFromBytes is address(uint160(uint256(x))) for a big-endian byte string x:
// the low-order 20 bytes, left-padded with zeros.
func AddressFromBytes(b []byte) (out [20]byte) {
	if len(b) > 20 {
		b = b[len(b)-20:]
	}
	copy(out[20-len(b):], b)
	return out
}

// Describe lists what was extracted (for logs and samples).
func (sp *Spec) Describe() map[string]string {
	exprs := func(as []Arg) string {
		var parts []string
		for _, a := range as {
			parts = append(parts, a.Type.String()+" "+a.Expr)
		}
		return strings.Join(parts, ", ")
	}
	cs := []string{}
	for k, v := range sp.Constants {
		cs = append(cs, fmt.Sprintf("%s=0x%x", k, v))
	}
	return map[string]string{
		"valset":         sp.ValidatorArray.String(),
		"checkpoint":     exprs(sp.CheckpointArgs),
		"digest":         exprs(sp.DigestArgs),
		"withdraw_query": exprs(sp.WithdrawQueryArgs),
		"withdraw_value": fmt.Sprint(sp.WithdrawValue),
		"deposit_value":  fmt.Sprint(sp.DepositValue),
		"constants":      strings.Join(cs, " "),
	}
}

// IsInfra reports whether err is a source-shape (infrastructure) error.
func IsInfra(err error) bool {
	var ie *InfraError
	return errors.As(err, &ie)
}
