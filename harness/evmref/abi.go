// Package evmref is an independent reference for what the Solidity bridge
// contracts (BlobstreamO, TokenBridge) compute from the same logical fields as
// the chain: a hand-written Solidity ABI encoder/decoder, keccak-256, a reader
// that extracts struct layouts / abi.encode argument lists / constants from the
// contract sources at run time, reference functions driven by what the reader
// found, and a Go transcription of BlobstreamO's verification logic.
//
// Independence rule: this package imports neither the chain's x/bridge code nor
// go-ethereum's accounts/abi (which the chain uses). go-ethereum/crypto is used
// only for the secp256k1 primitives (Sign / Ecrecover).
package evmref

import (
	"errors"
	"fmt"
	"math/big"
	"strings"

	"golang.org/x/crypto/sha3"
)

// Keccak256 is Ethereum's keccak-256 (the pre-standard padding).
func Keccak256(data ...[]byte) []byte {
	h := sha3.NewLegacyKeccak256()
	for _, d := range data {
		h.Write(d)
	}
	return h.Sum(nil)
}

func Keccak256Hash(data ...[]byte) (out [32]byte) {
	copy(out[:], Keccak256(data...))
	return out
}

// Kind of a Solidity ABI type.
type Kind int

const (
	KUint Kind = iota
	KAddress
	KBool
	KFixedBytes
	KBytes
	KString
	KArray // dynamic array T[]
	KTuple // struct / tuple
)

// Type is a Solidity ABI type.
type Type struct {
	Kind   Kind
	Bits   int      // KUint: 8..256
	Size   int      // KFixedBytes: 1..32
	Elem   *Type    // KArray
	Fields []Type   // KTuple
	Names  []string // KTuple: field names (may be empty strings)
	Struct string   // KTuple: struct name when it came from a struct definition
}

func (t Type) String() string {
	switch t.Kind {
	case KUint:
		return fmt.Sprintf("uint%d", t.Bits)
	case KAddress:
		return "address"
	case KBool:
		return "bool"
	case KFixedBytes:
		return fmt.Sprintf("bytes%d", t.Size)
	case KBytes:
		return "bytes"
	case KString:
		return "string"
	case KArray:
		return t.Elem.String() + "[]"
	case KTuple:
		parts := make([]string, len(t.Fields))
		for i, f := range t.Fields {
			parts[i] = f.String()
		}
		return "(" + strings.Join(parts, ",") + ")"
	}
	return "?"
}

// TypeList renders a list of types the way ethers' AbiCoder takes them.
func TypeList(ts []Type) string {
	parts := make([]string, len(ts))
	for i, t := range ts {
		parts[i] = t.String()
	}
	return strings.Join(parts, ",")
}

var (
	TUint256 = Type{Kind: KUint, Bits: 256}
	TAddress = Type{Kind: KAddress}
	TBool    = Type{Kind: KBool}
	TBytes32 = Type{Kind: KFixedBytes, Size: 32}
	TBytes   = Type{Kind: KBytes}
	TString  = Type{Kind: KString}
)

// IsDynamic: bytes, string, T[] and tuples that contain a dynamic member.
func (t Type) IsDynamic() bool {
	switch t.Kind {
	case KBytes, KString, KArray:
		return true
	case KTuple:
		for _, f := range t.Fields {
			if f.IsDynamic() {
				return true
			}
		}
	}
	return false
}

// headSize is the number of bytes the type occupies in the head part.
func (t Type) headSize() int {
	if t.IsDynamic() {
		return 32
	}
	if t.Kind == KTuple {
		n := 0
		for _, f := range t.Fields {
			n += f.headSize()
		}
		return n
	}
	return 32
}

func word(v *big.Int) []byte {
	out := make([]byte, 32)
	v.FillBytes(out)
	return out
}

func wordInt(n int) []byte { return word(big.NewInt(int64(n))) }

func padRight32(b []byte) []byte {
	n := (len(b) + 31) / 32 * 32
	out := make([]byte, n)
	copy(out, b)
	return out
}

func toBig(v any) (*big.Int, error) {
	switch x := v.(type) {
	case *big.Int:
		if x == nil {
			return nil, errors.New("nil *big.Int")
		}
		return x, nil
	case big.Int:
		return &x, nil
	case uint64:
		return new(big.Int).SetUint64(x), nil
	case uint8:
		return new(big.Int).SetUint64(uint64(x)), nil
	case uint32:
		return new(big.Int).SetUint64(uint64(x)), nil
	case int:
		return big.NewInt(int64(x)), nil
	case int64:
		return big.NewInt(x), nil
	}
	return nil, fmt.Errorf("cannot use %T as integer", v)
}

func toBytes(v any) ([]byte, error) {
	switch x := v.(type) {
	case []byte:
		return x, nil
	case [32]byte:
		return x[:], nil
	case [20]byte:
		return x[:], nil
	case string:
		return []byte(x), nil
	}
	return nil, fmt.Errorf("cannot use %T as bytes", v)
}

// encodeValue returns the encoding of one value of type t as it appears at its
// own position (for dynamic types: the tail blob, without the offset word).
func encodeValue(t Type, v any) ([]byte, error) {
	switch t.Kind {
	case KUint:
		n, err := toBig(v)
		if err != nil {
			return nil, fmt.Errorf("%s: %w", t, err)
		}
		if n.Sign() < 0 || n.BitLen() > t.Bits {
			return nil, fmt.Errorf("%s: value %s out of range", t, n)
		}
		return word(n), nil
	case KAddress:
		b, err := toBytes(v)
		if err != nil {
			return nil, fmt.Errorf("address: %w", err)
		}
		if len(b) != 20 {
			return nil, fmt.Errorf("address: need 20 bytes, have %d", len(b))
		}
		out := make([]byte, 32)
		copy(out[12:], b)
		return out, nil
	case KBool:
		b, ok := v.(bool)
		if !ok {
			return nil, fmt.Errorf("bool: cannot use %T", v)
		}
		out := make([]byte, 32)
		if b {
			out[31] = 1
		}
		return out, nil
	case KFixedBytes:
		b, err := toBytes(v)
		if err != nil {
			return nil, fmt.Errorf("%s: %w", t, err)
		}
		if len(b) != t.Size {
			return nil, fmt.Errorf("%s: need %d bytes, have %d", t, t.Size, len(b))
		}
		out := make([]byte, 32)
		copy(out, b) // bytesN is left-aligned (right-padded)
		return out, nil
	case KBytes, KString:
		b, err := toBytes(v)
		if err != nil {
			return nil, fmt.Errorf("%s: %w", t, err)
		}
		return append(wordInt(len(b)), padRight32(b)...), nil
	case KArray:
		items, ok := v.([]any)
		if !ok {
			return nil, fmt.Errorf("%s: cannot use %T as array", t, v)
		}
		ts := make([]Type, len(items))
		for i := range ts {
			ts[i] = *t.Elem
		}
		body, err := Encode(ts, items)
		if err != nil {
			return nil, err
		}
		return append(wordInt(len(items)), body...), nil
	case KTuple:
		vals, err := tupleValues(t, v)
		if err != nil {
			return nil, err
		}
		return Encode(t.Fields, vals)
	}
	return nil, fmt.Errorf("unsupported type %v", t)
}

func tupleValues(t Type, v any) ([]any, error) {
	switch x := v.(type) {
	case []any:
		if len(x) != len(t.Fields) {
			return nil, fmt.Errorf("%s: %d values for %d fields", t, len(x), len(t.Fields))
		}
		return x, nil
	case map[string]any:
		out := make([]any, len(t.Fields))
		for i, n := range t.Names {
			val, ok := x[n]
			if !ok {
				return nil, fmt.Errorf("%s: no value for field %q", t, n)
			}
			out[i] = val
		}
		return out, nil
	}
	return nil, fmt.Errorf("%s: cannot use %T as tuple", t, v)
}

// Encode is Solidity's abi.encode(values...) for the given types: a head with
// static values in place and 32-byte offsets (relative to the start of this
// encoding) for dynamic ones, followed by the tails in order.
func Encode(types []Type, values []any) ([]byte, error) {
	if len(types) != len(values) {
		return nil, fmt.Errorf("abi.encode: %d types, %d values", len(types), len(values))
	}
	headLen := 0
	for _, t := range types {
		headLen += t.headSize()
	}
	var head, tail []byte
	for i, t := range types {
		enc, err := encodeValue(t, values[i])
		if err != nil {
			return nil, fmt.Errorf("arg %d: %w", i, err)
		}
		if t.IsDynamic() {
			head = append(head, wordInt(headLen+len(tail))...)
			tail = append(tail, enc...)
		} else {
			head = append(head, enc...)
		}
	}
	return append(head, tail...), nil
}

// ---------------------------------------------------------------- decoding

// ErrDecode is returned for inputs on which Solidity's abi.decode reverts.
var ErrDecode = errors.New("abi.decode: malformed input")

func readWord(data []byte, off int) ([]byte, error) {
	if off < 0 || off+32 > len(data) {
		return nil, fmt.Errorf("%w: read of 32 bytes at %d beyond length %d", ErrDecode, off, len(data))
	}
	return data[off : off+32], nil
}

func readLen(data []byte, off int) (int, error) {
	w, err := readWord(data, off)
	if err != nil {
		return 0, err
	}
	n := new(big.Int).SetBytes(w)
	if n.BitLen() > 31 {
		return 0, fmt.Errorf("%w: length/offset %s too large", ErrDecode, n)
	}
	return int(n.Int64()), nil
}

// decodeAt decodes a value of type t whose head slot is at data[base+pos]; offsets
// are relative to base.
func decodeAt(t Type, data []byte, base, pos int) (any, error) {
	if t.IsDynamic() {
		rel, err := readLen(data, base+pos)
		if err != nil {
			return nil, err
		}
		at := base + rel
		switch t.Kind {
		case KBytes, KString:
			n, err := readLen(data, at)
			if err != nil {
				return nil, err
			}
			if at+32+n > len(data) {
				return nil, fmt.Errorf("%w: %s of length %d at %d beyond length %d", ErrDecode, t, n, at, len(data))
			}
			b := append([]byte(nil), data[at+32:at+32+n]...)
			if t.Kind == KString {
				return string(b), nil
			}
			return b, nil
		case KArray:
			n, err := readLen(data, at)
			if err != nil {
				return nil, err
			}
			out := make([]any, 0, n)
			p := 0
			for i := 0; i < n; i++ {
				v, err := decodeAt(*t.Elem, data, at+32, p)
				if err != nil {
					return nil, err
				}
				out = append(out, v)
				p += t.Elem.headSize()
			}
			return out, nil
		case KTuple:
			return decodeTuple(t.Fields, data, at)
		}
	}
	switch t.Kind {
	case KTuple:
		return decodeTuple(t.Fields, data, base+pos)
	}
	w, err := readWord(data, base+pos)
	if err != nil {
		return nil, err
	}
	switch t.Kind {
	case KUint:
		n := new(big.Int).SetBytes(w)
		if n.BitLen() > t.Bits {
			return nil, fmt.Errorf("%w: dirty high bits for %s", ErrDecode, t)
		}
		return n, nil
	case KAddress:
		for _, b := range w[:12] {
			if b != 0 {
				return nil, fmt.Errorf("%w: dirty high bits for address", ErrDecode)
			}
		}
		var a [20]byte
		copy(a[:], w[12:])
		return a, nil
	case KBool:
		n := new(big.Int).SetBytes(w)
		if n.BitLen() > 1 {
			return nil, fmt.Errorf("%w: bool word %s", ErrDecode, n)
		}
		return n.Sign() != 0, nil
	case KFixedBytes:
		for _, b := range w[t.Size:] {
			if b != 0 {
				return nil, fmt.Errorf("%w: dirty low bytes for %s", ErrDecode, t)
			}
		}
		return append([]byte(nil), w[:t.Size]...), nil
	}
	return nil, fmt.Errorf("unsupported type %v", t)
}

func decodeTuple(fields []Type, data []byte, base int) ([]any, error) {
	out := make([]any, len(fields))
	pos := 0
	for i, f := range fields {
		v, err := decodeAt(f, data, base, pos)
		if err != nil {
			return nil, err
		}
		out[i] = v
		pos += f.headSize()
	}
	return out, nil
}

// Decode is Solidity's abi.decode(data, (types...)) (0.8.x: strict about range
// of small types, lenient about trailing / unreferenced bytes).
func Decode(types []Type, data []byte) ([]any, error) {
	return decodeTuple(types, data, 0)
}
