package evmref

// A small reader for the Solidity sources of the bridge contracts. It is not a
// Solidity parser: it understands exactly the shapes that matter for the byte
// encodings (struct definitions, file-level bytes32 constants, state variable
// declarations, event and function signatures, and the argument lists of
// abi.encode(...) / abi.decode(...) expressions with identifiers, member paths,
// string / bool literals and nested abi.encode). Anything it does not understand
// is an *InfraError* (the source changed shape; the harness has to be looked at),
// never a property violation.

import (
	"fmt"
	"regexp"
	"strconv"
	"strings"
)

// InfraError marks "the contract text no longer has the shape this reader
// expects" as opposed to a disagreement between chain and contract.
type InfraError struct{ Msg string }

func (e *InfraError) Error() string { return "evmref: contract source shape: " + e.Msg }

func infraf(format string, a ...any) error { return &InfraError{Msg: fmt.Sprintf(format, a...)} }

// stripComments removes // and /* */ comments, leaving string literals intact.
func stripComments(src string) string {
	var b strings.Builder
	for i := 0; i < len(src); {
		c := src[i]
		switch {
		case c == '"' || c == '\'':
			j := i + 1
			for j < len(src) && src[j] != c {
				if src[j] == '\\' {
					j++
				}
				j++
			}
			if j >= len(src) {
				j = len(src) - 1
			}
			b.WriteString(src[i : j+1])
			i = j + 1
		case c == '/' && i+1 < len(src) && src[i+1] == '/':
			for i < len(src) && src[i] != '\n' {
				i++
			}
		case c == '/' && i+1 < len(src) && src[i+1] == '*':
			j := strings.Index(src[i+2:], "*/")
			if j < 0 {
				i = len(src)
			} else {
				i = i + 2 + j + 2
			}
			b.WriteByte(' ')
		default:
			b.WriteByte(c)
			i++
		}
	}
	return b.String()
}

// squash removes all whitespace outside string literals (for shape assertions).
func squash(s string) string {
	var b strings.Builder
	inStr := byte(0)
	for i := 0; i < len(s); i++ {
		c := s[i]
		if inStr != 0 {
			b.WriteByte(c)
			if c == '\\' && i+1 < len(s) {
				i++
				b.WriteByte(s[i])
			} else if c == inStr {
				inStr = 0
			}
			continue
		}
		if c == '"' || c == '\'' {
			inStr = c
			b.WriteByte(c)
			continue
		}
		if c == ' ' || c == '\t' || c == '\n' || c == '\r' {
			continue
		}
		b.WriteByte(c)
	}
	return b.String()
}

// matchClose returns the index of the bracket closing the one at s[open].
func matchClose(s string, open int) int {
	depth := 0
	inStr := byte(0)
	for i := open; i < len(s); i++ {
		c := s[i]
		if inStr != 0 {
			if c == '\\' {
				i++
			} else if c == inStr {
				inStr = 0
			}
			continue
		}
		switch c {
		case '"', '\'':
			inStr = c
		case '(', '[', '{':
			depth++
		case ')', ']', '}':
			depth--
			if depth == 0 {
				return i
			}
		}
	}
	return -1
}

// splitTop splits on sep at bracket depth 0, outside strings. Pieces are trimmed.
func splitTop(s string, sep byte) []string {
	var out []string
	depth := 0
	inStr := byte(0)
	start := 0
	for i := 0; i < len(s); i++ {
		c := s[i]
		if inStr != 0 {
			if c == '\\' {
				i++
			} else if c == inStr {
				inStr = 0
			}
			continue
		}
		switch c {
		case '"', '\'':
			inStr = c
		case '(', '[', '{':
			depth++
		case ')', ']', '}':
			depth--
		default:
			if c == sep && depth == 0 {
				out = append(out, strings.TrimSpace(s[start:i]))
				start = i + 1
			}
		}
	}
	out = append(out, strings.TrimSpace(s[start:]))
	return out
}

// Field is a struct member, function parameter, event parameter or tuple slot.
type Field struct {
	Type string // Solidity type text, e.g. "uint256", "Validator[]", "string"
	Name string // may be empty
}

type StructDef struct {
	Name   string
	Fields []Field
}

type FuncDef struct {
	Name   string
	Params []Field
	Body   string
}

var (
	reStruct   = regexp.MustCompile(`\bstruct\s+(\w+)\s*\{([^}]*)\}`)
	reConst    = regexp.MustCompile(`\b(\w+)\s+constant\s+(\w+)\s*=\s*(0x[0-9a-fA-F]+)\s*;`)
	reStateVar = regexp.MustCompile(`(?m)^\s*([A-Za-z_]\w*(?:\[\])?)\s+public\s+([A-Za-z_]\w*)\s*;`)
	reEvent    = regexp.MustCompile(`\bevent\s+(\w+)\s*\(([^)]*)\)\s*;`)
	reIdent    = regexp.MustCompile(`^[A-Za-z_]\w*$`)
	rePath     = regexp.MustCompile(`^[A-Za-z_]\w*(\.[A-Za-z_]\w*)*$`)
	reLocalVar = regexp.MustCompile(`(?:^|[;{}(,])\s*([A-Za-z_]\w*(?:\[\])?)\s+(?:memory\s+|calldata\s+|storage\s+)?([A-Za-z_]\w*)\s*(?:=|;)`)
)

var dataLocations = map[string]bool{"memory": true, "calldata": true, "storage": true, "indexed": true, "payable": true}

// parseDecl parses "type [location] [name]".
func parseDecl(s string) (Field, error) {
	toks := strings.Fields(s)
	var kept []string
	for _, t := range toks {
		if !dataLocations[t] {
			kept = append(kept, t)
		}
	}
	switch len(kept) {
	case 1:
		return Field{Type: kept[0]}, nil
	case 2:
		return Field{Type: kept[0], Name: kept[1]}, nil
	}
	return Field{}, infraf("cannot parse declaration %q", s)
}

func parseDeclList(s string) ([]Field, error) {
	s = strings.TrimSpace(s)
	if s == "" {
		return nil, nil
	}
	var out []Field
	for _, p := range splitTop(s, ',') {
		if p == "" { // trailing comma in a destructuring pattern: unnamed, untyped slot
			out = append(out, Field{})
			continue
		}
		f, err := parseDecl(p)
		if err != nil {
			return nil, err
		}
		out = append(out, f)
	}
	return out, nil
}

func parseStructs(code string) (map[string]StructDef, error) {
	out := map[string]StructDef{}
	for _, m := range reStruct.FindAllStringSubmatch(code, -1) {
		sd := StructDef{Name: m[1]}
		for _, part := range strings.Split(m[2], ";") {
			part = strings.TrimSpace(part)
			if part == "" {
				continue
			}
			f, err := parseDecl(part)
			if err != nil || f.Name == "" {
				return nil, infraf("struct %s: cannot parse member %q", sd.Name, part)
			}
			sd.Fields = append(sd.Fields, f)
		}
		out[sd.Name] = sd
	}
	return out, nil
}

func parseConstants(code string) map[string]Field {
	out := map[string]Field{} // name -> {Type, Name=hex literal}
	for _, m := range reConst.FindAllStringSubmatch(code, -1) {
		out[m[2]] = Field{Type: m[1], Name: m[3]}
	}
	return out
}

func parseStateVars(code string) map[string]string {
	out := map[string]string{}
	for _, m := range reStateVar.FindAllStringSubmatch(code, -1) {
		out[m[2]] = m[1]
	}
	return out
}

func parseEvents(code string) (map[string][]Field, error) {
	out := map[string][]Field{}
	for _, m := range reEvent.FindAllStringSubmatch(code, -1) {
		fs, err := parseDeclList(m[2])
		if err != nil {
			return nil, err
		}
		out[m[1]] = fs
	}
	return out, nil
}

func findFunction(code, name string) (*FuncDef, error) {
	re := regexp.MustCompile(`\bfunction\s+` + regexp.QuoteMeta(name) + `\s*\(`)
	locs := re.FindAllStringIndex(code, -1)
	if len(locs) != 1 {
		return nil, infraf("expected exactly one function %s, found %d", name, len(locs))
	}
	open := locs[0][1] - 1
	cl := matchClose(code, open)
	if cl < 0 {
		return nil, infraf("function %s: unbalanced parameter list", name)
	}
	params, err := parseDeclList(code[open+1 : cl])
	if err != nil {
		return nil, err
	}
	bo := strings.IndexByte(code[cl:], '{')
	if bo < 0 {
		return nil, infraf("function %s: no body", name)
	}
	bo += cl
	if semi := strings.IndexByte(code[cl:bo], ';'); semi >= 0 {
		return nil, infraf("function %s: declaration without body", name)
	}
	bc := matchClose(code, bo)
	if bc < 0 {
		return nil, infraf("function %s: unbalanced body", name)
	}
	return &FuncDef{Name: name, Params: params, Body: code[bo+1 : bc]}, nil
}

// call is one occurrence of callee(...) in a body.
type call struct {
	Start int // index of callee
	End   int // index just after ')'
	Args  []string
}

// findCalls finds callee( ... ) occurrences where callee is matched exactly
// (abi.encode does not match abi.encodePacked) and not as a suffix of a longer name.
func findCalls(body, callee string) []call {
	var out []call
	for from := 0; from < len(body); {
		i := strings.Index(body[from:], callee)
		if i < 0 {
			break
		}
		i += from
		from = i + len(callee)
		if i > 0 && (isIdentChar(body[i-1]) || body[i-1] == '.') {
			continue
		}
		j := i + len(callee)
		for j < len(body) && (body[j] == ' ' || body[j] == '\n' || body[j] == '\t' || body[j] == '\r') {
			j++
		}
		if j >= len(body) || body[j] != '(' {
			continue
		}
		cl := matchClose(body, j)
		if cl < 0 {
			continue
		}
		inner := strings.TrimSpace(body[j+1 : cl])
		var args []string
		if inner != "" {
			args = splitTop(inner, ',')
		}
		out = append(out, call{Start: i, End: cl + 1, Args: args})
	}
	return out
}

// topLevelCalls drops calls nested inside another returned call.
func topLevelCalls(cs []call) []call {
	var out []call
	for _, c := range cs {
		nested := false
		for _, d := range cs {
			if d.Start < c.Start && c.End <= d.End {
				nested = true
				break
			}
		}
		if !nested {
			out = append(out, c)
		}
	}
	return out
}

func isIdentChar(c byte) bool {
	return c == '_' || (c >= '0' && c <= '9') || (c >= 'a' && c <= 'z') || (c >= 'A' && c <= 'Z')
}

// localVars collects "type name =" / "type name;" declarations in a body.
func localVars(body string) map[string]string {
	out := map[string]string{}
	for _, m := range reLocalVar.FindAllStringSubmatch(body, -1) {
		if m[1] == "return" || m[1] == "revert" || m[1] == "emit" || m[1] == "delete" || m[1] == "new" {
			continue
		}
		out[m[2]] = m[1]
	}
	return out
}

// ---------------------------------------------------------------- types and args

// resolveType turns Solidity type text into an ABI Type, using struct definitions.
func resolveType(structs map[string]StructDef, s string) (Type, error) {
	s = strings.TrimSpace(s)
	if strings.HasSuffix(s, "[]") {
		el, err := resolveType(structs, strings.TrimSuffix(s, "[]"))
		if err != nil {
			return Type{}, err
		}
		return Type{Kind: KArray, Elem: &el}, nil
	}
	switch {
	case s == "address":
		return TAddress, nil
	case s == "bool":
		return TBool, nil
	case s == "bytes":
		return TBytes, nil
	case s == "string":
		return TString, nil
	case s == "uint":
		return TUint256, nil
	case strings.HasPrefix(s, "uint"):
		n, err := strconv.Atoi(s[4:])
		if err != nil || n < 8 || n > 256 || n%8 != 0 {
			return Type{}, infraf("bad type %q", s)
		}
		return Type{Kind: KUint, Bits: n}, nil
	case strings.HasPrefix(s, "bytes"):
		n, err := strconv.Atoi(s[5:])
		if err != nil || n < 1 || n > 32 {
			return Type{}, infraf("bad type %q", s)
		}
		return Type{Kind: KFixedBytes, Size: n}, nil
	}
	if sd, ok := structs[s]; ok {
		t := Type{Kind: KTuple, Struct: s}
		for _, f := range sd.Fields {
			ft, err := resolveType(structs, f.Type)
			if err != nil {
				return Type{}, err
			}
			t.Fields = append(t.Fields, ft)
			t.Names = append(t.Names, f.Name)
		}
		return t, nil
	}
	return Type{}, infraf("unknown type %q", s)
}

type ArgKind int

const (
	ArgRef    ArgKind = iota // identifier or member path: value comes from the environment
	ArgString                // string literal
	ArgBool                  // true / false
	ArgNested                // abi.encode(...) used as a bytes argument
)

// Arg is one argument of an abi.encode expression found in a contract.
type Arg struct {
	Expr   string
	Kind   ArgKind
	Path   []string // ArgRef
	Str    string   // ArgString
	Bool   bool     // ArgBool
	Nested []Arg    // ArgNested
	Type   Type
}

// scope resolves identifiers to declared Solidity types.
type scope struct {
	structs map[string]StructDef
	vars    []map[string]string // searched in order: locals+params, state vars, constants
}

func (sc *scope) parseArgs(exprs []string) ([]Arg, error) {
	out := make([]Arg, 0, len(exprs))
	for _, e := range exprs {
		a, err := sc.parseArg(e)
		if err != nil {
			return nil, err
		}
		out = append(out, a)
	}
	return out, nil
}

func (sc *scope) parseArg(expr string) (Arg, error) {
	e := strings.TrimSpace(expr)
	a := Arg{Expr: squash(e)}
	switch {
	case e == "true" || e == "false":
		a.Kind, a.Bool, a.Type = ArgBool, e == "true", TBool
		return a, nil
	case strings.HasPrefix(e, `"`):
		if !strings.HasSuffix(e, `"`) || len(e) < 2 || strings.ContainsAny(e[1:len(e)-1], `"\`) {
			return a, infraf("unsupported string literal %s", e)
		}
		a.Kind, a.Str, a.Type = ArgString, e[1:len(e)-1], TString
		return a, nil
	case strings.HasPrefix(e, "abi.encode"):
		cs := findCalls(e, "abi.encode")
		if len(cs) == 0 || cs[0].Start != 0 || cs[0].End != len(e) {
			return a, infraf("unsupported expression %q", e)
		}
		nested, err := sc.parseArgs(cs[0].Args)
		if err != nil {
			return a, err
		}
		a.Kind, a.Nested, a.Type = ArgNested, nested, TBytes
		return a, nil
	case rePath.MatchString(e):
		path := strings.Split(e, ".")
		var typ string
		found := false
		for _, m := range sc.vars {
			if t, ok := m[path[0]]; ok {
				typ, found = t, true
				break
			}
		}
		if !found {
			return a, infraf("identifier %q in %q has no visible declaration", path[0], e)
		}
		for _, member := range path[1:] {
			sd, ok := sc.structs[typ]
			if !ok {
				return a, infraf("%q: %q is not a struct", e, typ)
			}
			next := ""
			for _, f := range sd.Fields {
				if f.Name == member {
					next = f.Type
				}
			}
			if next == "" {
				return a, infraf("%q: struct %s has no member %q", e, typ, member)
			}
			typ = next
		}
		t, err := resolveType(sc.structs, typ)
		if err != nil {
			return a, err
		}
		a.Kind, a.Path, a.Type = ArgRef, path, t
		return a, nil
	}
	return a, infraf("unsupported abi.encode argument %q", e)
}

func fieldsToMap(fs []Field) map[string]string {
	m := map[string]string{}
	for _, f := range fs {
		if f.Name != "" {
			m[f.Name] = f.Type
		}
	}
	return m
}

func merge(ms ...map[string]string) map[string]string {
	out := map[string]string{}
	for _, m := range ms {
		for k, v := range m {
			out[k] = v
		}
	}
	return out
}

// evalArgs turns extracted args into (types, values) using env for references.
// env maps a root identifier to a value; member paths descend map[string]any.
func evalArgs(args []Arg, env map[string]any) ([]Type, []any, error) {
	types := make([]Type, len(args))
	vals := make([]any, len(args))
	for i, a := range args {
		types[i] = a.Type
		switch a.Kind {
		case ArgString:
			vals[i] = a.Str
		case ArgBool:
			vals[i] = a.Bool
		case ArgNested:
			nt, nv, err := evalArgs(a.Nested, env)
			if err != nil {
				return nil, nil, err
			}
			enc, err := Encode(nt, nv)
			if err != nil {
				return nil, nil, err
			}
			vals[i] = enc
		case ArgRef:
			v, ok := env[a.Path[0]]
			if !ok {
				return nil, nil, infraf("no reference binding for %q (expression %s)", a.Path[0], a.Expr)
			}
			for _, m := range a.Path[1:] {
				mm, ok := v.(map[string]any)
				if !ok {
					return nil, nil, infraf("reference binding for %s is not a struct at %q", a.Expr, m)
				}
				v, ok = mm[m]
				if !ok {
					return nil, nil, infraf("reference model has no field %q (expression %s)", m, a.Expr)
				}
			}
			vals[i] = v
		}
	}
	return types, vals, nil
}
