// Package pbt is the small shared layer between rapid and the /verif driver:
// it runs a property over generated cases, records what was generated
// (evaluations, distinct non-trivial cases, class histogram, samples), writes
// the shrunk failing case as a plain JSON replay file, replays such files
// without the library, and filters violations that match a committed known
// finding.
package pbt

import (
	"crypto/sha256"
	"encoding/binary"
	"encoding/json"
	"fmt"
	"os"
	"path/filepath"
	"sort"
	"strings"
	"sync"
	"testing"
	"time"

	"pgregory.net/rapid"
)

// Violation is what a property check returns when the oracle disagrees.
// Sig is a stable, specific signature (call site / input class / history shape)
// used to match committed known findings; Msg is for humans.
type Violation struct {
	Sig string
	Msg string
}

func (v *Violation) Error() string { return v.Sig + ": " + v.Msg }

func Violf(sig, format string, args ...any) *Violation {
	return &Violation{Sig: sig, Msg: fmt.Sprintf(format, args...)}
}

// Stats is collected per test function and written to $VERIF_OUT/<test>.stats.json.
type Stats struct {
	mu          sync.Mutex
	Test        string            `json:"test"`
	Property    string            `json:"property"`
	Evaluations int64             `json:"evaluations"`
	Nontrivial  int64             `json:"nontrivial_total"`
	Distinct    int64             `json:"distinct_nontrivial"`
	Rule        string            `json:"rule"`
	Classes     map[string]int64  `json:"classes"`
	Counters    map[string]int64  `json:"counters"`
	KnownHits   map[string]int64  `json:"known_hits"`
	Samples     []json.RawMessage `json:"samples"`
	Exhaustive  bool              `json:"exhaustive"`
	Failed      bool              `json:"failed"`
	FailSig     string            `json:"fail_sig,omitempty"`
	FailMsg     string            `json:"fail_msg,omitempty"`
	WallS       float64           `json:"wall_s"`
	hashes      map[uint64]struct{}
	hashCap     int
	start       time.Time
	sampleEvery int64
}

func NewStats(property, test, rule string) *Stats {
	return &Stats{Test: test, Property: property, Rule: rule, Classes: map[string]int64{}, Counters: map[string]int64{},
		KnownHits: map[string]int64{}, hashes: map[uint64]struct{}{}, hashCap: 400000, start: time.Now(), sampleEvery: 1}
}

// Class increments a label in the class histogram (case-level classification).
func (s *Stats) Class(label string) {
	s.mu.Lock()
	s.Classes[label]++
	s.mu.Unlock()
}

// Count adds to a free-form counter (oracle evaluations, blocks executed, ...).
func (s *Stats) Count(label string, n int64) {
	s.mu.Lock()
	s.Counters[label] += n
	s.mu.Unlock()
}

// CaseInfo is filled by a check for one case.
type CaseInfo struct {
	Nontrivial bool
	Classes    []string
	Note       any // optional extra, stored with samples
}

func hashOf(b []byte) uint64 {
	h := sha256.Sum256(b)
	return binary.LittleEndian.Uint64(h[:8])
}

func (s *Stats) record(caseJSON []byte, info *CaseInfo) {
	s.mu.Lock()
	defer s.mu.Unlock()
	s.Evaluations++
	for _, c := range info.Classes {
		s.Classes[c]++
	}
	if !info.Nontrivial {
		return
	}
	s.Nontrivial++
	h := hashOf(caseJSON)
	if _, ok := s.hashes[h]; !ok && len(s.hashes) < s.hashCap {
		s.hashes[h] = struct{}{}
		s.Distinct = int64(len(s.hashes))
		// keep up to 4 samples, spread out: 1st, 10th, 100th, 1000th distinct non-trivial case
		n := int64(len(s.hashes))
		if len(s.Samples) < 5 && (n == 1 || n == 10 || n == 100 || n == 1000 || n == 10000) && len(caseJSON) < 20000 {
			smp := map[string]any{"case": json.RawMessage(caseJSON), "classes": info.Classes}
			if info.Note != nil {
				smp["note"] = info.Note
			}
			b, _ := json.Marshal(smp)
			s.Samples = append(s.Samples, b)
		}
	}
}

func outDir() string {
	d := os.Getenv("VERIF_OUT")
	if d == "" {
		d = filepath.Join(os.TempDir(), "verif-out")
	}
	_ = os.MkdirAll(d, 0o755)
	return d
}

func (s *Stats) write() {
	s.mu.Lock()
	defer s.mu.Unlock()
	s.WallS = time.Since(s.start).Seconds()
	b, _ := json.MarshalIndent(s, "", " ")
	_ = os.WriteFile(filepath.Join(outDir(), s.Test+".stats.json"), b, 0o644)
	// hashes for cross-shard distinct counting
	hb := make([]byte, 0, 8*len(s.hashes))
	for h := range s.hashes {
		hb = binary.LittleEndian.AppendUint64(hb, h)
	}
	_ = os.WriteFile(filepath.Join(outDir(), s.Test+".hashes.bin"), hb, 0o644)
}

// ---------------------------------------------------------------- known findings

type KnownFinding struct {
	Property    string `json:"property"`
	ID          string `json:"id"`
	Signature   string `json:"signature"`
	Replay      string `json:"replay"`
	Description string `json:"description"`
}

type knownFile struct {
	Findings []KnownFinding `json:"findings"`
	Fixed    []string       `json:"fixed"`
}

var (
	knownOnce sync.Once
	knownSigs map[string]map[string]bool // property -> signature -> true
)

func loadKnown() {
	knownSigs = map[string]map[string]bool{}
	p := os.Getenv("VERIF_KNOWN")
	if p == "" {
		return
	}
	b, err := os.ReadFile(p)
	if err != nil {
		return
	}
	var kf knownFile
	if json.Unmarshal(b, &kf) != nil {
		return
	}
	for _, f := range kf.Findings {
		if knownSigs[f.Property] == nil {
			knownSigs[f.Property] = map[string]bool{}
		}
		knownSigs[f.Property][f.Signature] = true
	}
}

// IsKnown reports whether a violation signature is a committed known finding
// of that property. With VERIF_NOKNOWN=1 (used when replaying a finding's own
// file to see whether it still reproduces) nothing is known.
func IsKnown(property, sig string) bool {
	if os.Getenv("VERIF_NOKNOWN") == "1" {
		return false
	}
	// replaying one finding's own file: only that signature is treated as unknown
	if u := os.Getenv("VERIF_UNKNOWN_SIG"); u != "" && u == sig {
		return false
	}
	knownOnce.Do(loadKnown)
	return knownSigs[property][sig]
}

// KnownSigs lists the known signatures of a property (for generators that
// exclude a trigger by construction).
func KnownSigs(property string) []string {
	if os.Getenv("VERIF_NOKNOWN") == "1" {
		return nil
	}
	knownOnce.Do(loadKnown)
	var out []string
	for s := range knownSigs[property] {
		out = append(out, s)
	}
	sort.Strings(out)
	return out
}

// ---------------------------------------------------------------- property runner

// Prop is one generated-input property: a generator of JSON-serialisable cases
// and a check that returns nil, a *Violation, or another error (infrastructure).
type Prop[C any] struct {
	Property string // "C06"
	Name     string // test name, unique
	Rule     string
	Gen      func(t *rapid.T) C
	Check    func(c C, info *CaseInfo, st *Stats) error
}

type replayFile struct {
	Property string          `json:"property"`
	Test     string          `json:"test"`
	Sig      string          `json:"signature"`
	Msg      string          `json:"message"`
	Case     json.RawMessage `json:"case"`
}

func Tier() string {
	if t := os.Getenv("VERIF_TIER"); t != "" {
		return t
	}
	return "quick"
}

func Thorough() bool { return Tier() == "thorough" }

// Run executes the property under rapid, or replays VERIF_REPLAY if it names this test.
func Run[C any](t *testing.T, p Prop[C]) {
	if rp := os.Getenv("VERIF_REPLAY"); rp != "" {
		b, err := os.ReadFile(rp)
		if err != nil {
			t.Fatalf("replay: %v", err)
		}
		var rf replayFile
		if err := json.Unmarshal(b, &rf); err != nil {
			t.Fatalf("replay: %v", err)
		}
		if rf.Test != p.Name {
			t.Skip("replay file is for another test")
		}
		var c C
		if err := json.Unmarshal(rf.Case, &c); err != nil {
			t.Fatalf("replay: bad case: %v", err)
		}
		st := NewStats(p.Property, p.Name, p.Rule)
		info := &CaseInfo{}
		err = safeCheck(p, c, info, st)
		if err != nil {
			if v, ok := err.(*Violation); ok {
				fmt.Printf("REPLAY-VIOLATION property=%s sig=%s msg=%s\n", p.Property, v.Sig, oneLine(v.Msg))
				t.Fatalf("violation reproduced: %v", v)
			}
			t.Fatalf("replay infrastructure error: %v", err)
		}
		fmt.Printf("REPLAY-OK property=%s test=%s\n", p.Property, p.Name)
		return
	}
	st := NewStats(p.Property, p.Name, p.Rule)
	defer st.write()
	rapid.Check(t, func(rt *rapid.T) {
		c := p.Gen(rt)
		info := &CaseInfo{}
		err := safeCheck(p, c, info, st)
		cj, _ := json.Marshal(c)
		if err == nil {
			st.record(cj, info)
			return
		}
		if v, ok := err.(*Violation); ok {
			if IsKnown(p.Property, v.Sig) {
				st.mu.Lock()
				st.KnownHits[v.Sig]++
				st.mu.Unlock()
				st.record(cj, info)
				return
			}
			writeFail(p.Property, p.Name, v, cj)
			st.mu.Lock()
			st.Failed, st.FailSig, st.FailMsg = true, v.Sig, v.Msg
			st.mu.Unlock()
			rt.Fatalf("VIOLATION %s", v.Error())
		}
		// infrastructure error: not a violation; make the run inconclusive
		_ = os.WriteFile(filepath.Join(outDir(), p.Name+".infra"), []byte(err.Error()+"\n"+string(cj)), 0o644)
		rt.Fatalf("INFRA %v", err)
	})
}

func oneLine(s string) string {
	s = strings.ReplaceAll(s, "\n", " | ")
	if len(s) > 600 {
		s = s[:600] + "..."
	}
	return s
}

func safeCheck[C any](p Prop[C], c C, info *CaseInfo, st *Stats) (err error) {
	return p.Check(c, info, st)
}

// writeFail overwrites the last-failure file; rapid's final run after shrinking is
// the minimal case, so what is left behind is the shrunk one.
func writeFail(property, test string, v *Violation, caseJSON []byte) {
	rf := replayFile{Property: property, Test: test, Sig: v.Sig, Msg: v.Msg, Case: caseJSON}
	b, _ := json.MarshalIndent(rf, "", " ")
	_ = os.WriteFile(filepath.Join(outDir(), test+".fail.json"), b, 0o644)
}

// RunExhaustive runs a check over an enumerated finite space (no rapid).
func RunExhaustive[C any](t *testing.T, p Prop[C], enumerate func(yield func(C) bool)) {
	if rp := os.Getenv("VERIF_REPLAY"); rp != "" {
		Run(t, p) // same replay path
		return
	}
	st := NewStats(p.Property, p.Name, p.Rule)
	st.Exhaustive = true
	defer st.write()
	enumerate(func(c C) bool {
		info := &CaseInfo{}
		err := p.Check(c, info, st)
		cj, _ := json.Marshal(c)
		if err == nil {
			st.record(cj, info)
			return true
		}
		if v, ok := err.(*Violation); ok {
			if IsKnown(p.Property, v.Sig) {
				st.KnownHits[v.Sig]++
				st.record(cj, info)
				return true
			}
			writeFail(p.Property, p.Name, v, cj)
			st.Failed, st.FailSig, st.FailMsg = true, v.Sig, v.Msg
			t.Errorf("VIOLATION %s", v.Error())
			return false
		}
		_ = os.WriteFile(filepath.Join(outDir(), p.Name+".infra"), []byte(err.Error()), 0o644)
		t.Errorf("INFRA %v", err)
		return false
	})
}

// FuzzProp adapts a property to Go's coverage-guided fuzzer (thorough tier only): the fuzzer's bytes are
// rapid's bit stream, so generator and oracle are the ones of the rapid test `replayTest`, which is also
// the test a saved failing case is replayed with.
func FuzzProp[C any](property, fuzzName, replayTest string, gen func(*rapid.T) C, check func(C, *CaseInfo, *Stats) error) func(*rapid.T) {
	st := NewStats(property, fuzzName, "")
	return func(t *rapid.T) {
		c := gen(t)
		info := &CaseInfo{}
		err := check(c, info, st)
		if err == nil {
			return
		}
		v, ok := err.(*Violation)
		if !ok {
			t.Skip("infrastructure: " + err.Error()) // never a verdict
		}
		if IsKnown(property, v.Sig) {
			return
		}
		cj, _ := json.Marshal(c)
		rf := replayFile{Property: property, Test: replayTest, Sig: v.Sig, Msg: v.Msg, Case: cj}
		b, _ := json.MarshalIndent(rf, "", " ")
		_ = os.WriteFile(filepath.Join(outDir(), fuzzName+".fail.json"), b, 0o644)
		t.Fatalf("VIOLATION %v", v)
	}
}
