package daemon

// C20, part 3 — generated concurrent programs against ONE shared cache, built with
// -race. Every call is recorded with its invocation and return tick of a logical
// clock (an atomic counter: if call A returned before call B was invoked then
// A.Return < B.Call); the history must be linearizable with respect to the
// sequential model of model_test.go (porcupine). After the goroutines have joined,
// sequential probe reads are appended to the history so that a lost or reordered
// update cannot hide.
//
// Schedules are not reproducible: a violation carries the recorded history.

import (
	"fmt"
	"runtime"
	"sort"
	"strings"
	"sync"
	"sync/atomic"
	"testing"
	"time"

	"github.com/anishathalye/porcupine"
	"github.com/tellor-io/layer/daemons/constants"
	"pgregory.net/rapid"

	"verif/harness/pbt"
)

type ConcCase struct {
	MaxAge    int64  `json:"max_age_ns"`
	ViaServer bool   `json:"via_server"`
	Threads   [][]Op `json:"threads"`
}

// genConcOps draws one goroutine's program. Update times live in [base, base+span],
// read times put the cut-off in the same interval, so freshness, staleness, equal and
// out-of-order timestamps all depend on the interleaving.
func genConcOps(t *rapid.T, n, nM, nE int, maxAge, span int64, pmode int, uniq *int64) []Op {
	ops := make([]Op, 0, n)
	for i := 0; i < n; i++ {
		var op Op
		if rapid.IntRange(0, 99).Draw(t, "isRead") < 40 {
			off := rapid.Int64Range(-1, span+1).Draw(t, "rt")
			if uniq != nil {
				off <<= 12 // same scale as the distinct update times
			}
			op = Op{K: "r", T: baseNs + maxAge + off}
			np := rapid.IntRange(1, nM).Draw(t, "nparams")
			first := rapid.IntRange(0, nM-1).Draw(t, "m")
			for j := 0; j < np; j++ {
				op.R = append(op.R, MP{M: (first + j) % nM, Min: uint32(rapid.IntRange(1, 3).Draw(t, "min"))})
			}
		} else {
			op = Op{K: "u"}
			ng := 1
			if nM > 1 && rapid.IntRange(0, 3).Draw(t, "both") == 0 {
				ng = 2
			}
			first := rapid.IntRange(0, nM-1).Draw(t, "m")
			for g := 0; g < ng; g++ {
				grp := Grp{M: (first + g) % nM}
				nx := rapid.IntRange(1, 3).Draw(t, "nx")
				sameT := rapid.Bool().Draw(t, "sameT")
				var bt int64
				for j := 0; j < nx; j++ {
					x := X{E: rapid.IntRange(0, nE-1).Draw(t, "e")}
					switch pmode {
					case 0:
						x.P = rapid.Uint64Range(1, 1000).Draw(t, "p")
					case 1:
						x.P = ^uint64(0) - rapid.Uint64Range(0, 1000).Draw(t, "p")
					default:
						x.P = rapid.Uint64Range(1, ^uint64(0)).Draw(t, "p")
					}
					if uniq != nil {
						*uniq++
						x.T = baseNs + rapid.Int64Range(0, span).Draw(t, "ut")<<12 + *uniq // distinct across the whole case
					} else if sameT && j > 0 {
						x.T = bt
					} else {
						x.T = baseNs + rapid.Int64Range(0, span).Draw(t, "ut")
						bt = x.T
					}
					grp.Xs = append(grp.Xs, x)
				}
				op.G = append(op.G, grp)
			}
		}
		op.Y = uint8(rapid.IntRange(0, 7).Draw(t, "yield"))
		ops = append(ops, op)
	}
	return ops
}

func genConcCase(t *rapid.T) ConcCase {
	c := ConcCase{
		MaxAge:    rapid.SampledFrom([]int64{int64(constants.MaxPriceAge), int64(constants.MaxPriceAge), 4}).Draw(t, "maxAge"),
		ViaServer: rapid.Bool().Draw(t, "viaServer"),
	}
	nT := rapid.IntRange(2, 8).Draw(t, "goroutines")
	nM := rapid.IntRange(1, 2).Draw(t, "nMarkets")
	nE := rapid.IntRange(2, 4).Draw(t, "nExchanges")
	pmode := rapid.IntRange(0, 2).Draw(t, "priceMode")
	for i := 0; i < nT; i++ {
		n := rapid.IntRange(3, 12).Draw(t, "nOps")
		c.Threads = append(c.Threads, genConcOps(t, n, nM, nE, c.MaxAge, 15, pmode, nil))
	}
	return c
}

type updOut struct{ Err string }

// runConcurrent executes the program on one shared instance and returns the history
// (goroutine ops, then the sequential probes as client len(Threads)).
func runConcurrent(sys *sut, threads [][]Op, probes []Op) []porcupine.Operation {
	var clock atomic.Int64
	exec := func(client int, op *Op) porcupine.Operation {
		if op.Y&4 != 0 {
			runtime.Gosched()
			runtime.Gosched()
		}
		if op.Y&1 != 0 {
			runtime.Gosched()
		}
		rec := porcupine.Operation{ClientId: client, Input: op}
		rec.Call = clock.Add(1)
		if op.K == "u" {
			err := sys.update(op.G)
			rec.Return = clock.Add(1)
			o := updOut{}
			if err != nil {
				o.Err = err.Error()
			}
			rec.Output = o
		} else {
			got, extra := sys.read(op.R, op.T)
			rec.Return = clock.Add(1)
			rec.Output = readOut{S: got, Extra: extra}
		}
		if op.Y&2 != 0 {
			runtime.Gosched()
		}
		return rec
	}
	per := make([][]porcupine.Operation, len(threads))
	start := make(chan struct{})
	var wg sync.WaitGroup
	for i := range threads {
		wg.Add(1)
		go func(i int) {
			defer wg.Done()
			<-start
			for j := range threads[i] {
				per[i] = append(per[i], exec(i, &threads[i][j]))
			}
		}(i)
	}
	close(start)
	wg.Wait()
	var hist []porcupine.Operation
	for _, p := range per {
		hist = append(hist, p...)
	}
	for j := range probes {
		hist = append(hist, exec(len(threads), &probes[j]))
	}
	return hist
}

type readOut struct {
	S     served
	Extra string
}

func cacheModel(maxAge int64) porcupine.Model {
	return porcupine.Model{
		Init: func() interface{} { return state{} },
		Step: func(st, in, out interface{}) (bool, interface{}) {
			s := st.(state)
			op := in.(*Op)
			if op.K == "u" {
				return out.(updOut).Err == "", s.apply(op.G)
			}
			o := out.(readOut)
			return o.Extra == "" && s.read(op.R, op.T, maxAge) == o.S, s
		},
		Equal: func(a, b interface{}) bool { return a.(state) == b.(state) },
		DescribeOperation: func(in, out interface{}) string {
			return describeOp(in.(*Op), out)
		},
		DescribeState: func(st interface{}) string { return st.(state).String() },
	}
}

func describeOp(op *Op, out interface{}) string {
	switch o := out.(type) {
	case updOut:
		if o.Err != "" {
			return op.String() + " -> error " + o.Err
		}
		return op.String()
	case readOut:
		s := op.String() + " -> " + o.S.String()
		if o.Extra != "" {
			s += " EXTRA " + o.Extra
		}
		return s
	}
	return op.String()
}

func dumpHistory(hist []porcupine.Operation, limit int) string {
	h := append([]porcupine.Operation(nil), hist...)
	sort.SliceStable(h, func(i, j int) bool { return h[i].Call < h[j].Call })
	var sb strings.Builder
	for _, o := range h {
		line := fmt.Sprintf("g%d[%d,%d] %s\n", o.ClientId, o.Call, o.Return, describeOp(o.Input.(*Op), o.Output))
		if sb.Len()+len(line) > limit {
			fmt.Fprintf(&sb, "... (%d ops in total)\n", len(h))
			break
		}
		sb.WriteString(line)
	}
	return sb.String()
}

// probesFor builds the sequential reads issued after the join: per market, MinExchanges=1,
// with the cut-off placed on each distinct update time of the program and one past the last.
func probesFor(threads [][]Op, maxAge int64) []Op {
	var probes []Op
	for m := 0; m < maxM; m++ {
		seen := map[int64]bool{}
		var times []int64
		for _, th := range threads {
			for _, op := range th {
				for _, g := range op.G {
					if g.M != m {
						continue
					}
					for _, x := range g.Xs {
						if !seen[x.T] {
							seen[x.T] = true
							times = append(times, x.T)
						}
					}
				}
			}
		}
		sort.Slice(times, func(i, j int) bool { return times[i] < times[j] })
		if len(times) > 24 { // keep the tail: the surviving values are the newest ones
			times = times[len(times)-24:]
		}
		for _, tm := range times {
			probes = append(probes, Op{K: "r", R: []MP{{M: m, Min: 1}}, T: satAdd(tm, maxAge)})
		}
		if len(times) > 0 {
			probes = append(probes, Op{K: "r", R: []MP{{M: m, Min: 1}}, T: satAdd(satAdd(times[len(times)-1], maxAge), 1)})
		}
	}
	return probes
}

// classifyConc is decided by the case alone (not by the schedule).
func classifyConc(threads [][]Op) (nontrivial bool, classes []string) {
	type pos struct{ th, i int }
	updBy := [maxM]map[int]bool{}
	var upds, reads [maxM][]pos
	cellBy := map[[2]int]map[int]bool{}
	cellTime := map[[3]int64]map[int]bool{}
	for th, ops := range threads {
		for i, op := range ops {
			for _, g := range op.G {
				if updBy[g.M] == nil {
					updBy[g.M] = map[int]bool{}
				}
				updBy[g.M][th] = true
				upds[g.M] = append(upds[g.M], pos{th, i})
				for _, x := range g.Xs {
					k := [2]int{g.M, x.E}
					if cellBy[k] == nil {
						cellBy[k] = map[int]bool{}
					}
					cellBy[k][th] = true
					k3 := [3]int64{int64(g.M), int64(x.E), x.T}
					if cellTime[k3] == nil {
						cellTime[k3] = map[int]bool{}
					}
					cellTime[k3][th] = true
				}
			}
			for _, p := range op.R {
				reads[p.M] = append(reads[p.M], pos{th, i})
			}
		}
	}
	set := map[string]bool{}
	for m := 0; m < maxM; m++ {
		if len(updBy[m]) >= 2 {
			set["market-updated-by>=2-goroutines"] = true
			// a read of m positioned (by per-goroutine step index) after one update of m and before another
			for _, r := range reads[m] {
				before, after := false, false
				for _, u := range upds[m] {
					if u.i < r.i {
						before = true
					}
					if u.i > r.i {
						after = true
					}
				}
				if before && after {
					set["read-between-updates"] = true
					nontrivial = true
				}
			}
		}
	}
	for _, ths := range cellBy {
		if len(ths) >= 2 {
			set["exchange-updated-by>=2-goroutines"] = true
		}
	}
	for _, ths := range cellTime {
		if len(ths) >= 2 {
			set["equal-time-updates-from-2-goroutines"] = true
		}
	}
	set[fmt.Sprintf("goroutines=%d", len(threads))] = true
	for k := range set {
		classes = append(classes, k)
	}
	sort.Strings(classes)
	return nontrivial, classes
}

// observedOverlap counts pairs (read, update by another goroutine) whose intervals overlapped.
func observedOverlap(hist []porcupine.Operation) (ru, uu int) {
	for i := range hist {
		for j := range hist {
			a, b := hist[i], hist[j]
			if i >= j || a.ClientId == b.ClientId {
				continue
			}
			if a.Call <= b.Return && b.Call <= a.Return {
				ka, kb := a.Input.(*Op).K, b.Input.(*Op).K
				if ka != kb {
					ru++
				} else if ka == "u" {
					uu++
				}
			}
		}
	}
	return
}

func validThreads(threads [][]Op) error {
	for _, th := range threads {
		for i := range th {
			if err := th[i].valid(); err != nil {
				return err
			}
		}
	}
	return nil
}

func checkConcCase(c ConcCase, info *pbt.CaseInfo, st *pbt.Stats) error {
	if c.MaxAge < 0 {
		return fmt.Errorf("negative max age")
	}
	if err := validThreads(c.Threads); err != nil {
		return err
	}
	info.Nontrivial, info.Classes = classifyConc(c.Threads)
	sys := newSUT(c.MaxAge, c.ViaServer)
	probes := probesFor(c.Threads, c.MaxAge)
	hist := runConcurrent(sys, c.Threads, probes)
	st.Count("calls", int64(len(hist)))
	ru, uu := observedOverlap(hist)
	st.Count("observed_overlapping_read_update_pairs", int64(ru))
	st.Count("observed_overlapping_update_update_pairs", int64(uu))
	if ru+uu > 0 {
		info.Classes = append(info.Classes, "observed-real-overlap")
		st.Count("cases_with_observed_overlap", 1)
	}
	for _, o := range hist {
		if u, ok := o.Output.(updOut); ok && u.Err != "" {
			return fmt.Errorf("update rejected by the server: %s (%s)", u.Err, o.Input.(*Op))
		}
		if r, ok := o.Output.(readOut); ok && r.Extra != "" {
			return pbt.Violf("C20/extra-market", "%s returned %s which was not requested", o.Input.(*Op), r.Extra)
		}
	}
	res := porcupine.CheckOperationsTimeout(cacheModel(c.MaxAge), hist, 60*time.Second)
	st.Count("linearizability_checks", 1)
	switch res {
	case porcupine.Ok:
		return nil
	case porcupine.Unknown:
		return fmt.Errorf("linearizability search timed out on %d ops", len(hist))
	}
	return pbt.Violf("C20/not-linearizable", "no sequential order of the %d recorded calls (respecting return-before-call order) explains the results; max age %dns; history (g<goroutine>[call,return], g%d = probes after join):\n%s",
		len(hist), c.MaxAge, len(c.Threads), dumpHistory(hist, 6000))
}

const c20ConcRule = "2-8 goroutines x 3-12 calls on one shared cache under -race: updates (1-2 markets x 1-3 exchange prices, times base+0..15ns so equal/out-of-order/stale collide, via the gRPC handler or directly) and reads (1-2 markets, MinExchanges 1-3, read time puts the cut-off at base-1..base+16ns), 1-2 markets, 2-4 exchanges, max age 30s or 4ns, Gosched jitter bits per call; then sequential probe reads per market at every update time's cut-off; oracle = porcupine linearizability against the sequential model; non-trivial = some market is updated by >=2 goroutines and some read of it sits (by per-goroutine step index) after one of its updates and before another"

func TestC20_Concurrent(t *testing.T) {
	pbt.Run(t, pbt.Prop[ConcCase]{Property: "C20", Name: "TestC20_Concurrent", Rule: c20ConcRule, Gen: genConcCase, Check: checkConcCase})
}

// ---------------------------------------------------------------- race smoke

// TestC20_RaceSmoke runs longer programs (4-8 goroutines x 10-40 calls) whose update
// times are all distinct, so that the final content of the cache does not depend on
// the interleaving: every (market, exchange) must end with its newest update. The
// longer bodies give the race detector real overlap to look at; the oracle is the
// final state only (a full linearizability search on ~300 overlapping calls is too
// expensive per case).
func genRaceCase(t *rapid.T) ConcCase {
	c := ConcCase{MaxAge: int64(constants.MaxPriceAge), ViaServer: rapid.Bool().Draw(t, "viaServer")}
	nT := rapid.IntRange(4, 8).Draw(t, "goroutines")
	nM := rapid.IntRange(1, 2).Draw(t, "nMarkets")
	nE := rapid.IntRange(2, 4).Draw(t, "nExchanges")
	var uniq int64
	for i := 0; i < nT; i++ {
		n := rapid.IntRange(10, 40).Draw(t, "nOps")
		c.Threads = append(c.Threads, genConcOps(t, n, nM, nE, c.MaxAge, 15, 2, &uniq))
	}
	return c
}

func checkRaceCase(c ConcCase, info *pbt.CaseInfo, st *pbt.Stats) error {
	if c.MaxAge < 0 {
		return fmt.Errorf("negative max age")
	}
	if err := validThreads(c.Threads); err != nil {
		return err
	}
	// distinct update times are what makes the final state schedule-independent
	seen := map[int64]bool{}
	for _, th := range c.Threads {
		for _, op := range th {
			for _, g := range op.G {
				for _, x := range g.Xs {
					if seen[x.T] {
						return fmt.Errorf("update time %d used twice", x.T)
					}
					seen[x.T] = true
				}
			}
		}
	}
	info.Nontrivial, info.Classes = classifyConc(c.Threads)
	sys := newSUT(c.MaxAge, c.ViaServer)
	hist := runConcurrent(sys, c.Threads, nil)
	st.Count("calls", int64(len(hist)))
	ru, uu := observedOverlap(hist)
	st.Count("observed_overlapping_read_update_pairs", int64(ru))
	st.Count("observed_overlapping_update_update_pairs", int64(uu))
	if ru+uu > 0 {
		info.Classes = append(info.Classes, "observed-real-overlap")
		st.Count("cases_with_observed_overlap", 1)
	}
	var final state
	for _, th := range c.Threads {
		for _, op := range th {
			if op.K == "u" {
				final = final.apply(op.G)
			}
		}
	}
	for _, o := range hist {
		if u, ok := o.Output.(updOut); ok && u.Err != "" {
			return fmt.Errorf("update rejected by the server: %s", u.Err)
		}
		if r, ok := o.Output.(readOut); ok && r.Extra != "" {
			return pbt.Violf("C20/extra-market", "%s returned %s which was not requested", o.Input.(*Op), r.Extra)
		}
	}
	for m := 0; m < maxM; m++ {
		for e := 0; e < maxE; e++ {
			cl := final[m][e]
			if !cl.Set {
				continue
			}
			for _, d := range []int64{0, 1} {
				op := &Op{K: "r", R: []MP{{M: m, Min: 1}}, T: cl.T + c.MaxAge + d}
				exp := final.read(op.R, op.T, c.MaxAge)
				got, extra := sys.read(op.R, op.T)
				st.Count("probe_reads", 1)
				if extra != "" {
					return pbt.Violf("C20/extra-market", "probe %s returned %s", op, extra)
				}
				if got != exp {
					return pbt.Violf("C20/final-state-mismatch", "after %d concurrent calls with pairwise distinct update times, probe %s served %s, expected %s; expected final state %s",
						len(hist), op, got, exp, final)
				}
			}
		}
	}
	return nil
}

const c20RaceRule = "4-8 goroutines x 10-40 calls (60% updates with pairwise distinct update times, 40% reads) on one shared cache under -race; oracle = schedule-independent final state (each exchange holds its newest update), probed through reads; the race detector is the second oracle"

func TestC20_RaceSmoke(t *testing.T) {
	pbt.Run(t, pbt.Prop[ConcCase]{Property: "C20", Name: "TestC20_RaceSmoke", Rule: c20RaceRule, Gen: genRaceCase, Check: checkRaceCase})
}
