// Package daemon holds the C20 checks (price daemon: median of fresh exchange
// prices under concurrency). Everything lives in *_test.go files.
package daemon
