package daemon

// C20, part 1 — lib.Median is the true median for every instantiation its type
// constraint allows (uint64 | uint32 | int64 | int32; the repo itself only uses
// uint64). Oracle: refMedianBig, written from the statement with math/big.

import (
	"fmt"
	"math"
	"math/big"
	"slices"
	"sort"
	"testing"

	"github.com/tellor-io/layer/lib"
	"pgregory.net/rapid"

	"verif/harness/pbt"
)

type MedianCase struct {
	Type string   `json:"type"` // uint64 | uint32 | int64 | int32
	U    []uint64 `json:"u,omitempty"`
	S    []int64  `json:"s,omitempty"`
}

func typeRange(typ string) (lo, hi *big.Int, signed bool, bitsN uint, err error) {
	switch typ {
	case "uint64":
		return big.NewInt(0), new(big.Int).SetUint64(math.MaxUint64), false, 64, nil
	case "uint32":
		return big.NewInt(0), big.NewInt(math.MaxUint32), false, 32, nil
	case "int64":
		return big.NewInt(math.MinInt64), big.NewInt(math.MaxInt64), true, 64, nil
	case "int32":
		return big.NewInt(math.MinInt32), big.NewInt(math.MaxInt32), true, 32, nil
	}
	return nil, nil, false, 0, fmt.Errorf("unknown type %q", typ)
}

func genUnsigned(t *rapid.T, bitsN uint, mode int, pivot uint64) uint64 {
	max := uint64(math.MaxUint64)
	if bitsN == 32 {
		max = math.MaxUint32
	}
	if mode == 5 {
		mode = rapid.IntRange(0, 4).Draw(t, "vmode")
	}
	switch mode {
	case 0:
		return rapid.Uint64Range(0, 6).Draw(t, "v")
	case 1:
		return rapid.SampledFrom([]uint64{0, 1, 2, 3, max, max - 1, max - 2, max - 3, max / 2, max/2 + 1, max/2 + 2, max/2 - 1}).Draw(t, "v")
	case 2:
		return rapid.Uint64Range(max/2, max).Draw(t, "v")
	case 3:
		return rapid.Uint64Range(0, max).Draw(t, "v")
	default:
		d := rapid.Int64Range(-3, 3).Draw(t, "d")
		if d < 0 {
			if pivot < uint64(-d) {
				return 0
			}
			return pivot - uint64(-d)
		}
		if pivot > max-uint64(d) {
			return max
		}
		return pivot + uint64(d)
	}
}

func genSigned(t *rapid.T, bitsN uint, mode int, pivot int64) int64 {
	min, max := int64(math.MinInt64), int64(math.MaxInt64)
	if bitsN == 32 {
		min, max = math.MinInt32, math.MaxInt32
	}
	if mode == 5 {
		mode = rapid.IntRange(0, 4).Draw(t, "vmode")
	}
	switch mode {
	case 0:
		return rapid.Int64Range(-4, 4).Draw(t, "v")
	case 1:
		return rapid.SampledFrom([]int64{0, -1, 1, -2, 2, -3, 3, min, min + 1, min + 2, min + 3, max, max - 1, max - 2, max - 3, max / 2, max/2 + 1, min / 2, min/2 - 1}).Draw(t, "v")
	case 2:
		if rapid.Bool().Draw(t, "low") {
			return rapid.Int64Range(min, min/2).Draw(t, "v")
		}
		return rapid.Int64Range(max/2, max).Draw(t, "v")
	case 3:
		return rapid.Int64Range(min, max).Draw(t, "v")
	default:
		d := rapid.Int64Range(-3, 3).Draw(t, "d")
		if d < 0 && pivot < min-d {
			return min
		}
		if d > 0 && pivot > max-d {
			return max
		}
		return pivot + d
	}
}

func genMedianCase(t *rapid.T) MedianCase {
	typ := rapid.SampledFrom([]string{"uint64", "int64", "uint32", "int32"}).Draw(t, "type")
	var n int
	switch k := rapid.IntRange(0, 19).Draw(t, "nkind"); {
	case k == 7: // not at an edge of the range: rapid favours the edges
		n = 0
	case k == 8:
		n = rapid.IntRange(10, 40).Draw(t, "n")
	case k <= 9:
		n = rapid.IntRange(1, 9).Draw(t, "n")
	default:
		n = rapid.SampledFrom([]int{2, 2, 4, 6, 8}).Draw(t, "n")
	}
	mode := rapid.IntRange(0, 5).Draw(t, "mode")
	c := MedianCase{Type: typ}
	_, _, signed, bitsN, _ := typeRange(typ)
	if signed {
		pivot := genSigned(t, bitsN, 3, 0)
		c.S = make([]int64, n)
		for i := range c.S {
			c.S[i] = genSigned(t, bitsN, mode, pivot)
		}
	} else {
		pivot := genUnsigned(t, bitsN, 3, 0)
		c.U = make([]uint64, n)
		for i := range c.U {
			c.U[i] = genUnsigned(t, bitsN, mode, pivot)
		}
	}
	return c
}

// callMedian calls the real function on a private copy; reports whether that copy was modified.
func callMedian[V uint64 | uint32 | int64 | int32](in []V) (V, error, bool) {
	cp := append([]V(nil), in...)
	r, err := lib.Median(cp)
	return r, err, !slices.Equal(cp, in)
}

func checkMedianCase(c MedianCase, info *pbt.CaseInfo, st *pbt.Stats) error {
	lo, hi, signed, _, err := typeRange(c.Type)
	if err != nil {
		return err
	}
	var vals []*big.Int
	if signed {
		if len(c.U) != 0 {
			return fmt.Errorf("signed case with unsigned values")
		}
		for _, v := range c.S {
			vals = append(vals, big.NewInt(v))
		}
	} else {
		if len(c.S) != 0 {
			return fmt.Errorf("unsigned case with signed values")
		}
		for _, v := range c.U {
			vals = append(vals, new(big.Int).SetUint64(v))
		}
	}
	for _, v := range vals {
		if v.Cmp(lo) < 0 || v.Cmp(hi) > 0 {
			return fmt.Errorf("value %s outside %s", v, c.Type)
		}
	}

	var got *big.Int
	var callErr error
	var modified bool
	switch c.Type {
	case "uint64":
		r, e, m := callMedian(c.U)
		got, callErr, modified = new(big.Int).SetUint64(r), e, m
	case "uint32":
		in := make([]uint32, len(c.U))
		for i, v := range c.U {
			in[i] = uint32(v)
		}
		r, e, m := callMedian(in)
		got, callErr, modified = big.NewInt(int64(r)), e, m
	case "int64":
		r, e, m := callMedian(c.S)
		got, callErr, modified = big.NewInt(r), e, m
	case "int32":
		in := make([]int32, len(c.S))
		for i, v := range c.S {
			in[i] = int32(v)
		}
		r, e, m := callMedian(in)
		got, callErr, modified = big.NewInt(int64(r)), e, m
	}
	st.Count("median_calls", 1)
	if modified {
		// not promised either way by the doc comment; only counted
		st.Count("input_modified", 1)
	}

	n := len(vals)
	if n == 0 {
		info.Classes = []string{"n=0"}
		if callErr == nil {
			return pbt.Violf("C20/median-empty-no-error", "lib.Median[%s] of an empty slice returned %s and no error", c.Type, got)
		}
		return nil
	}
	if callErr != nil {
		return pbt.Violf("C20/median-error", "lib.Median[%s] returned error %v for %d values", c.Type, callErr, n)
	}

	// classification on the sorted middle pair
	sorted := append([]*big.Int(nil), vals...)
	sort.Slice(sorted, func(i, j int) bool { return sorted[i].Cmp(sorted[j]) < 0 })
	classes := []string{c.Type}
	kind := "odd"
	if n == 1 {
		classes = append(classes, "n=1")
	} else if n%2 == 1 {
		classes = append(classes, "odd-n")
	} else {
		kind = "even"
		classes = append(classes, "even-n")
		x, y := sorted[n/2-1], sorted[n/2]
		sum := new(big.Int).Add(x, y)
		overflow := sum.Cmp(lo) < 0 || sum.Cmp(hi) > 0
		odd := sum.Bit(0) == 1
		neg := sum.Sign() < 0
		if x.Sign() < 0 && y.Sign() > 0 {
			classes = append(classes, "mid-mixed-sign")
		}
		if x.Cmp(y) == 0 {
			classes = append(classes, "mid-equal")
		}
		if neg {
			classes = append(classes, "mid-mean-negative")
		}
		if odd {
			classes = append(classes, "mid-sum-odd")
			kind = "even-rounding"
		}
		if overflow {
			classes = append(classes, "mid-sum-overflow")
			kind = "even-overflow"
		}
		if overflow && odd {
			classes = append(classes, "mid-sum-overflow+odd")
		}
		info.Nontrivial = overflow || odd || neg
	}
	if n > 9 {
		classes = append(classes, "n>9")
	}
	info.Classes = classes

	want := refMedianBig(vals)
	st.Count("oracle_evals", 1)
	if c.Type == "uint64" {
		// self-check of the fast reference used by the model of the other C20 tests
		if f := refMedianU64(c.U); new(big.Int).SetUint64(f).Cmp(want) != 0 {
			return fmt.Errorf("harness bug: refMedianU64=%d, refMedianBig=%s for %v", f, want, c.U)
		}
	}
	if got.Cmp(want) != 0 {
		return pbt.Violf("C20/median-"+c.Type+"-"+kind, "lib.Median[%s](%s) = %s, true median (even count: mean of the two middle values rounded away from zero) = %s; sorted middle = %s",
			c.Type, fmtVals(vals), got, want, middle(sorted))
	}
	return nil
}

func fmtVals(v []*big.Int) string {
	s := "["
	for i, x := range v {
		if i > 0 {
			s += " "
		}
		if i == 12 {
			s += fmt.Sprintf("... %d more", len(v)-12)
			break
		}
		s += x.String()
	}
	return s + "]"
}

func middle(sorted []*big.Int) string {
	n := len(sorted)
	if n%2 == 1 {
		return sorted[n/2].String()
	}
	return sorted[n/2-1].String() + "," + sorted[n/2].String()
}

const c20MedianRule = "lib.Median over uint64/int64/uint32/int32 slices, length 0 (5%), 1-9, even 2-8 (50%), 10-40 (5%); values from {tiny, type boundaries, extreme halves, uniform full range, pivot+-3}; oracle = math/big sort + middle, even count: exact mean rounded away from zero; non-trivial = even length whose middle pair has a sum that overflows the type, or an odd sum, or a negative mean; distinct by SHA-256 of the case JSON"

func TestC20_Median(t *testing.T) {
	pbt.Run(t, pbt.Prop[MedianCase]{Property: "C20", Name: "TestC20_Median", Rule: c20MedianRule, Gen: genMedianCase, Check: checkMedianCase})
}
