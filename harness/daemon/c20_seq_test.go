package daemon

// C20, part 2 — sequential state machine over the real price cache
// (MarketToExchangePrices, optionally behind Server.UpdateMarketPrices) against
// the array model of model_test.go. Every read result is compared exactly; at the
// end the stored (price,time) pairs are probed through reads with MinExchanges=1
// at each stored time's cut-off and one nanosecond past it.

import (
	"fmt"
	"math"
	"sort"
	"testing"

	"github.com/tellor-io/layer/daemons/constants"
	"pgregory.net/rapid"

	"verif/harness/pbt"
)

type SeqCase struct {
	MaxAge    int64 `json:"max_age_ns"`
	ViaServer bool  `json:"via_server"` // updates through Server.UpdateMarketPrices (prices >= 1) or MarketToExchangePrices.UpdatePrices
	Ops       []Op  `json:"ops"`
}

// tgen draws timestamps that collide: equal, +-1, out of order, on a read's cut-off.
type tgen struct {
	maxAge int64
	upd    []int64 // update times used so far
	rd     []int64 // read times used so far
	latest int64
}

var extremeTimes = []int64{0, 1, -1, math.MaxInt64, math.MaxInt64 - 1, math.MinInt64, math.MinInt64 + 1}

func (g *tgen) window() int64 {
	w := 2*g.maxAge + 10
	if w > 100_000_000_000 {
		w = 100_000_000_000
	}
	return w
}

func (g *tgen) updTime(t *rapid.T) int64 {
	var v int64
	switch k := rapid.IntRange(0, 15).Draw(t, "utk"); {
	case k <= 2 && len(g.upd) > 0: // equal to an earlier update time
		v = rapid.SampledFrom(g.upd).Draw(t, "ut")
	case k <= 5 && len(g.upd) > 0: // next to an earlier update time (stale by 1, newer by 1)
		v = satAdd(rapid.SampledFrom(g.upd).Draw(t, "ut"), rapid.SampledFrom([]int64{-2, -1, 1, 2}).Draw(t, "ud"))
	case k <= 7 && len(g.rd) > 0: // on the cut-off of an earlier read
		v = satAdd(satAdd(rapid.SampledFrom(g.rd).Draw(t, "rt"), -g.maxAge), rapid.Int64Range(-1, 1).Draw(t, "ud"))
	case k <= 11: // forward progress
		v = satAdd(g.latest, rapid.Int64Range(1, 1000).Draw(t, "fwd"))
	case k <= 14: // anywhere in a window of two max ages
		v = baseNs + rapid.Int64Range(0, g.window()).Draw(t, "win")
	default:
		if rapid.IntRange(0, 3).Draw(t, "ext") == 0 {
			v = rapid.SampledFrom(extremeTimes).Draw(t, "ut")
		} else {
			v = baseNs - rapid.Int64Range(0, g.window()).Draw(t, "past")
		}
	}
	g.upd = append(g.upd, v)
	if v > g.latest && v < baseNs+1_000_000_000_000_000 {
		g.latest = v
	}
	return v
}

func (g *tgen) readTime(t *rapid.T) int64 {
	var v int64
	switch k := rapid.IntRange(0, 15).Draw(t, "rtk"); {
	case k <= 6 && len(g.upd) > 0: // an update sits at the cut-off -1/0/+1
		v = satAdd(satAdd(rapid.SampledFrom(g.upd).Draw(t, "ut"), g.maxAge), rapid.Int64Range(-1, 1).Draw(t, "rd"))
	case k <= 8 && len(g.upd) > 0: // at / next to an update time (update time == read time, future updates)
		v = satAdd(rapid.SampledFrom(g.upd).Draw(t, "ut"), rapid.Int64Range(-2, 2).Draw(t, "rd"))
	case k <= 11:
		v = satAdd(g.latest, rapid.Int64Range(0, 1000).Draw(t, "fwd"))
	case k <= 14:
		v = baseNs + rapid.Int64Range(0, 2*g.window()).Draw(t, "win")
	default:
		v = rapid.SampledFrom(extremeTimes).Draw(t, "rt")
	}
	g.rd = append(g.rd, v)
	return v
}

func genPrice(t *rapid.T, mode int, min uint64) uint64 {
	if mode == 4 {
		mode = rapid.IntRange(0, 3).Draw(t, "pmode")
	}
	var p uint64
	switch mode {
	case 0:
		p = rapid.Uint64Range(1, 9).Draw(t, "p")
	case 1:
		p = math.MaxUint64 - rapid.Uint64Range(0, 20).Draw(t, "p")
	case 2:
		p = rapid.SampledFrom([]uint64{0, 1, 2, 1 << 63, 1<<63 - 1, 1<<63 + 1, math.MaxUint64, math.MaxUint64 - 1, math.MaxUint32, 1 << 32}).Draw(t, "p")
	default:
		p = rapid.Uint64().Draw(t, "p")
	}
	if p < min {
		p = min
	}
	return p
}

func genUpdateOp(t *rapid.T, g *tgen, nM, nE, pmode int, minPrice uint64, maxGroups, maxXs int) Op {
	op := Op{K: "u"}
	ng := rapid.IntRange(1, maxGroups).Draw(t, "ngroups")
	for i := 0; i < ng; i++ {
		grp := Grp{M: rapid.IntRange(0, nM-1).Draw(t, "m")}
		nx := rapid.IntRange(1, maxXs).Draw(t, "nx")
		batchT, sameT := int64(0), rapid.IntRange(0, 2).Draw(t, "sameT") == 0
		for j := 0; j < nx; j++ {
			x := X{E: rapid.IntRange(0, nE-1).Draw(t, "e"), P: genPrice(t, pmode, minPrice)}
			if sameT && j > 0 {
				x.T = batchT // one batch often carries one timestamp for all exchanges
			} else {
				x.T = g.updTime(t)
				batchT = x.T
			}
			grp.Xs = append(grp.Xs, x)
		}
		op.G = append(op.G, grp)
	}
	return op
}

func genReadOp(t *rapid.T, g *tgen, nM int) Op {
	op := Op{K: "r", T: g.readTime(t)}
	np := rapid.IntRange(1, nM+1).Draw(t, "nparams")
	for i := 0; i < np; i++ {
		// market index may be one that never received an update; duplicates allowed
		op.R = append(op.R, MP{M: rapid.IntRange(0, min(nM, maxM-1)).Draw(t, "m"), Min: uint32(rapid.IntRange(1, 4).Draw(t, "min"))})
	}
	return op
}

func genMaxAge(t *rapid.T) int64 {
	return rapid.SampledFrom([]int64{int64(constants.MaxPriceAge), int64(constants.MaxPriceAge), int64(constants.MaxPriceAge), 0, 1, 5, 3_600_000_000_000}).Draw(t, "maxAge")
}

func genSeqCase(t *rapid.T) SeqCase {
	c := SeqCase{MaxAge: genMaxAge(t), ViaServer: rapid.Bool().Draw(t, "viaServer")}
	nM := rapid.IntRange(1, maxM).Draw(t, "nMarkets")
	nE := rapid.IntRange(1, maxE).Draw(t, "nExchanges")
	pmode := rapid.IntRange(0, 4).Draw(t, "priceMode")
	minPrice := uint64(0)
	if c.ViaServer {
		minPrice = 1 // the server rejects price 0 (constants.DefaultPrice): precondition of the cache
	}
	g := &tgen{maxAge: c.MaxAge, latest: baseNs}
	nOps := rapid.IntRange(3, 14).Draw(t, "nOps")
	for i := 0; i < nOps; i++ {
		readBias := 45
		if i < 2 {
			readBias = 10
		}
		if rapid.IntRange(0, 99).Draw(t, "isRead") < readBias {
			c.Ops = append(c.Ops, genReadOp(t, g, nM))
		} else {
			c.Ops = append(c.Ops, genUpdateOp(t, g, nM, nE, pmode, minPrice, 2, 4))
		}
	}
	return c
}

// seqClassifier accumulates what made a sequence interesting.
type seqClassifier struct {
	set     map[string]bool
	served  bool
	reject  bool
	boundry bool
}

func (sc *seqClassifier) add(c string) {
	if sc.set == nil {
		sc.set = map[string]bool{}
	}
	sc.set[c] = true
}

func (sc *seqClassifier) classes() []string {
	out := make([]string, 0, len(sc.set))
	for k := range sc.set {
		out = append(out, k)
	}
	sort.Strings(out)
	return out
}

func (sc *seqClassifier) update(s *state, groups []Grp) {
	cur := *s
	for _, g := range groups {
		for _, x := range g.Xs {
			c := &cur[g.M][x.E]
			switch {
			case !c.Set:
				sc.add("upd-first")
			case x.T > c.T:
				sc.add("upd-newer")
			case x.T == c.T:
				sc.reject = true
				if x.P != c.P {
					sc.add("upd-equal-time-other-price")
				} else {
					sc.add("upd-equal-time-same-price")
				}
			default:
				sc.reject = true
				sc.add("upd-stale")
				if c.T-x.T == 1 {
					sc.add("upd-stale-by-1ns")
				}
			}
			if !c.Set || x.T > c.T {
				*c = cell{true, x.P, x.T}
			}
		}
	}
}

func (sc *seqClassifier) read(s *state, op *Op, maxAge int64, exp served) {
	for _, p := range op.R {
		anySet, nfresh := false, 0
		var fresh []uint64
		for e := 0; e < maxE; e++ {
			c := s[p.M][e]
			if !c.Set {
				continue
			}
			anySet = true
			if isFresh(c.T, op.T, maxAge) {
				nfresh++
				fresh = append(fresh, c.P)
			}
			if c.T > op.T {
				sc.add("read-future-update")
				if uint64(c.T)-uint64(op.T) > uint64(maxAge) {
					sc.add("read-future-update-beyond-max-age")
				}
			} else {
				switch age := uint64(op.T) - uint64(c.T); {
				case age == uint64(maxAge):
					sc.add("read-age==max")
					sc.boundry = true
				case age == uint64(maxAge)+1:
					sc.add("read-age==max+1")
					sc.boundry = true
				case maxAge > 0 && age == uint64(maxAge)-1:
					sc.add("read-age==max-1")
					sc.boundry = true
				}
			}
		}
		switch {
		case !anySet:
			sc.add("read-market-empty")
		case nfresh == 0:
			sc.add("read-all-stale")
		case nfresh < int(p.Min):
			sc.add("read-below-min")
		case nfresh == int(p.Min):
			sc.add("read-exactly-min")
			sc.served = true
		default:
			sc.served = true
		}
		if exp[p.M].Ok {
			if nfresh%2 == 0 {
				sc.add("served-even-count")
				sort.Slice(fresh, func(i, j int) bool { return fresh[i] < fresh[j] })
				x, y := fresh[nfresh/2-1], fresh[nfresh/2]
				if x+y < x {
					sc.add("served-mid-sum-overflow")
				}
				if (x^y)&1 == 1 {
					sc.add("served-mid-sum-odd")
				}
			} else if nfresh > 1 {
				sc.add("served-odd-count>1")
			}
		}
	}
}

func diffServed(prefix string, s *state, op *Op, maxAge int64, got, exp served) *pbt.Violation {
	for m := 0; m < maxM; m++ {
		if got[m] == exp[m] {
			continue
		}
		asked := ""
		for _, p := range op.R {
			if p.M == m {
				asked += fmt.Sprintf(" min=%d", p.Min)
			}
		}
		fresh := s.freshPrices(m, op.T, maxAge)
		ctx := fmt.Sprintf("%s: %s; market m%d (id %d)%s; model state %s; fresh prices %v (max age %dns)", prefix, op, m, marketIDs[m], asked, s, fresh, maxAge)
		switch {
		case got[m].Ok && !exp[m].Ok:
			return pbt.Violf("C20/served-without-enough-fresh", "%s: served %d, expected no price", ctx, got[m].P)
		case !got[m].Ok && exp[m].Ok:
			return pbt.Violf("C20/not-served", "%s: served nothing, expected %d", ctx, exp[m].P)
		default:
			return pbt.Violf("C20/wrong-price", "%s: served %d, expected %d", ctx, got[m].P, exp[m].P)
		}
	}
	return nil
}

func checkSeqCase(c SeqCase, info *pbt.CaseInfo, st *pbt.Stats) error {
	if c.MaxAge < 0 {
		return fmt.Errorf("negative max age")
	}
	for i := range c.Ops {
		if err := c.Ops[i].valid(); err != nil {
			return err
		}
	}
	sys := newSUT(c.MaxAge, c.ViaServer)
	var model state
	var sc seqClassifier
	defer func() {
		info.Classes = sc.classes()
		info.Nontrivial = sc.served && (sc.reject || sc.boundry)
	}()
	if c.ViaServer {
		sc.add("via-server")
	} else {
		sc.add("direct")
	}
	if c.MaxAge == int64(constants.MaxPriceAge) {
		sc.add("max-age=30s")
	} else {
		sc.add("max-age=other")
	}
	for i := range c.Ops {
		op := &c.Ops[i]
		if op.K == "u" {
			sc.update(&model, op.G)
			if err := sys.update(op.G); err != nil {
				return fmt.Errorf("op %d %s: update rejected: %v", i, op, err)
			}
			model = model.apply(op.G)
			st.Count("updates", 1)
			continue
		}
		exp := model.read(op.R, op.T, c.MaxAge)
		sc.read(&model, op, c.MaxAge, exp)
		got, extra := sys.read(op.R, op.T)
		st.Count("reads", 1)
		if extra != "" {
			return pbt.Violf("C20/extra-market", "op %d %s returned %s which was not requested", i, op, extra)
		}
		if v := diffServed(fmt.Sprintf("op %d", i), &model, op, c.MaxAge, got, exp); v != nil {
			return v
		}
	}
	// probes: every stored (price,time) must be where the model says it is
	for m := 0; m < maxM; m++ {
		seen := map[int64]bool{}
		for e := 0; e < maxE; e++ {
			cl := model[m][e]
			if !cl.Set || seen[cl.T] {
				continue
			}
			seen[cl.T] = true
			for _, d := range []int64{0, 1} {
				rt := satAdd(cl.T, c.MaxAge)
				if rt == math.MaxInt64 && d == 1 {
					continue
				}
				op := &Op{K: "r", R: []MP{{M: m, Min: 1}}, T: rt + d}
				exp := model.read(op.R, op.T, c.MaxAge)
				got, extra := sys.read(op.R, op.T)
				st.Count("probe_reads", 1)
				if extra != "" {
					return pbt.Violf("C20/extra-market", "probe %s returned %s which was not requested", op, extra)
				}
				if v := diffServed("final probe", &model, op, c.MaxAge, got, exp); v != nil {
					return v
				}
			}
		}
	}
	return nil
}

const c20SeqRule = "3-14 calls on one cache: UpdateMarketPrices (1-2 markets x 1-4 exchange prices, via the gRPC handler or directly) and GetValidMedianPrices (1-4 market params incl. never-updated markets, MinExchanges 1-4) over 1-3 markets and 1-5 exchanges; max age 30s (the constant) or 0/1/5ns/1h; update times equal / +-1,2 / forward / on an earlier read's cut-off / past / extreme int64; read times at update+maxAge-1/0/+1, at the update time +-2, forward, extreme; prices tiny, near 2^64, boundary set, uniform; oracle = array model (strictly-newer wins, fresh <=> read-upd <= maxAge, served <=> fresh>=min, median by 65-bit sum); non-trivial = some read served a price AND (some update was rejected as stale/equal OR some stored time was at max age -1/0/+1 of a read)"

func TestC20_Sequential(t *testing.T) {
	pbt.Run(t, pbt.Prop[SeqCase]{Property: "C20", Name: "TestC20_Sequential", Rule: c20SeqRule, Gen: genSeqCase, Check: checkSeqCase})
}
