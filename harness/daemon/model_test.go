package daemon

// Shared pieces of the C20 checks: the case vocabulary (plain JSON structs), the
// reference median written from the statement (math/big), the sequential model
// of the price cache (a value-type array, so that copies are pure), and the thin
// adapter that drives the real code.
//
// Conventions read off the code and the statement:
//   - lib.Median: even count -> mean of the two middle values, "rounded away
//     from zero" (doc comment of lib.Median); for unsigned types that is round-up.
//   - stored (price,time) of an exchange moves only to a STRICTLY newer update
//     time (PriceTimestamp.UpdatePrice uses After); the very first update of an
//     exchange is always accepted.
//   - fresh <=> readTime - updateTime <= maxAge (inclusive; GetValidPrice uses
//     !Before(cutoff)). An update time later than the read time has a negative
//     age and is therefore fresh.
//   - served <=> #fresh >= MinExchanges and #fresh >= 1. MarketParam.Validate
//     demands MinExchanges >= 1, so only 1..4 are generated.

import (
	"context"
	"fmt"
	"math"
	"math/big"
	"math/bits"
	"sort"
	"strings"
	"time"

	"cosmossdk.io/log"

	clienttypes "github.com/tellor-io/layer/daemons/pricefeed/client/types"
	daemonserver "github.com/tellor-io/layer/daemons/server"
	servertypes "github.com/tellor-io/layer/daemons/server/types"
	pricefeedtypes "github.com/tellor-io/layer/daemons/server/types/pricefeed"
)

const (
	maxM         = 3
	maxE         = 5
	baseNs int64 = 1_700_000_000_000_000_000 // 2023-11-14T22:13:20Z, as unix nanoseconds
)

var (
	marketIDs = [maxM]uint32{0, 7, math.MaxUint32}
	exchNames = [maxE]string{"Binance", "CoinbasePro", "Kraken", "Okx", "Bitstamp"}
)

// X is one exchange price inside an update: exchange index, price, update time (unix ns).
type X struct {
	E int    `json:"e"`
	P uint64 `json:"p"`
	T int64  `json:"t"`
}

// Grp is one MarketPriceUpdate: market index and its exchange prices, applied in order.
type Grp struct {
	M  int `json:"m"`
	Xs []X `json:"xs"`
}

// MP is one market param of a read: market index and MinExchanges.
type MP struct {
	M   int    `json:"m"`
	Min uint32 `json:"min"`
}

// Op is one call: K="u" UpdateMarketPrices/UpdatePrices(G), K="r" GetValidMedianPrices(R, T).
type Op struct {
	K string `json:"k"`
	G []Grp  `json:"g,omitempty"`
	R []MP   `json:"r,omitempty"`
	T int64  `json:"t,omitempty"` // read time, unix ns
	Y uint8  `json:"y,omitempty"` // concurrent programs: bit0 Gosched before the call, bit1 after, bit2 twice before
}

func (o *Op) valid() error {
	switch o.K {
	case "u":
		if len(o.G) == 0 {
			return fmt.Errorf("update without groups")
		}
		for _, g := range o.G {
			if g.M < 0 || g.M >= maxM {
				return fmt.Errorf("market index %d out of range", g.M)
			}
			for _, x := range g.Xs {
				if x.E < 0 || x.E >= maxE {
					return fmt.Errorf("exchange index %d out of range", x.E)
				}
			}
		}
	case "r":
		for _, p := range o.R {
			if p.M < 0 || p.M >= maxM {
				return fmt.Errorf("market index %d out of range", p.M)
			}
		}
	default:
		return fmt.Errorf("unknown op kind %q", o.K)
	}
	return nil
}

// ---------------------------------------------------------------- reference median

// refMedianBig is the statement: sort, take the middle; for an even count the
// mean of the two middle values, rounded away from zero, in exact arithmetic.
func refMedianBig(vals []*big.Int) *big.Int {
	s := make([]*big.Int, len(vals))
	copy(s, vals)
	sort.Slice(s, func(i, j int) bool { return s[i].Cmp(s[j]) < 0 })
	n := len(s)
	if n%2 == 1 {
		return new(big.Int).Set(s[n/2])
	}
	sum := new(big.Int).Add(s[n/2-1], s[n/2])
	q, r := new(big.Int).QuoRem(sum, big.NewInt(2), new(big.Int)) // truncates toward zero
	if r.Sign() != 0 {
		q.Add(q, big.NewInt(int64(sum.Sign())))
	}
	return q
}

// refMedianU64 is the same for uint64 with a 65-bit sum (bits.Add64); it is what the
// model uses inside the linearizability search, and TestC20_Median cross-checks it
// against refMedianBig on every uint64 case.
func refMedianU64(vals []uint64) uint64 {
	s := make([]uint64, len(vals))
	copy(s, vals)
	sort.Slice(s, func(i, j int) bool { return s[i] < s[j] })
	n := len(s)
	if n%2 == 1 {
		return s[n/2]
	}
	sum, carry := bits.Add64(s[n/2-1], s[n/2], 0)
	return (carry<<63 | sum>>1) + sum&1
}

// ---------------------------------------------------------------- sequential model

type cell struct {
	Set bool
	P   uint64
	T   int64
}

// state is the whole cache: (market, exchange) -> latest accepted (price, time).
type state [maxM][maxE]cell

// apply returns the state after one update call (receiver is a copy).
func (s state) apply(groups []Grp) state {
	for _, g := range groups {
		for _, x := range g.Xs {
			c := &s[g.M][x.E]
			if !c.Set || x.T > c.T {
				*c = cell{Set: true, P: x.P, T: x.T}
			}
		}
	}
	return s
}

// isFresh: readTime - updTime <= maxAge, exactly, for any int64 triple with maxAge >= 0.
func isFresh(upd, read, maxAge int64) bool {
	if upd >= read {
		return true
	}
	return uint64(read)-uint64(upd) <= uint64(maxAge) // read > upd: the difference fits uint64
}

type servedCell struct {
	Ok bool
	P  uint64
}

// served is the result of one read, per market index.
type served [maxM]servedCell

func (s *state) freshPrices(m int, readT, maxAge int64) []uint64 {
	var out []uint64
	for e := 0; e < maxE; e++ {
		c := s[m][e]
		if c.Set && isFresh(c.T, readT, maxAge) {
			out = append(out, c.P)
		}
	}
	return out
}

func (s *state) read(params []MP, readT, maxAge int64) served {
	var out served
	for _, p := range params {
		f := s.freshPrices(p.M, readT, maxAge)
		if len(f) >= 1 && len(f) >= int(p.Min) {
			out[p.M] = servedCell{Ok: true, P: refMedianU64(f)}
		}
	}
	return out
}

// ---------------------------------------------------------------- system under test

type sut struct {
	mte *pricefeedtypes.MarketToExchangePrices
	srv *daemonserver.Server // nil: call mte.UpdatePrices directly
}

func newSUT(maxAge int64, viaServer bool) *sut {
	s := &sut{mte: pricefeedtypes.NewMarketToExchangePrices(time.Duration(maxAge))}
	if viaServer {
		s.srv = daemonserver.NewServer(log.NewNopLogger(), nil, nil, "").WithPriceFeedMarketToExchangePrices(s.mte)
	}
	return s
}

func ts(ns int64) time.Time { return time.Unix(0, ns) }

func (s *sut) update(groups []Grp) error {
	ups := make([]*servertypes.MarketPriceUpdate, 0, len(groups))
	for _, g := range groups {
		mpu := &servertypes.MarketPriceUpdate{MarketId: marketIDs[g.M]}
		for _, x := range g.Xs {
			t := ts(x.T)
			mpu.ExchangePrices = append(mpu.ExchangePrices, &servertypes.ExchangePrice{ExchangeId: exchNames[x.E], Price: x.P, LastUpdateTime: &t})
		}
		ups = append(ups, mpu)
	}
	if s.srv != nil {
		_, err := s.srv.UpdateMarketPrices(context.Background(), &servertypes.UpdateMarketPricesRequest{MarketPriceUpdates: ups})
		return err
	}
	s.mte.UpdatePrices(ups)
	return nil
}

// read calls GetValidMedianPrices; extra is a market id that was returned but not asked for.
func (s *sut) read(params []MP, readT int64) (out served, extra string) {
	mps := make([]clienttypes.MarketParam, len(params))
	asked := map[uint32]int{}
	for i, p := range params {
		mps[i] = clienttypes.MarketParam{Id: marketIDs[p.M], Pair: fmt.Sprintf("M%d-USD", p.M), MinExchanges: p.Min, MinPriceChangePpm: 1}
		asked[marketIDs[p.M]] = p.M
	}
	got := s.mte.GetValidMedianPrices(mps, ts(readT))
	for id, price := range got {
		m, ok := asked[id]
		if !ok {
			extra = fmt.Sprintf("market id %d (price %d)", id, price)
			continue
		}
		out[m] = servedCell{Ok: true, P: price}
	}
	return out, extra
}

// ---------------------------------------------------------------- printing

func fmtT(t int64) string {
	d := t - baseNs
	if t >= baseNs-1_000_000_000_000_000 && t <= baseNs+1_000_000_000_000_000 {
		return fmt.Sprintf("b%+d", d)
	}
	return fmt.Sprintf("%d", t)
}

func (o *Op) String() string {
	var sb strings.Builder
	if o.K == "u" {
		sb.WriteString("U")
		for _, g := range o.G {
			fmt.Fprintf(&sb, " m%d{", g.M)
			for i, x := range g.Xs {
				if i > 0 {
					sb.WriteString(" ")
				}
				fmt.Fprintf(&sb, "e%d:%d@%s", x.E, x.P, fmtT(x.T))
			}
			sb.WriteString("}")
		}
		return sb.String()
	}
	sb.WriteString("R")
	for _, p := range o.R {
		fmt.Fprintf(&sb, " m%d>=%d", p.M, p.Min)
	}
	fmt.Fprintf(&sb, " @%s", fmtT(o.T))
	return sb.String()
}

func (s served) String() string {
	var parts []string
	for m, c := range s {
		if c.Ok {
			parts = append(parts, fmt.Sprintf("m%d=%d", m, c.P))
		}
	}
	if len(parts) == 0 {
		return "{}"
	}
	return "{" + strings.Join(parts, " ") + "}"
}

func (s state) String() string {
	var parts []string
	for m := 0; m < maxM; m++ {
		for e := 0; e < maxE; e++ {
			if c := s[m][e]; c.Set {
				parts = append(parts, fmt.Sprintf("m%de%d:%d@%s", m, e, c.P, fmtT(c.T)))
			}
		}
	}
	return "{" + strings.Join(parts, " ") + "}"
}

func satAdd(a, b int64) int64 {
	c := a + b
	if b > 0 && c < a {
		return math.MaxInt64
	}
	if b < 0 && c > a {
		return math.MinInt64
	}
	return c
}
